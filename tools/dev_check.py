#!/usr/bin/env python3
"""dev_check.py <Cxx> <srcroot> - run one rule module on another source root (a scratch copy), no evidence; development aid only."""
import importlib
import os
import sys
sys.path.insert(0, os.path.join(os.path.dirname(os.path.dirname(os.path.abspath(__file__))), "engine"))
from plint import units
from plint.ir import Program
from plint.report import Report
prop, root = sys.argv[1], sys.argv[2]
facts, allu = units.load_units(repo=root)
prog = Program(facts, allu)
mod = importlib.import_module("rules." + prop)
rep = Report(prop, "quick", "scratch")
mod.run(prog, rep)
rc, viol, known = rep.finish(write_evidence=False, quiet=False)
sys.exit(rc)
