#!/usr/bin/env python3
"""scratch_matrix.py neutral [set...] | seeds [name...]

The same studies as neutral_matrix.py / seed_matrix.py, but every patch is applied to its own scratch copy of /repo HEAD's
src/ under /tmp (removed afterwards) and the twenty rule modules are run on that copy through tools/dev_check.py.  /repo is
never touched, so several patches are examined at once and the registered checks stay usable meanwhile.  (`seeds --write-meta` records the
result in seeded/<name>/meta.json and prints the table of DESIGN section 10; seed_matrix.py does the same through the real
./check on a patched /repo and is kept for spot checks.)

neutral: prints `<set>/<patch>: silent` or ALARM with the reporting rules - every alarm is a checker false alarm to fix.
seeds:   prints which properties' rules report each seeded change - a seed nobody reports is a miss to fix.
"""
import os
import re
import shutil
import subprocess
import sys
import tempfile
from concurrent.futures import ThreadPoolExecutor

VERIF = os.path.dirname(os.path.dirname(os.path.abspath(__file__)))
PROPS = [p for p in os.environ.get("MX_PROPS", "").split(",") if p] or ["C%02d" % i for i in range(1, 21)]      # MX_PROPS=C05,C10 limits the rule modules run


def sh(cmd, env=None):
    return subprocess.run(cmd, shell=True, stdout=subprocess.PIPE, stderr=subprocess.STDOUT, universal_newlines=True, env=env)


def run_patch(label, patch):
    d = tempfile.mkdtemp(prefix="scratch_mx.")
    try:
        r = sh("git -C /repo archive HEAD src | tar -x -C %s && cd %s && patch -p1 -s < %s" % (d, d, patch))
        if r.returncode != 0:
            return label, None, "does not apply: " + r.stdout.strip()[:200]
        env = dict(os.environ, PLINT_SCRATCH_ID="mx%d_%s" % (os.getpid(), os.path.basename(d)))
        # warm the private fact cache once, then the twenty rule modules in parallel
        sh("cd %s/engine && python3 -c \"from plint import units; units.load_units(repo='%s')\"" % (VERIF, d), env)
        with ThreadPoolExecutor(max_workers=5) as ex:
            outs = list(ex.map(lambda p: sh("python3 %s/tools/dev_check.py %s %s" % (VERIF, p, d), env), PROPS))
        shutil.rmtree(os.path.join(VERIF, ".work", "facts-st-" + env["PLINT_SCRATCH_ID"]), ignore_errors=True)
        res = {}
        for p, o in zip(PROPS, outs):
            if o.returncode != 0:
                rules = sorted(set(re.findall(r"^  rule (C\d\d\.\d+)", o.stdout, re.M)))
                broken = [l.strip()[:300] for l in o.stdout.splitlines() if "AnalysisBroken" in l or "ANALYSIS-BROKEN" in l or "Traceback" in l]
                lines = [l.strip()[:400] for l in o.stdout.splitlines() if l.startswith("  rule ")][:3]
                res[p] = (o.returncode, rules, broken[-1:] if broken else [], lines)
        return label, res, None
    finally:
        shutil.rmtree(d, ignore_errors=True)


def _write_meta(name, res):
    import json
    sys.path.insert(0, os.path.join(VERIF, "tools"))
    from seed_matrix import META
    d = os.path.join(VERIF, "seeded", name)
    target, needs = META.get(name, (name[:3], ""))
    hits = {}
    for p, (rc, rules, broken, lines) in sorted(res.items()):
        hits[p] = rules if rules else ["ANALYSIS-BROKEN"]
    confirm = ""
    cl = os.path.join(d, "confirm.log")
    if os.path.exists(cl):
        confirm = open(cl, errors="replace").read().strip().splitlines()[-1]
    meta = {
        "seed": name,
        "breaks_property": target,
        "needs_to_manifest": needs,
        "files": {"patch": "patch.diff", "demonstration": "demo/", "seeder_notes": "notes.md"},
        "confirmed_by": "tools/confirm_seed.sh in a scratch worktree of /repo: demo passes on the unchanged tree, fails with the patch, library builds and the full ctest suite passes with the patch",
        "confirmation_result": confirm,
        "detected_by": hits,
        "detected_by_target_property_check": target in hits and hits[target] != ["ANALYSIS-BROKEN"],
    }
    with open(os.path.join(d, "meta.json"), "w") as f:
        json.dump(meta, f, indent=1)
    return (name, target, hits)


def main():
    mode, names = sys.argv[1], [a for a in sys.argv[2:] if a != "--write-meta"]
    write_meta = "--write-meta" in sys.argv      # seeds mode: record the result in seeded/<name>/meta.json and print the DESIGN table
    rows = []
    jobs = []
    if mode == "neutral":
        base = os.path.join(VERIF, "neutral")
        for s in sorted(names or os.listdir(base)):
            for f in sorted(os.listdir(os.path.join(base, s))):
                if f.endswith(".diff"):
                    jobs.append(("%s/%s" % (s, f), os.path.join(base, s, f)))
    else:
        base = os.path.join(VERIF, "seeded")
        for s in sorted(names or os.listdir(base)):
            if os.path.exists(os.path.join(base, s, "patch.diff")):
                jobs.append((s, os.path.join(base, s, "patch.diff")))
    bad = 0
    with ThreadPoolExecutor(max_workers=3) as ex:
        for label, res, err in ex.map(lambda j: run_patch(*j), jobs):
            if err:
                print("%s: %s" % (label, err), flush=True)
                bad += 1
                continue
            if mode == "neutral":
                if res:
                    bad += 1
                    print("%s: ALARM" % label)
                    for p, (rc, rules, broken, lines) in sorted(res.items()):
                        print("   %s rc=%d %s" % (p, rc, " ".join(broken)))
                        for l in lines:
                            print("      " + l)
                else:
                    print("%s: silent" % label)
            else:
                target = label[:3]
                det = ", ".join("%s[%s]" % (p, ",".join(rules) if rules else "BROKEN " + " ".join(broken)) for p, (rc, rules, broken, lines) in sorted(res.items()))
                if not any(rules for (rc, rules, broken, lines) in res.values()):
                    bad += 1
                    det = "NOT DETECTED " + det
                print("%-50s %s -> %s" % (label, target, det))
                if write_meta and len(PROPS) == 20:
                    rows.append(_write_meta(label, res))
            sys.stdout.flush()
    if rows:
        print()
        print("| seeded change | property | reported by |")
        print("|---|---|---|")
        for (name, target, hits) in rows:
            print("| `%s` | %s | %s |" % (name, target, "; ".join("%s: %s" % (k, ", ".join(v)) for k, v in hits.items()) or "**not detected**"))
        print()
    print("done: %d job(s), %d to look at" % (len(jobs), bad))
    return 1 if bad else 0


if __name__ == "__main__":
    sys.exit(main())
