#!/usr/bin/env python3
"""Writes /verif/corpus_base.json: for every kept patch (seeded/*/patch.diff, neutral/*/rN.diff) the sha256 of each file it
touches in /repo HEAD - the tree the patch was validated against.  The thorough tier's corpus cases (engine/plint/selftest.py)
run a patch only while those files are byte-identical to that base; on a tree where they have changed the case is skipped,
because "this refactoring is behaviour-preserving" / "this change is reported" was established for that base only.
Re-run after every commit to /repo (and re-run the studies: tools/scratch_matrix.py neutral / seeds)."""
import hashlib
import json
import os
import re
import subprocess

VERIF = os.path.dirname(os.path.dirname(os.path.abspath(__file__)))


def touched(patch):
    out = []
    for l in open(patch, encoding="utf-8", errors="replace"):
        m = re.match(r"^\+\+\+ (?:b/)?(\S+)", l)
        if m and m.group(1) != "/dev/null":
            out.append(m.group(1))
    return sorted(set(out))


def sha_head(path):
    r = subprocess.run(["git", "-C", "/repo", "show", "HEAD:" + path], stdout=subprocess.PIPE, stderr=subprocess.DEVNULL)
    return hashlib.sha256(r.stdout).hexdigest() if r.returncode == 0 else None


def main():
    idx = {}
    for top, pat in (("seeded", r"^patch\.diff$"), ("neutral", r"^r\d+\.diff$")):
        base = os.path.join(VERIF, top)
        for d in sorted(os.listdir(base)):
            dd = os.path.join(base, d)
            if not os.path.isdir(dd):
                continue
            for f in sorted(os.listdir(dd)):
                if re.match(pat, f):
                    rel = "%s/%s/%s" % (top, d, f)
                    idx[rel] = {p: sha_head(p) for p in touched(os.path.join(dd, f))}
    head = subprocess.run(["git", "-C", "/repo", "rev-parse", "HEAD"], stdout=subprocess.PIPE, universal_newlines=True).stdout.strip()
    with open(os.path.join(VERIF, "corpus_base.json"), "w") as f:
        json.dump({"repo_head": head, "patches": idx}, f, indent=0, sort_keys=True)
    print("corpus_base.json: %d patches against %s" % (len(idx), head[:10]))


if __name__ == "__main__":
    main()
