#!/usr/bin/env python3
"""Applies every kept seeded change to /repo (one at a time, undone straight afterwards), runs every armed
check without writing evidence, records which rules report it, writes seeded/<name>/meta.json and prints the
table used in DESIGN.md."""
import json
import os
import re
import subprocess
import sys

VERIF = os.path.dirname(os.path.dirname(os.path.abspath(__file__)))
SEEDS = os.path.join(VERIF, "seeded")

META = {
    "C01-sim-trylock-blocks": ("C01", "sim spinlock model (not built by default): p_spinlock_trylock calls p_mutex_lock; needs a contended trylock"),
    "C02-reader-wait-no-recheck": ("C02", "general rwlock model (not built by default): reader waits once without re-checking; needs a second writer (or a spurious wake-up) between broadcast and re-acquisition"),
    "C03-broadcast-wakes-one": ("C03", "p_cond_variable_broadcast wired to pthread_cond_signal; needs >= 2 blocked waiters and a single broadcast"),
    "C04-sim-dec-test-unlocked": ("C04", "sim atomic model: dec_and_test re-reads the word after unlocking; needs another atomic operation between unlock and re-read"),
    "C05-thread-ref-taken-late": ("C05", "thread's own reference taken by the new thread instead of at creation; needs the creator to unref before the thread has started"),
    "C06-open-fallback-creates": ("C06", "OPEN-mode fallback open passes O_CREAT with init value 0; needs the owner's unlink between the opener's two sem_open calls"),
    "C07-follower-size-from-argument": ("C07", "existing segment mapped with the caller's size unless it is 0; needs a second handle opened with a larger size"),
    "C08-positions-read-before-lock": ("C08", "read/write positions loaded before p_shm_lock; needs two concurrent producers (or consumers)"),
    "C09-errno-include-dropped": ("C09", "#include <errno.h> removed from psocket.c: every #ifdef EINTR retry is compiled out; needs a handled signal during a blocking call"),
    "C10-accept-wouldblock-not-retried": ("C10", "blocking accept no longer retries on would-block; needs two acceptors racing for one connection"),
    "C11-sha3-pad-store": ("C11", "SHA-3 padding bytes stored with = instead of |=; needs a message length of rate-1 modulo rate"),
    "C12-rb-replace-keeps-old-key": ("C12", "red-black replace keeps the old key object; needs equal keys that are different pointers"),
    "C14-rb-swap-guarded-by-both-notifiers": ("C14", "pair swap in RB two-children removal only when both notifiers are set; needs exactly one notifier and a two-children removal"),
    "C15-lookup-by-value-break": ("C15", "lookup_by_value leaves the chain loop at the first non-matching node; needs colliding keys with a non-matching node in front"),
    "C16-int-getter-base0": ("C16", "int getter uses strtol base 0; needs a value with a leading zero or 0x prefix"),
    "C17-scope-id-from-flowinfo": ("C17", "to_native stores flowinfo into sin6_scope_id; needs an IPv6 address whose scope id differs from its flow info"),
    "C18-platform-key-leak-on-oom": ("C18", "hash object freed only after the NULL test of its string; needs the 3rd allocation inside p_ipc_get_platform_key to fail"),
    "C19-poll-eintr-timed-wait": ("C19", "EINTR from poll turned into a time-out when the socket has a timeout; needs a handled signal during a timed blocking call"),
    # ---- round 2 (a different function / mechanism / clause than the round-1 seed of the same property) ----
    "C01-c11-trylock-relaxed": ("C01", "C11 spinlock model: trylock's compare-exchange success order relaxed; needs a weakly ordered CPU or compiler reordering across the acquire"),
    "C02-writer-unlock-signals-one-reader": ("C02", "general rwlock model: writer unlock signals one reader instead of broadcasting; needs >= 2 readers blocked behind a writer"),
    "C03-signal-skipped-by-racy-waiter-count": ("C03", "signal/broadcast skipped when an unsynchronised waiter counter reads 0; needs signals issued outside the mutex racing with waiters"),
    "C04-c11-set-release-order": ("C04", "C11 atomic model: set uses release instead of seq_cst; needs store-load reordering (Dekker pattern)"),
    "C05-handle-not-zeroed": ("C05", "thread handle allocated with p_malloc instead of p_malloc0: ret_code is never initialised; needs dirty allocator memory and a thread that returns without p_uthread_exit"),
    "C06-create-fallback-no-unlink": ("C06", "CREATE on an existing name no longer unlinks before re-creating; needs a stale semaphore with another value"),
    "C07-lock-semaphore-always-open": ("C07", "the creator obtains the lock semaphore in OPEN mode too: a stale semaphore left locked by a killed process is never reset; needs such a leftover"),
    "C08-inline-free-space-off-by-one": ("C08", "write computes the free space inline and drops the - 1 in the wrapped case; needs a wrapped ring filled exactly"),
    "C09-sigpipe-ignore-compiled-out": ("C09", "signal (SIGPIPE, SIG_IGN) compiled out where MSG_NOSIGNAL exists although send() does not pass it; needs a send to a peer that has closed"),
    "C10-set-blocking-bitfield-truncation": ("C10", "set_blocking stores the raw pboolean into a 1-bit field; needs a truthy value with bit 0 clear"),
    "C11-gost-sum-carry-dropped": ("C11", "GOST control sum carry-out ignores the equal case; needs a 0xFFFFFFFF message word with carry-in"),
    "C12-avl-remove-value-guard-copied": ("C12", "AVL remove guards the value notifier with the key notifier; needs a tree with exactly one notifier"),
    "C13-rb-remove-fixup-stops-below-root": ("C13", "RB removal fix-up also stops at a child of the root; needs a black-leaf removal directly below the root"),
    "C13-avl-replace-runs-insert-retrace": ("C13", "AVL insert's replace branch merged into a common tail that still runs the insert retrace; needs a replacement of a stored key on a non-root node"),
    "C14-replace-same-value-early-return": ("C14", "replace returns early when the value pointer is unchanged; needs equal keys as distinct objects and an identical value pointer"),
    "C15-hash-signed-modulo": ("C15", "bucket index computed with a signed modulo; needs a key whose integer value is negative"),
    "C16-section-header-sscanf-only": ("C16", "section header recognised by sscanf alone; needs a non-header line starting with '['"),
    "C17-loopback-mask-16": ("C17", "IPv4 loopback mask narrowed to /16; needs 127.x.y.z with x != 0"),
    "C18-hash-closed-flag-after-alloc": ("C18", "hash marked closed only after the string allocation; needs that allocation to fail and a later query"),
    "C19-sem-wait-eintr-wrong-getter": ("C19", "sem_wait retry compares the mapped IPC error with EINTR; needs a handled signal while blocked"),
    "C20-ini-param-allocated-without-section": ("C20", "parameter allocated even when no section is open; needs key=value lines before the first section"),
    # ---- round 3 ----
    "C01-sync-lock-val-cas": ("C01", "sync spinlock model: lock loops on __sync_val_compare_and_swap (old value) instead of the boolean CAS; needs a contended lock in a sync-model build"),
    "C02-posix-reader-trylock-takes-write": ("C02", "reader_trylock wired to pthread_rwlock_trywrlock; needs two overlapping readers, one through trylock"),
    "C03-wait-filters-wakeups-by-shared-flag": ("C03", "wait loops on a flag shared by all waiters and re-armed by each new waiter; needs a second thread entering wait between the wake-up and the woken thread's re-acquisition"),
    "C04-c11-pointer-add-32bit": ("C04", "p_atomic_pointer_add selects the 4-byte builtin through a misspelt macro; needs a value or carry beyond 32 bits"),
    "C05-replace-local-guards-new-value": ("C05", "replace_local tests the new value instead of the old one before calling the notifier; needs a replace by NULL or a first use on a key with a notifier"),
    "C06-acquire-no-eintr-retry": ("C06", "p_semaphore_acquire no longer retries sem_wait on EINTR; needs a handled signal while blocked"),
    "C07-created-flag-set-at-end": ("C07", "shm_created set only at the end of create_handle; needs ftruncate/mmap/semaphore creation to fail after the exclusive create"),
    "C08-reported-size-from-larger-argument": ("C08", "p_shm_new reports the opener's size whenever it is non-zero; needs a second handle opened with a larger size"),
    "C09-accept-wouldblock-compares-errno": ("C09", "accept's would-block retry compares the native errno with the library's error enum; needs EAGAIN from accept after a positive poll (racing acceptors)"),
    "C10-accept-cloexec-via-setfl": ("C10", "accepted descriptor gets FD_CLOEXEC through F_SETFL instead of F_SETFD; needs an exec after an accept"),
    "C11-sha256-fill-test-narrowed": ("C11", "SHA-256 fill test compares (puint32) len; needs a buffered partial block followed by one update of >= 2^32 bytes"),
    "C12-bst-remove-value-copied-not-swapped": ("C12", "BST two-children removal copies the value up without swapping it down; needs a value notifier and a two-children removal"),
    "C13-avl-balance-factor-plain-char": ("C13", "balance_factor declared plain char; needs a platform or build where char is unsigned"),
    "C14-clear-value-guard-copied": ("C14", "p_tree_clear guards the value notifier with the key notifier; needs a tree with exactly one notifier and a clear/free"),
    "C15-reverse-single-returns-null": ("C15", "p_list_reverse returns NULL for a one-element list; needs a list of exactly one element"),
    "C16-list-getter-flushes-empty-words": ("C16", "list getter emits a token at every blank; needs two blanks in a row or a blank after the brace"),
    "C17-to-native-clears-before-length-check": ("C17", "to_native clears the whole sockaddr_in before testing destlen; needs a destination shorter than sockaddr_in"),
    "C18-ini-section-finished-before-alloc-check": ("C18", "previous section freed/linked before the p_strchomp result is tested; needs that allocation to fail on a 2nd or later header"),
    "C19-sleep-loop-exits-on-eintr-value": ("C19", "sleep loop continues only while result == -1; needs clock_nanosleep returning EINTR"),
    "C20-close-retried-on-eintr": ("C20", "p_sys_close retries close() on EINTR on every UNIX; needs close interrupted by a signal"),
    "C20-shm-name-left-on-failed-create": ("C20", "shm_created set only after mmap succeeded; needs ftruncate/mmap to fail after the exclusive create (size 0 or huge)"),
    # ---- round 4 (again a different function / mechanism / clause than the three earlier seeds of the property) ----
    "C01-c11-unlock-plain-store": ("C01", "C11 spinlock unlock becomes a plain volatile store instead of a release store; needs a weakly ordered CPU or compiler motion of critical-section stores past the unlock"),
    "C02-general-reader-unlock-reads-before-mutex": ("C02", "general rwlock model: reader_unlock reads the reader count before taking the internal mutex; needs a second reader lock/unlock between the read and the mutex"),
    "C03-mutex-locked-hint-stale-after-wait": ("C03", "PMutex gains a `locked` hint that trylock trusts; pthread_cond_wait releases the native mutex behind its back; needs a trylock by another thread while a waiter is blocked"),
    "C04-sync-fences-moved-to-other-side": ("C04", "sync atomic model: get = load;fence and set = fence;store; needs a store-buffering (Dekker) pattern of set followed by get"),
    "C05-shutdown-keeps-tls-slot": ("C05", "p_uthread_shutdown no longer clears the library TLS slot after dropping the thread's handle; needs the thread that called shutdown to exit through pthread afterwards"),
    "C06-key-from-name-prefix": ("C06", "semaphore name copied with strncpy bounded by the suffix length before hashing; needs two names sharing their first 13 characters"),
    "C07-created-flag-on-any-open-error": ("C07", "shm_created set when the exclusive shm_open fails for any reason but EEXIST; needs shm_open to fail with EMFILE/ENFILE/ENOMEM on an existing name"),
    "C08-wrapped-read-copies-requested-length": ("C08", "second part of a wrapped read copies len - first_part instead of to_copy - first_part; needs a wrapped read asking for more than is stored"),
    "C09-connect-checks-error-before-wait": ("C09", "blocking connect reads SO_ERROR before waiting for writability; needs a connection attempt that fails after connect() returned EINPROGRESS"),
    "C10-sys-close-retries-eintr": ("C10", "p_sys_close retries close() on EINTR on every UNIX; needs close() interrupted by a signal while another thread obtains the same descriptor number"),
    "C11-closed-flag-set-after-delivery": ("C11", "closed = TRUE moved to the end of get_string/get_digest; needs the hex-string allocation to fail once, then another read"),
    "C12-rb-root-removal-leaves-red-root": ("C12", "RB remove does not repaint the replacing child when the removed node is the root; needs a two-node tree, root removal, then an insert below the red root"),
    "C13-rb-replace-runs-insert-fixup": ("C13", "RB insert: the replace exit is folded into the common tail so the insert fix-up also runs on a replaced pair; needs a replacement of a key in a black node with a red parent and a black or missing uncle"),
    "C14-avl-swap-takes-predecessor-value": ("C14", "AVL two-children removal hands the predecessor's value to the notifier; needs an AVL tree with a value notifier and a two-children removal"),
    "C15-remove-loses-prev-node": ("C15", "insert appends at the chain tail and remove's unlink loop no longer advances prev_node; needs removal of a key that is not the oldest of its bucket"),
    "C16-empty-quotes-checked-before-trim": ("C16", "empty-quotes test made before the value is trimmed; needs `key = \"\" ; comment` with a blank between the closing quote and the comment"),
    "C17-getaddrinfo-guard-inverted": ("C17", "the guard that undefines PLIBSYS_HAS_GETADDRINFO lost its `!`: the getaddrinfo branch is compiled out; needs a scoped IPv6 string such as fe80::1%lo"),
    "C18-hash-table-new-unwinds-with-free": ("C18", "p_hash_table_new stores size before the bucket allocation and unwinds with p_hash_table_free; needs the second allocation of the call to fail"),
    "C19-socket-errno-include-dropped": ("C19", "#include <errno.h> removed from psocket.c: every #ifdef EINTR retry is compiled out; needs a handled signal during connect/accept/recv/send/poll"),
    # ---- round 5 ----
    "C01-trylock-true-unless-ebusy": ("C01", "p_mutex_trylock returns TRUE unless the native result is EBUSY; needs pthread_mutex_trylock to fail with EAGAIN/EINVAL/... while another thread holds the mutex"),
    "C02-posix-rwlock-writer-preferring-attr": ("C02", "native rwlock created with PTHREAD_RWLOCK_PREFER_WRITER_NONRECURSIVE_NP; needs a writer queued behind a reader when a second read lock is requested"),
    "C03-signal-skipped-by-signalled-flag": ("C03", "signal skips pthread_cond_signal while a `signalled` flag is set, wait clears it on entry; needs two blocked waiters and two signals without a wait in between"),
    "C04-sim-cas-takes-mutex-by-trylock": ("C04", "sim atomic model: compare-and-exchange takes the global mutex with trylock and fails when it is busy; needs another atomic operation in flight"),
    "C05-tls-key-loser-returns-freed-key": ("C05", "the loser of the first-use key CAS returns its freed key holder instead of adopting the winner's; needs two threads making the first use of one key concurrently"),
    "C06-sysv-release-without-undo": ("C06", "System V model: release drops SEM_UNDO while acquire keeps it; needs a second process that uses the name and exits, or 32768 acquires by one process"),
    "C07-opened-semaphore-marked-created": ("C07", "a semaphore that was merely opened is marked created: a visitor's free unlinks the segment lock's name; needs creator, visitor opened and freed, then a third opener"),
    "C08-clear-zeroes-ring-size-bytes": ("C08", "clear zero-fills buf->size bytes instead of the segment; needs a buffer of capacity 7 or less cleared while write_pos is non-zero"),
    "C09-receive-from-sockaddr-too-small": ("C09", "receive_from's address buffer is a 16-byte struct sockaddr; needs an IPv6 datagram socket and a caller asking for the sender address"),
    "C10-socket-errno-include-dropped-timeouts": ("C10", "#include <errno.h> removed from psocket.c again (EINTR retries compiled out), shown through the timeout clause; needs a handled signal during a timed blocking call"),
    "C11-sha512-byte-swap-moved-to-digest": ("C11", "the final byte swap of SHA-384/512 moved from finish into digest; needs the result of one finished hash read twice on a little-endian host"),
    "C12-avl-replace-notifies-new-pair": ("C12", "AVL replace stores the new key and value before calling the notifiers, which then receive the new pair; needs an AVL tree with a notifier and a replace"),
    "C13-avl-transplanted-leaf-keeps-removed-factor": ("C13", "AVL one-child removal copies the removed node's balance factor onto the leaf that replaces it; needs such a removal, then an insert below that leaf"),
    "C14-bst-node-freed-before-notifiers": ("C14", "BST remove frees the node before handing its key and value to the notifiers; needs an allocator that scrubs or reuses freed blocks"),
    "C15-remove-presence-by-lookup-marker": ("C15", "remove decides presence through p_hash_table_lookup != (ppointer) -1; needs a key stored with the all-ones value"),
    "C16-double-getter-through-float": ("C16", "the double getter keeps the p_strtod result in a pfloat local; needs a value with more than single precision or an exponent beyond 38"),
    "C17-ipv4-text-parsed-by-inet-aton": ("C17", "IPv4 text parsed with inet_aton instead of inet_pton; needs a non-canonical form such as 127.1, 0x7f.0.0.1 or 010.1.1.1"),
    "C18-list-append-returns-null-on-oom": ("C18", "p_list_append returns NULL instead of the list when the node allocation fails; needs an allocation failure in an append onto a non-empty list"),
    "C19-shm-open-retry-on-cached-errno": ("C19", "the second shm_open retry loop tests a cached errno that is always EEXIST there; needs EINTR on the plain open of an existing segment"),
    "C20-socket-new-treats-fd-zero-as-failure": ("C20", "p_socket_new treats descriptor 0 as a failed socket(): the socket is neither stored nor closed; needs fd 0 to be free"),
    # ---- round 6 ----
    "C01-c11-lock-cas-release-order": ("C01", "C11 spinlock lock: the compare-exchange success order is RELEASE instead of ACQUIRE; needs a weakly ordered CPU (or a happens-before race detector)"),
    "C02-general-writer-count-mask-one-bit": ("C02", "general rwlock model: the writer-count getter masks one bit, the waiting-writer count is read modulo 2; needs two writers blocked at once"),
    "C03-wait-private-lock-broadcast-unserialised": ("C03", "wait sleeps on a private mutex of the condition after dropping the user mutex, signal takes it, broadcast does not; needs a broadcast between the unlock and the enqueueing"),
    "C04-c11-dec-and-test-nonpositive": ("C04", "c11 dec_and_test tests `sub_fetch > 0 ? FALSE : TRUE`; needs a word that is already zero or negative"),
    "C05-creation-spinlock-taken-after-native-create": ("C05", "the creation spinlock is taken after the native create; needs the new thread to start before the creator has filled in the handle"),
    "C06-created-flag-or-instead-of-and": ("C06", "sem_created set when mode == CREATE || handle valid; needs creator, a visitor opened and freed, then a third opener"),
    "C07-sysv-rmid-on-every-free": ("C07", "System V model: IPC_RMID on every free; needs one handle freed while another stays open, then a new opener"),
    "C08-buffer-new-clears-on-every-open": ("C08", "p_shm_buffer_new clears the segment; needs a second handle opened on a non-empty buffer"),
    "C09-receive-from-wouldblock-retry-dropped": ("C09", "blocking receive_from no longer retries on would-block; needs the datagram to disappear between poll and recvfrom (two receivers, bad checksum)"),
    "C10-io-condition-wait-closed-check-dropped": ("C10", "p_socket_io_condition_wait lost its closed check; needs a direct call on a closed socket with the error code or the time checked"),
    "C11-md5-reset-keeps-len-high": ("C11", "MD5 reset no longer clears len_high; needs 2^32 bytes hashed, a reset, then any message on the same object"),
    "C12-foreach-thread-counter-8bit": ("C12", "foreach counts pending thread links in a pint8; needs an unbalanced BST with a left spine of more than 256 links and an early stop"),
    "C13-rb-node-freed-before-repaint-decision": ("C13", "RB remove frees the node before reading its colour for the repaint of the promoted child; needs an allocator that overwrites freed blocks and a black one-child removal"),
    "C14-rb-replace-keeps-destroyed-key": ("C14", "RB replace no longer stores the new key: the destroyed old key stays in the node; needs equal keys that are different objects and a key notifier"),
    "C15-chain-search-compares-low-word": ("C15", "the chain search compares P_POINTER_TO_INT of the keys; needs two keys that differ only above bit 31"),
    "C16-bom-check-signed-char": ("C16", "the BOM bytes are compared as plain char; needs a file with a BOM in front of the first header on a signed-char platform"),
    "C17-from-native-masks-flowinfo": ("C17", "from_native keeps the low 20 bits of sin6_flowinfo; needs an IPv6 address whose flow info has a higher bit set"),
    "C18-general-rwlock-new-frees-wrong-cv": ("C18", "general rwlock model: the error branch for the write condition frees write_cv (NULL) instead of read_cv; needs the 4th allocation of p_rwlock_new to fail"),
    "C19-ealready-mapped-to-connected": ("C19", "EALREADY classified CONNECTED in the errno table; needs connect interrupted by a signal with the handshake still pending at the retry"),
    "C20-map-size-stored-after-create": ("C20", "map_size stored by p_shm_new after the create helper returned; needs p_shm_new to fail in its semaphore step after mmap succeeded"),
    "C20-dir-handle-stored-after-path-copies": ("C20", "p_dir_new stores the DIR handle only after the path copies succeeded; needs the 2nd or 3rd allocation of the call to fail"),
    # ---- round 7 ----
    "C01-c11-lock-by-fetch-add-wraps": ("C01", "C11 spinlock lock spins on fetch_add(1) != 0: the waiters keep counting; needs 2^32 failed attempts (a long contended hold) for the counter to wrap to 0 and admit a second owner"),
    "C02-reader-trylock-true-unless-ebusy": ("C02", "native rwlock: reader_trylock returns TRUE for every result but EBUSY; needs EAGAIN (reader count exhausted) or another failure of tryrdlock"),
    "C03-wait-restarts-on-stale-errno-eintr": ("C03", "wait re-enters pthread_cond_wait while the result or a stale errno is EINTR; needs errno == EINTR left behind by an earlier call, then every wake-up is swallowed"),
    "C04-sim-set-without-the-mutex": ("C04", "sim model: set and pointer_set store without the global mutex; needs a store landing inside another thread's read-modify-write"),
    "C05-free-internal-detaches-joined-handle": ("C05", "p_uthread_free_internal detaches a joinable handle; needs a joined thread's id reused by a later thread, whose join then returns at once"),
    "C06-platform-key-shared-static-hash": ("C06", "p_ipc_get_platform_key keeps one static SHA-1 context; needs two threads deriving keys for different names at the same time"),
    "C07-sem-wait-retried-on-eagain": ("C07", "semaphore acquire (the shm lock) retries on EAGAIN instead of EINTR; needs a handled signal while waiting for the lock"),
    "C08-shm-lock-semaphore-always-create": ("C08", "p_shm_new opens the lock semaphore in CREATE mode even for an existing segment; needs a second opener while the first holds the lock"),
    "C09-poll-ignores-pollerr-only-wakeup": ("C09", "the condition wait goes back into poll when the wake-up lacks the requested event; needs POLLERR/POLLHUP alone (peer reset), then the call spins forever"),
    "C10-new-from-fd-leaves-fd-blocking": ("C10", "p_socket_new_from_fd no longer switches the descriptor to non-blocking; needs an accepted or foreign blocking descriptor used with a timeout or in non-blocking mode"),
    "C11-sha1-bit-length-32bit-shift": ("C11", "SHA-1 finish computes `len_low << 3` in 32 bits before widening; needs a message of 2^29 bytes or more"),
    "C12-insert-ignores-null-value": ("C12", "p_tree_insert returns early for a NULL value; needs a tree used as a set (NULL values) - the count, traversal and remove result are wrong while lookup looks right"),
    "C14-bst-remove-skips-null-key-notifier": ("C14", "BST remove skips the destroy notifiers when the key or value is NULL; needs a NULL key or value stored with notifiers installed"),
    "C15-lookup-rejects-null-key": ("C15", "lookup returns (ppointer) -1 for a NULL key before searching; needs a NULL key inserted and then looked up"),
    "C16-key-before-first-section-null-deref": ("C16", "operator precedence lets a `key = value` line before the first section through with section == NULL; needs such a line, and the parameter is appended to a NULL section"),
    "C17-from-native-ipv6-exact-length-only": ("C17", "from_native accepts AF_INET6 only when len == sizeof(sockaddr_in6); needs the kernel's 128-byte sockaddr_storage length (accept, recvfrom)"),
    "C18-thread-freed-after-native-create-on-name-oom": ("C18", "p_uthread_create_full frees the handle when the name copy fails after the native thread was started; needs that allocation to fail"),
    "C19-sleep-eintr-read-from-errno-after-clock-nanosleep": ("C19", "the sleep loop reads errno after clock_nanosleep, which returns the error number instead; needs a handled signal during the sleep"),
    "C20-new-from-fd-closes-callers-descriptor": ("C20", "p_socket_new_from_fd unwinds through p_socket_free, closing the caller's descriptor, which the caller closes again; needs the mode switch to fail and another thread opening a descriptor in between"),
    # ---- round 8 ----
    "C01-sync-trylock-add-then-undo": ("C01", "sync spinlock trylock = fetch_add, undone by fetch_sub on failure; needs the holder's plain-store unlock between the two steps (the word goes to -1, or a third thread gets in)"),
    "C02-general-new-without-zero-fill": ("C02", "general rwlock model: p_rwlock_new allocates with p_malloc; needs a recycled heap block or a non-clearing user allocator, the counters then start with garbage"),
    "C03-wait-uses-first-bound-mutex": ("C03", "the condition variable remembers the first mutex it was waited with and passes that one to pthread_cond_wait; needs a later wait with a different mutex"),
    "C04-c11-dec-and-test-last-owner-fast-path": ("C04", "c11 dec_and_test: when the word reads 1 it stores 0 and returns TRUE without a read-modify-write; needs a concurrent atomic update between the load and the store"),
    "C05-eperm-retry-result-dropped": ("C05", "the EPERM retry of pthread_create discards its result; needs the first create refused with EPERM and the retry succeeding - the handle is freed under the running thread"),
    "C06-sysv-rmid-skipped-for-id-zero": ("C06", "System V clean-up tests sem_hdl > 0; needs the set with id 0 (first set of an IPC namespace), whose owner's free then skips IPC_RMID"),
    "C07-fallback-open-may-create": ("C07", "the fallback shm_open after EEXIST passes O_CREAT; needs the owner's free between the follower's two opens - a zero-length segment nobody unlinks"),
    "C08-opened-lock-semaphore-marked-created": ("C08", "a semaphore handle that only opened an existing name is marked created; needs a second handle of the segment closed while a third is opened later - two lock semaphores for one segment"),
    "C09-set-blocking-cast-instead-of-normalise": ("C09", "set_blocking stores (puint) blocking into a 1-bit field; needs an even non-zero true value"),
    "C10-ealready-reported-connected": ("C10", "EALREADY classified CONNECTED; needs a second p_socket_connect while the first is still pending"),
    "C11-reset-skipped-on-open-context": ("C11", "p_crypto_hash_reset returns early unless the hash is closed; needs update, reset, update without a read in between"),
    "C12-avl-replace-resets-balance-factor": ("C12", "AVL insert's replace path shares the tail that stores balance_factor = 0; needs a replace on a leaning node, then removals that rotate by the stale factor"),
    "C13-rb-remove-red-parent-shortcut": ("C13", "RB remove recolours parent and sibling itself when the removed black leaf has a red parent, without looking at the sibling's children; needs a sibling with a red child"),
    "C14-avl-remove-notifies-before-unlink": ("C14", "AVL remove calls the notifiers before re-balancing and unlinking; needs a notifier that looks into the same tree"),
    "C15-listing-countdown-skips-bucket-zero": ("C15", "keys()/values() walk the buckets with `for (i = size - 1; i > 0; --i)`; needs a key in bucket 0"),
    "C16-header-test-reads-before-empty-line": ("C16", "the header test no longer checks dst_line[0] first: dst_line[strlen - 1] reads in front of the block for an empty line; needs a blank line and a bounds observer"),
    "C17-is-any-swaps-sixteen-bits": ("C17", "is_any converts the address with p_ntohs; needs an address 0.0.x.y"),
    "C18-map-size-set-after-create-leaks-mapping": ("C18", "map_size stored after the create helper returned; needs the lock semaphore's allocation to fail after mmap - munmap (addr, 0) fails and the mapping stays"),
    "C19-sleep-abstime-keeps-relative-remainder": ("C19", "clock_nanosleep with TIMER_ABSTIME while the EINTR path still copies the (never written) remainder into the request; needs a handled signal during the sleep"),
    "C20-semaphore-new-frees-object-only-on-open-failure": ("C20", "p_semaphore_new releases only the object when the create helper fails; needs sem_open to fail (EACCES, EMFILE) - the platform key string leaks"),
    # ---- round 9 ----
    "C01-sync-spinlock-new-raw-malloc": ("C01", "sync spinlock constructor allocates with p_malloc: the lock word is never stored; needs a recycled or uncleared block - a new lock starts out held"),
    "C02-general-writer-trylock-ignores-readers": ("C02", "general model writer_trylock tests only the writer bits of the active counter; needs a writer trylock while readers hold the lock"),
    "C03-free-without-cond-destroy": ("C03", "p_cond_variable_free releases the memory without pthread_cond_destroy; needs a free right after the broadcast that woke the last waiters, and the block reused"),
    "C04-c11-pointer-xor-does-or": ("C04", "c11 pointer_xor calls __atomic_fetch_or; needs an operand sharing a set bit with the word"),
    "C05-detach-state-compares-with-true": ("C05", "the native detach state is chosen by `joinable == TRUE`; needs a true joinable value other than 1 - the handle joins, the native thread is detached"),
    "C06-create-depends-on-unlink-result": ("C06", "CREATE on an existing name re-creates only when its own sem_unlink succeeds; needs an owner's free between the exclusive open and the unlink - CREATE fails with ENOENT"),
    "C07-sysv-unlock-without-undo": ("C07", "System V unlock without SEM_UNDO while lock keeps it; needs a process that used the shm lock to exit - the kernel adds its adjustments and the mutex admits several holders"),
    "C08-lock-acquire-no-eintr-retry": ("C08", "semaphore acquire (the buffer lock) no longer retries sem_wait on EINTR; needs a handled signal while a buffer operation waits for the lock"),
    "C09-ealready-mapped-connected-again": ("C09", "EALREADY mapped to CONNECTED; needs a connect re-issued while the first attempt is pending"),
    "C10-timed-connect-ignores-wait-verdict": ("C10", "blocking connect ignores the result of the writability wait and reads SO_ERROR anyway; needs the wait to time out - success and connected are reported for a pending handshake"),
    "C11-sha512-padding-boundary-inclusive": ("C11", "SHA-512 finish pads one block when left <= 112; needs a message of length 112 mod 128 - the 0x80 byte is never appended"),
    "C12-tree-new-raw-malloc-count": ("C12", "p_tree_new_full allocates with p_malloc and never stores nnodes; needs a recycled or uncleared block"),
    "C13-avl-replace-rewrites-parent-and-factor": ("C13", "AVL insert's replace path shares a tail that stores balance factor 0 and a parent link taken from a variable that starts NULL; needs a replacement on a non-root or leaning node"),
    "C14-insert-notifies-rejected-pair-on-oom": ("C14", "insert calls the notifiers on the pair it was given when the node allocation fails; needs that allocation to fail on a tree with notifiers"),
    "C15-bucket-sum-in-int-again": ("C15", "the bucket function adds 37 in int before widening (the earlier fix reverted); needs a key whose low word is within 36 of INT_MAX and an overflow observer"),
    "C16-line-clamp-off-by-one": ("C16", "the line clamps cut at index MAX - 1 under `>=`; needs a line of exactly 1024 bytes"),
    "C17-any-loopback-constructors-raw-malloc": ("C17", "new_any / new_loopback allocate with p_malloc and never store flowinfo and scope_id; needs IPv6 and a dirty heap block"),
    "C18-semaphore-create-handle-key-check-dropped": ("C18", "the argument check of pp_semaphore_create_handle removed; needs the key derivation's allocation to fail - sem_open (NULL)"),
    "C19-poll-restart-count-bounded": ("C19", "the poll EINTR retry gives up after 16 restarts; needs 17 handled signals during one blocking wait"),
    "C20-sem-created-from-flag-bits": ("C20", "sem_created = open_flags & O_CREAT (64, not TRUE) while the clean-up unlinks only for == TRUE; needs CREATE on an existing name, then free without take_ownership - the name stays"),
    # ---- round 10 ----
    "C01-mutex-new-recursive-attribute": ("C01", "p_mutex_new creates a recursive native mutex; needs a trylock or lock by the thread that already holds the object"),
    "C02-general-writer-deregisters-on-every-wakeup": ("C02", "general model writer_lock decrements the waiting-writer count inside its wait loop; needs a writer woken while the lock is still busy - it sleeps again unregistered and is never signalled"),
    "C03-signal-skipped-by-clamped-waiter-count": ("C03", "a waiter counter that broadcast resets and wait decrements with a clamp makes signal return early when it reads 0; needs a broadcast after which two waiters wait again, then signals"),
    "C04-c11-cas-equal-values-shortcut": ("C04", "c11 int compare-and-exchange returns TRUE at once when oldval == newval; needs such a call on a word holding another value"),
    "C05-local-free-deletes-native-key": ("C05", "p_uthread_local_free deletes the native key; needs a thread still holding a value under the key when the reference is freed - its notifier never runs"),
    "C06-sysv-key-file-created-without-excl": ("C06", "System V key file opened without O_EXCL: every opener believes it created the file; needs a joiner freed while the creator lives, then a third opener - a second counter"),
    "C07-follower-truncates-existing-segment": ("C07", "an opener of an existing segment with a non-zero size takes the creator's ftruncate branch; needs a second handle with a smaller size - the creator's tail pages vanish"),
    "C08-ring-last-slot-behind-the-segment": ("C08", "the segment is created one byte smaller and the modulus compensates with + 1: the ring's last slot lies behind the mapping; needs header + capacity a multiple of the page size"),
    "C09-new-from-fd-keeps-blocking-mode": ("C09", "p_socket_new_from_fd no longer switches the descriptor to non-blocking (again); needs an accepted socket used non-blocking or with a timeout"),
    "C10-close-keeps-listening-flag": ("C10", "p_socket_close no longer clears the listening flag; needs listen, close, set_listen_backlog - the setter is refused and the getter is stale"),
    "C11-sha3-update-fill-level-kept": ("C11", "SHA-3 update drops `left = 0` after completing the partial block; needs a split update that completes a block and leaves a remainder"),
    "C12-lookup-goes-left-only-on-minus-one": ("C12", "p_tree_lookup descends left only for a comparator result of exactly -1; needs a comparator returning other negative values (strcmp, a - b)"),
    "C13-rb-root-removal-skips-repaint": ("C13", "RB remove of a root with one child no longer paints the promoted child black; needs the tree shrunk to two pairs, the root removed, then an insert"),
    "C14-avl-replace-stores-before-notifying": ("C14", "AVL replace stores the new pair before calling the notifiers, which then receive the new pair; needs a replace with distinct objects"),
    "C15-lookup-by-value-identity-shortcut": ("C15", "lookup_by_value lists a value identical to the argument without asking the predicate; needs a predicate that rejects identical values"),
    "C16-plain-pattern-without-blank-after-equals": ("C16", "the plain pattern loses the blank after `=`: `key = ; comment` now matches with a blank value that trims to empty; needs an empty value followed by blanks and a comment"),
    "C17-from-native-one-byte-buffer": ("C17", "from_native only rejects length 0 before reading the 2-byte family; needs a 1-byte buffer whose next byte is unreadable"),
    "C18-dir-handle-stored-after-copies-again": ("C18", "p_dir_new stores the DIR handle after the path copies; needs one of those allocations to fail - the stream leaks"),
    "C19-sem-open-retry-solaris-only": ("C19", "the first sem_open EINTR retry compiled only on Solaris; needs EINTR on the exclusive sem_open"),
    "C20-shutdown-relies-on-tls-destructor": ("C20", "p_uthread_shutdown wipes the TLS slot without unref, counting on the destructor; needs an adopted thread (main) calling p_uthread_current then shutdown"),
    # round 11
    "C01-mutex-lock-tests-negative-result": ("C01", "p_mutex_lock tests pthread_mutex_lock's result with `< 0` (the -1-on-error convention) although it returns a positive errno; needs a lock call that fails (EDEADLK on an error-checking mutex, EINVAL, EOWNERDEAD) - reported as taken"),
    "C02-general-set-readers-mask-sixteen-bits": ("C02", "general model: the SET macro of the packed waiting-readers count masks with 16 bits while the getter reads the full field; needs more than 65535 waiting readers or a neighbouring count bit, 'general' build only"),
    "C03-recursive-mutex-held-twice-at-wait": ("C03", "p_mutex_new creates a recursive native mutex; needs a thread that locked twice before p_cond_variable_wait - the wait releases one level only and nobody can signal"),
    "C04-sim-shutdown-keeps-dangling-mutex": ("C04", "sim model: p_atomic_thread_shutdown frees the global mutex but keeps the pointer; needs init, shutdown, init again (the second init skips creation) and then any atomic operation"),
    "C05-ref-plain-increment": ("C05", "p_uthread_ref increments ref_count with a plain ++; needs two threads taking references (or one ref racing an unref) - a lost update frees the handle early"),
    "C06-init-val-field-sixteen-bits": ("C06", "PSemaphore.init_val narrowed to pushort; needs an initial value above 65535 - the created semaphore counts value mod 65536"),
    "C07-follower-size-through-32-bits": ("C07", "the follower reads st_size through a puint32 cast; needs an existing segment of 4 GiB or more - get_size reports the size mod 2^32 and the mapping is short"),
    "C08-fit-test-sum-wraps": ("C08", "write's fit test rewritten as used + len >= size, which wraps in psize; needs a len close to SIZE_MAX on a non-empty buffer - accepted, then memcpy with a huge length"),
    "C09-sender-address-skipped-for-empty-datagram": ("C09", "receive_from builds the sender address only when ret > 0; needs a zero-length datagram with an address requested - the caller's pointer stays unset"),
    "C10-check-connect-result-keeps-connected": ("C10", "check_connect_result returns FALSE before storing `connected` when SO_ERROR != 0; needs a socket marked connected whose later non-blocking attempt is refused - is_connected keeps saying TRUE"),
    "C11-sha3-position-through-32-bits": ("C11", "SHA-3 update computes the block offset through a 32-bit product; needs more than 4 GiB fed in one call (or a length whose low 32 bits alias) - digest differs"),
    "C12-clear-frees-node-before-value-notifier": ("C12", "p_tree_clear releases the node before handing its value to the notifier in the left == NULL branch; needs a value notifier and an allocator that reuses or poisons the block (ASan)"),
    "C14-foreach-thread-counter-8bit-again": ("C14", "foreach's Morris-thread counter narrowed to 8 bits; needs a traversal stopped after a multiple of 256 open threads - threads stay in the tree and clear/remove walk a cycle"),
    "C15-list-append-null-on-oom-again": ("C15", "p_list_append returns NULL instead of the list when the item allocation fails; needs that allocation to fail - the caller's `list = p_list_append (list, x)` loses every element"),
    "C16-strchomp-all-blank-returns-null": ("C16", "p_strchomp returns NULL for an all-blank non-empty string; needs a quoted INI value made of blanks only - the key is dropped from the section"),
    "C17-address-text-buffer-one-short": ("C17", "get_address passes sizeof(buffer) - 1 to inet_ntop; needs an address whose text form has the maximal length (255.255.255.255-like, full IPv6) - ENOSPC, NULL returned"),
    "C18-addrinfo-leaked-on-oom": ("C18", "p_socket_address_new returns before freeaddrinfo when the conversion allocation fails; needs an IPv6 literal and that allocation to fail - the libc list leaks"),
    "C19-accept-eintr-retry-dropped": ("C19", "the EINTR retry after accept() was dropped; needs a handled signal during accept on a blocking socket - accept fails with an interrupted-call error"),
    "C20-shm-take-ownership-forgets-semaphore": ("C20", "p_shm_take_ownership no longer passes ownership to the guarding semaphore; needs a non-creator taking ownership then free - the named semaphore stays in the system"),
    # round 12 (six seeders on the properties with the newest clauses)
    "C06-sysv-clean-keeps-ownership-flag": ("C06", "System V clean_handle no longer resets sem_created; needs a handle that owned the set, the set removed and re-created by others, then acquire/release - the recovery path re-initialises the live counter and owns the set again"),
    "C07-sysv-lock-semaphore-reset-by-every-opener": ("C07", "System V semaphore create path does SETVAL for every opener; needs a second shm handle opened while the first holds the lock - the lock semaphore is reset to 1 and both enter"),
    "C09-buflen-cast-to-socklen-again": ("C09", "P_SOCKET_BUFLEN_CAST casts to socklen_t; needs a buffer length of 2^32 or more - the native call gets the length modulo 2^32"),
    "C10-socket-created-without-cloexec-flag": ("C10", "p_socket_new no longer passes SOCK_CLOEXEC, only the later fcntl; needs another thread to fork + exec between socket() and fcntl()"),
    "C16-boolean-getter-returns-raw-number": ("C16", "the boolean getter returns (pboolean) atoi (val); needs a numeric text other than 0/1 - \"2\" is not TRUE, \"-1\" is truthy"),
    "C17-text-length-prefilter": ("C17", "p_socket_address_new rejects strings of INET6_ADDRSTRLEN or more before parsing; needs a fully written scoped IPv6 literal (46+ characters), which getaddrinfo accepts"),
}


def sh(cmd, **kw):
    return subprocess.run(cmd, shell=True, stdout=subprocess.PIPE, stderr=subprocess.STDOUT, universal_newlines=True, **kw)


def main():
    props = ["C%02d" % i for i in range(1, 21)]
    rows = []
    only = sys.argv[1:]
    for name in sorted(os.listdir(SEEDS)):
        if only and name not in only:
            continue
        d = os.path.join(SEEDS, name)
        patch = os.path.join(d, "patch.diff")
        if not os.path.exists(patch):
            continue
        target, needs = META.get(name, (name[:3], ""))
        r = sh("git -C /repo apply %s" % patch)
        if r.returncode != 0:
            print("cannot apply", name, r.stdout)
            continue
        hits = {}
        try:
            # extract the changed units once, then run the twenty checks side by side on the cached facts
            sh("cd %s/engine && python3 -c 'from plint import units; units.load_units()'" % VERIF)
            from concurrent.futures import ThreadPoolExecutor
            with ThreadPoolExecutor(max_workers=10) as ex:
                outs = list(ex.map(lambda p: sh("cd %s && PLINT_NO_EVIDENCE=1 ./check %s" % (VERIF, p)), props))
            for p, o in zip(props, outs):
                rules = sorted(set(re.findall(r"rule (C\d\d\.\d+)", o.stdout)))
                if o.returncode == 1 and rules:
                    hits[p] = rules
                elif o.returncode == 2:
                    hits[p] = ["ANALYSIS-BROKEN"]
        finally:
            sh("git -C /repo checkout -- .")
        confirm = ""
        cl = os.path.join(d, "confirm.log")
        if os.path.exists(cl):
            confirm = open(cl).read().strip().splitlines()[-1]
        meta = {
            "seed": name,
            "breaks_property": target,
            "needs_to_manifest": needs,
            "files": {"patch": "patch.diff", "demonstration": "demo/", "seeder_notes": "notes.md"},
            "confirmed_by": "tools/confirm_seed.sh in a scratch worktree of /repo: demo passes on the unchanged tree, fails with the patch, library builds and the full ctest suite passes with the patch",
            "confirmation_result": confirm,
            "detected_by": hits,
            "detected_by_target_property_check": target in hits and hits[target] != ["ANALYSIS-BROKEN"],
        }
        with open(os.path.join(d, "meta.json"), "w") as f:
            json.dump(meta, f, indent=1)
        rows.append((name, target, hits))
        print("%-42s %s -> %s" % (name, target, ", ".join("%s[%s]" % (k, " ".join(v)) for k, v in hits.items()) or "NOT DETECTED"))
    print()
    print("| seeded change | property | reported by |")
    print("|---|---|---|")
    for (name, target, hits) in rows:
        print("| `%s` | %s | %s |" % (name, target, "; ".join("%s: %s" % (k, ", ".join(v)) for k, v in hits.items()) or "**not detected**"))


if __name__ == "__main__":
    main()
