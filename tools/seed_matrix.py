#!/usr/bin/env python3
"""Applies every kept seeded change to /repo (one at a time, undone straight afterwards), runs every armed
check without writing evidence, records which rules report it, writes seeded/<name>/meta.json and prints the
table used in DESIGN.md."""
import json
import os
import re
import subprocess
import sys

VERIF = os.path.dirname(os.path.dirname(os.path.abspath(__file__)))
SEEDS = os.path.join(VERIF, "seeded")

META = {
    "C01-sim-trylock-blocks": ("C01", "sim spinlock model (not built by default): p_spinlock_trylock calls p_mutex_lock; needs a contended trylock"),
    "C02-reader-wait-no-recheck": ("C02", "general rwlock model (not built by default): reader waits once without re-checking; needs a second writer (or a spurious wake-up) between broadcast and re-acquisition"),
    "C03-broadcast-wakes-one": ("C03", "p_cond_variable_broadcast wired to pthread_cond_signal; needs >= 2 blocked waiters and a single broadcast"),
    "C04-sim-dec-test-unlocked": ("C04", "sim atomic model: dec_and_test re-reads the word after unlocking; needs another atomic operation between unlock and re-read"),
    "C05-thread-ref-taken-late": ("C05", "thread's own reference taken by the new thread instead of at creation; needs the creator to unref before the thread has started"),
    "C06-open-fallback-creates": ("C06", "OPEN-mode fallback open passes O_CREAT with init value 0; needs the owner's unlink between the opener's two sem_open calls"),
    "C07-follower-size-from-argument": ("C07", "existing segment mapped with the caller's size unless it is 0; needs a second handle opened with a larger size"),
    "C08-positions-read-before-lock": ("C08", "read/write positions loaded before p_shm_lock; needs two concurrent producers (or consumers)"),
    "C09-errno-include-dropped": ("C09", "#include <errno.h> removed from psocket.c: every #ifdef EINTR retry is compiled out; needs a handled signal during a blocking call"),
    "C10-accept-wouldblock-not-retried": ("C10", "blocking accept no longer retries on would-block; needs two acceptors racing for one connection"),
    "C11-sha3-pad-store": ("C11", "SHA-3 padding bytes stored with = instead of |=; needs a message length of rate-1 modulo rate"),
    "C12-rb-replace-keeps-old-key": ("C12", "red-black replace keeps the old key object; needs equal keys that are different pointers"),
    "C14-rb-swap-guarded-by-both-notifiers": ("C14", "pair swap in RB two-children removal only when both notifiers are set; needs exactly one notifier and a two-children removal"),
    "C15-lookup-by-value-break": ("C15", "lookup_by_value leaves the chain loop at the first non-matching node; needs colliding keys with a non-matching node in front"),
    "C16-int-getter-base0": ("C16", "int getter uses strtol base 0; needs a value with a leading zero or 0x prefix"),
    "C17-scope-id-from-flowinfo": ("C17", "to_native stores flowinfo into sin6_scope_id; needs an IPv6 address whose scope id differs from its flow info"),
    "C18-platform-key-leak-on-oom": ("C18", "hash object freed only after the NULL test of its string; needs the 3rd allocation inside p_ipc_get_platform_key to fail"),
    "C19-poll-eintr-timed-wait": ("C19", "EINTR from poll turned into a time-out when the socket has a timeout; needs a handled signal during a timed blocking call"),
    "C20-shm-name-left-on-failed-create": ("C20", "shm_created set only after mmap succeeded; needs ftruncate/mmap to fail after the exclusive create (size 0 or huge)"),
}


def sh(cmd, **kw):
    return subprocess.run(cmd, shell=True, stdout=subprocess.PIPE, stderr=subprocess.STDOUT, universal_newlines=True, **kw)


def main():
    props = ["C%02d" % i for i in range(1, 21)]
    rows = []
    for name in sorted(os.listdir(SEEDS)):
        d = os.path.join(SEEDS, name)
        patch = os.path.join(d, "patch.diff")
        if not os.path.exists(patch):
            continue
        target, needs = META.get(name, (name[:3], ""))
        r = sh("git -C /repo apply %s" % patch)
        if r.returncode != 0:
            print("cannot apply", name, r.stdout)
            continue
        hits = {}
        try:
            for p in props:
                o = sh("cd %s && PLINT_NO_EVIDENCE=1 ./check %s" % (VERIF, p))
                rules = sorted(set(re.findall(r"rule (C\d\d\.\d+)", o.stdout)))
                if o.returncode == 1 and rules:
                    hits[p] = rules
                elif o.returncode == 2:
                    hits[p] = ["ANALYSIS-BROKEN"]
        finally:
            sh("git -C /repo checkout -- .")
        confirm = ""
        cl = os.path.join(d, "confirm.log")
        if os.path.exists(cl):
            confirm = open(cl).read().strip().splitlines()[-1]
        meta = {
            "seed": name,
            "breaks_property": target,
            "needs_to_manifest": needs,
            "files": {"patch": "patch.diff", "demonstration": "demo/", "seeder_notes": "notes.md"},
            "confirmed_by": "tools/confirm_seed.sh in a scratch worktree of /repo: demo passes on the unchanged tree, fails with the patch, library builds and the full ctest suite passes with the patch",
            "confirmation_result": confirm,
            "detected_by": hits,
            "detected_by_target_property_check": target in hits and hits[target] != ["ANALYSIS-BROKEN"],
        }
        with open(os.path.join(d, "meta.json"), "w") as f:
            json.dump(meta, f, indent=1)
        rows.append((name, target, hits))
        print("%-42s %s -> %s" % (name, target, ", ".join("%s[%s]" % (k, " ".join(v)) for k, v in hits.items()) or "NOT DETECTED"))
    print()
    print("| seeded change | property | reported by |")
    print("|---|---|---|")
    for (name, target, hits) in rows:
        print("| `%s` | %s | %s |" % (name, target, "; ".join("%s: %s" % (k, ", ".join(v)) for k, v in hits.items()) or "**not detected**"))


if __name__ == "__main__":
    main()
