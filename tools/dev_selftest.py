#!/usr/bin/env python3
"""dev_selftest.py <Cxx> <srcroot> [id...] - run a rule module's inline self-tests (mutants and neutral edits) against another source root; development aid only."""
import importlib
import os
import sys
sys.path.insert(0, os.path.join(os.path.dirname(os.path.dirname(os.path.abspath(__file__))), "engine"))
os.environ.setdefault("PLINT_CORPUS", "0")
from plint import units, selftest
prop, root, only = sys.argv[1], sys.argv[2], sys.argv[3:]
selftest.SRC_ROOT = root
mod = importlib.import_module("rules." + prop)
res = selftest.run(prop, mod, only=only or None)
sys.exit(1 if res["failed"] else 0)
