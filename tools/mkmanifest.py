#!/usr/bin/env python3
"""Regenerates /verif/MANIFEST.json from the table below (kept by hand)."""
import json
import os

HERE = os.path.dirname(os.path.dirname(os.path.abspath(__file__)))

TRUST = ("Trusted base: clang 14 front end, constant folder and clang::CFG; the POSIX / GCC-builtin summary tables in "
         "engine/rules; only the Linux x86-64 preprocessing of each unit (default build plus the alternate atomic/spinlock/"
         "rwlock model units) is analysed. Nothing is executed.")

DECIDES = ("Static analysis (level 'other'): decides the listed structural clauses on every path of every analysed unit, from "
           "/repo's current source; each is a necessary condition of the property. It does not decide the behavioural "
           "remainder listed under 'Declines' in DESIGN.md section 4 %s.")

COMMON = (" Shared clauses under the rule that owns the object's state: record objects are zero-filled at allocation or fully stored before they are returned; "
          "a path that fills in the error argument returns a failure value; tests of system-call results put 0 / a valid descriptor on the success side. ")

CLAIMED = {
    "C01": dict(
        text="Rules C01.1-C01.5: pthread_mutex wrapper wiring with exact TRUE/FALSE mapping and non-blocking trylock, the native mutex created "
             "with default (non-recursive, non-robust) attributes; "
             "spinlock acquire protocol (CAS FREE->HELD, expected value provably FREE at every evaluation, order >= ACQUIRE, "
             "loop left only on CAS success), release protocol (release store / full barrier), lock/unlock state-encoding "
             "agreement, for the c11, sync and sim models; lock objects zero-filled at birth; the native mutex is destroyed before its memory is released. " + DECIDES % "C01",
        technique="path-sensitive CFG dataflow over clang AST facts: wrapper-wiring check, reaching constant of the CAS expected value, memory-order lattice"),
    "C04": dict(
        text="Rules C04.1-C04.4 over all 16 p_atomic_* operations in the c11, sync and sim models (48 instances): symbolic "
             "evaluation of every CFG path with a semantics table for the __atomic/__sync builtins, comparing the stored and the "
             "returned value with the operation's specification term (fetch-vs-op-fetch, operand order of compare-exchange, "
             "dec_and_test polarity, SEQ_CST orders, strong CAS); indivisibility from the per-path event trace (one builtin and no "
             "plain access; sync get/set barrier side; sim: every access inside the one global mutex, balanced, and that mutex is created by thread_init whenever it does not exist and its pointer reset by thread_shutdown after the free); operand width. " + DECIDES % "C04",
        technique="symbolic term evaluation of each operation against a specification term + per-path event-trace discipline (lock coverage, barrier side, single RMW)"),
    "C02": dict(
        text="Rules C02.1-C02.6. posix model: six wrappers wired to the right pthread_rwlock call (through their static helper), "
             "TRUE iff 0, try-functions non-blocking, the native lock created with the default reader/writer preference (no writer-preferring "
             "non-recursive kind). general model (never built by the suite): the internal mutex is taken and "
             "released exactly once on every path; the packed counters are touched only under it; every condition wait passes the "
             "held mutex, is registered in the waiter field the waker tests, and is followed by a re-evaluation of the admission "
             "predicate before the lock is granted; readers are admitted only with the writer field known zero, writers only with the "
             "whole counter zero; field masks/shifts agree across all functions; unlock wakes what becomes grantable (read_cv only by "
             "broadcast); a waiter registers before and deregisters after its wait loop, never inside it; the lock object is zero-filled at allocation (its counters are never stored by the constructor); the native rwlock is destroyed before its memory is released. " + DECIDES % "C02",
        technique="wrapper-wiring check; term-valued path-sensitive dataflow with mutex typestate, epoch reset at condition waits, packed-field classification and wake-obligation check at returns"),
    "C03": dict(
        text="Rules C03.1-C03.3: wait/signal/broadcast call pthread_cond_wait/signal/broadcast on &cond->hdl, TRUE iff 0, no cross-wiring "
             "(a broadcast degenerating to signal is reported); the PMutex pointer cast to pthread_mutex_t* is justified by the record "
             "layout of struct PMutex_ (pthread_mutex_t at offset 0); the native mutex is the only lock state the mutex functions read "
             "(pthread_cond_wait unlocks and relocks it behind the PMutex API, so any other state they consulted would be stale after a wait); free destroys the native condition - which waits for woken waiters to leave - before releasing the memory. " + DECIDES % "C03",
        technique="wrapper-wiring check, cross-unit record-layout check, who-reads-field rule over the mutex unit's lock functions"),
    "C19": dict(
        text="Rules C19.1-C19.5 over every call site of an interruptible blocking call in the library (sem_open x2, sem_wait, shm_open x2, "
             "connect, accept, recv, recvfrom, send, sendto, poll, clock_nanosleep): in the scenario 'this evaluation failed with EINTR on "
             "the error channel POSIX defines for the call' (errno, or the return value for clock_nanosleep) every feasible path re-issues "
             "the same call before any function exit (paths leaving through the genuine failure of a different fallible call are excused); "
             "the sleep is re-issued with the remainder the call filled in and 0 is returned only after the call returned 0; close() is not "
             "retried; EALREADY, the answer to a connect re-issued after EINTR, is classified IN_PROGRESS by the errno table (C19.5); a call that returned success is never re-issued whatever errno holds; clock_nanosleep is used in relative mode. " + DECIDES % "C19",
        technique="scenario-seeded path-sensitive guard dataflow from each blocking call site (must-reach-retry-before-exit), POSIX error-channel table"),
    "C09": dict(
        text="Rules C09.1-C09.6 on psocket.c/perror.c: every interruptible call site re-issues the call after EINTR; on a blocking socket a "
             "would-block result (EAGAIN, mapped through the errno switch recovered from perror.c) leads back to the call through the wait and "
             "is never reported; the success path returns the system call's result unchanged, buffer and length reach it unmodified and at "
             "full width; receive_from builds the sender address from the objects recvfrom filled, and every buffer the kernel writes an address "
             "into (recvfrom, getsockname, getpeername, accept) holds a sockaddr_in6 with its length object initialised accordingly; SIGPIPE is ignored at library "
             "initialisation or MSG_NOSIGNAL is passed; EAGAIN/EWOULDBLOCK/EINPROGRESS map to the codes the retry logic tests; connected is "
             "set only after connect==0 or wait+SO_ERROR==0, and SO_ERROR is read only on paths carrying the fact that the writability "
             "wait succeeded; a condition wait that returned TRUE is followed by the native call, one that returned FALSE by a failure return; receive_from builds the sender address on every non-failure return with an address requested, a zero-length datagram included. " + DECIDES % "C09",
        technique="scenario-seeded guard dataflow per call site (EINTR / would-block), alias-based result provenance, switch-table recovery, type-width check of the length path"),
    "C10": dict(
        text="Rules C10.1-C10.6 on psocket.c (C10.5 includes: a flag stored into a bit-field narrower than its source is normalised to 0/1): every read of socket->fd in an operation is reached only after the closed test passed "
             "(pp_socket_check summarised and itself checked, named exceptions with reasons); close sets fd=-1/closed/!connected/!listening on "
             "success, is idempotent and is the only closer used by free; a non-blocking socket never reaches the condition wait or a retry "
             "in the would-block scenario; the descriptor inside a PSocket is always non-blocking (the one fcntl(F_SETFL) setter ORs O_NONBLOCK when asked for blocking=FALSE, and every "
             "constructor that installs a descriptor passes through it with FALSE before returning the object); poll gets the socket timeout when positive else a negative constant, fixed before the retry loop, "
             "0 -> TIMED_OUT, 1 -> TRUE, and a poll that returned 0 or 1 is never re-issued (whatever errno holds); getters return the field their setter writes; socket()/accept() descriptors get close-on-exec on "
             "every success path; shutdown () gets SHUT_RDWR / SHUT_RD / SHUT_WR exactly for both / read / write and connected is cleared after both; check_connect_result stores connected = (SO_ERROR == 0) on every return after a successful getsockopt; socket() itself is given SOCK_CLOEXEC." + COMMON + DECIDES % "C10",
        technique="guard dataflow with dominance of the closed check, scenario flows (non-blocking would-block, successful creation), term evaluation of the poll timeout, field-agreement of getters/setters"),
    "C06": dict(
        text="Rules C06.1-C06.5. C06.1-C06.4 on psemaphore-posix.c: name typestate in the create path (exclusive create first; never a plain open of a name "
             "just unlinked; every creating open passes the requested initial value; CREATE mode on an existing name unlinks and "
             "re-creates, OPEN mode neither unlinks nor creates), ownership flag only where the handle created the name or took "
             "ownership, close always / unlink only when owner, acquire/release wiring with exact result mapping, key identity (the key derivation in pipc.c refers to no static or global variable, so concurrent opens of different names cannot meet). C06.5 on psemaphore-sysv.c (not selectable in the Linux build, "
             "analysed with the POSIX unit's flags): semop -1 / +1 on semaphore 0 from constant sembuf objects, blocking, with the same undo flag "
             "in both directions, every semop retried on EINTR; exclusive semget first, ownership only on its success, SETVAL exactly when owned or "
             "in CREATE mode, IPC_RMID only by the owner, id tests separate exactly -1 from the valid ids, the key file is created exclusively. The constructor records mode and initial value before the create path runs and sizes the name buffer for name + suffix + NUL; the recording fields are as wide as the arguments; clean_handle resets every field create_handle stores (both models)." + COMMON + DECIDES % "C06",
        technique="path-sensitive typestate over the IPC name (unknown/exists/absent) with guard facts on mode and errno; wiring and who-writes-field checks"),
    "C07": dict(
        text="Rules C07.1-C07.6. C07.1-C07.5 on pshm-posix.c: mmap parameters (MAP_SHARED, offset 0, shm_open descriptor, size field, protection by "
             "perms); creator/follower split (ftruncate only by the creator, follower size from fstat on every path to the mapping, owner "
             "flag, unlink only when owner); descriptor closed exactly once on every path; lock semaphore on the same key with value 1 and "
             "CREATE iff creator, lock/unlock wiring; the field munmap uses as length equals the mapped length and is frozen while mapped. C07.6 on pshm-sysv.c (analysed with "
             "the POSIX unit's flags): exclusive shmget with the requested size first, plain lookup with size 0 otherwise, reported size from "
             "shm_segsz, lock semaphore CREATE exactly for the creator, IPC_RMID only with no attachment left, lock/unlock wiring, id tests separate exactly -1 from the valid ids; st_size reaches the size field without a narrower cast; clean_handle resets every field create_handle stores (both models)." + COMMON + DECIDES % "C07",
        technique="path-sensitive typestate (descriptor open/closed, role creator/follower, size provenance) with guard facts; frozen-field rule between mmap and munmap"),
    "C08": dict(
        text="Rules C08.1-C08.8 on pshmbuffer.c (+ the reported-size half of C08.4 on pshm-posix.c): every segment access and every call of "
             "the unlocked space helpers lies between a successful lock and unlock, every path unlocks; stored positions are (old + n) % size "
             "computed from the word loaded under the same lock; the ring is written only after 'free < len' tested false, refusal returns 0 "
             "untouched, read takes min(used, len); for each of the three orderings of the positions used + free + 1 == size with no "
             "negative subtraction (linear normaliser, no solver); contiguous copy only under start+n<=size, wrapped copy lengths/offsets "
             "identities, copied total == position advance; clear zero-fills from offset 0 over the whole reported segment (at least the "
             "header holding both positions); the ring modulus derives only from the size the shm layer reports and is at most that size minus the 16-byte header; opening, freeing or taking ownership of a handle never touches the segment's memory (C08.7); "
             "no conversion narrows a position, size or length except into the documented pint result (C08.8); clear performs its fill on every path with a mapped segment and the lock granted; error-reporting paths return failure. One known "
             "finding (reported size of an existing segment depends on the opener's argument). " + DECIDES % "C08",
        technique="term-valued path-sensitive dataflow with lock typestate; linear-form normalisation of the space/copy identities over the finite set of position orderings"),
    "C05": dict(
        text="Rules C05.1-C05.5 on puthread.c / puthread-posix.c (C05.3 includes: the native detach state handed to pthread_attr_setdetachstate agrees with the joinable flag on every path - for 1, 0 and a true value other than 1 -, and pthread_detach is never called afterwards; releasing a key reference never reaches pthread_key_delete; a handle wiped from the library slot by hand is unref'ed by hand; "
             "C05.2 includes: p_uthread_free_internal is reached from p_uthread_unref only, the creating function never releases the handle of a thread it has started, and the native constructor releases it only "
             "after the last pthread_create on the path failed; C05.1 includes: p_uthread_init creates the creation spinlock and the TLS slot whenever they do not exist): native create and all initialising stores under the creation spinlock, "
             "the new thread reads creator-initialised fields only after passing it; created handles start with 2 references, adopted "
             "with 1, ref_count otherwise only through atomic inc/dec_and_test, release exactly when dec_and_test is TRUE, own reference "
             "dropped by the destructor of the library TLS slot, and a function that drops the handle it read from that slot clears the slot "
             "on every path afterwards; join refuses non-joinable, waits on its handle, then reads ret_code; exit "
             "stores the code before the native exit for library threads only; the key notifier is called only by replace_local under both "
             "NULL tests before the new value is stored and is the native key's destructor; first-use key creation frees/deletes on the "
             "losing and failing paths; shutdown resets the globals whose objects it released. " + DECIDES % "C05",
        technique="spinlock typestate over the creator path, dominance rules for the proxy and join, who-touches-field rule for ref_count, guard dataflow at release and notifier calls, holder typestate in the TLS key creation"),
    "C11": dict(
        text="Rules C11.1-C11.8 on pcryptohash*.c: dispatch table (every enumerator has a case, six slots from one algorithm unit, "
             "variant-specific constructor, standard digest length fitting the state array, exact range test); dispatcher typestate "
             "(update only while open, finish only on an object seen open, the digest read only from a finished state, every exit "
             "after finish leaves closed set - exits for a NULL digest pointer excluded because every digest slot returns an embedded "
             "array -, reset reopens, bounded copy-out; every digest slot only reads its context, since the dispatcher calls it on every read); hex encoding decided on the reader with its helpers inlined (two table digits per "
             "byte at 2i and 2i+1 or through a once-per-digit cursor, hash_len iterations, zero-filled 2*hash_len+1 buffer); the psize update length never compared/accumulated through a narrowing cast without "
             "high-part accounting; block-size constants agree with the buffer's byte size and the padding constants satisfy the "
             "standard identity; reset re-initialises every field update/finish write; possibly-aliasing padding stores OR their bits "
             "in; the carry-out predicate of a multi-word addition with carry-in equals the true carry on every feasible ordering class "
             "of (sum, operands, carry-in); reset re-initialises and reopens on every path with a hash object, whatever its state; every subscript of a fixed-size array with a known largest index (loop stride "
             "taken into account) stays inside the array; in every update function the input pointer is advanced between two reads and the tail lands at offset 0 once the partial block was completed; "
             "the wrap-around of the low length word carries into the high word. " + DECIDES % "C11",
        technique="switch / if-chain / constant-table dispatch recovery, exit typestate with guard dataflow at slot calls, linear index evaluation of the encoder loop, typed-AST narrowing rule with sibling cross-check, constant-geometry agreement with record layouts, transitive field write sets, index-aliasing rule, exhaustive evaluation of comparison-only predicates over the finite set of ordering classes"),
    "C12": dict(
        text="Rules C12.1-C12.6 on ptree*.c: dispatch triples per tree type; every descent loop (lookup, 3 inserts, 3 removes) calls the "
             "comparator as (search key, node key, data) and goes left on < 0 / right on > 0; insert returns TRUE exactly when a new node "
             "with the given pair is linked in (FALSE on replace and allocation failure), remove TRUE exactly when one node is unlinked and "
             "freed; nnodes changes only on those TRUE results and once per node in clear; the Morris traversal counts its thread links, "
             "returns early only with the counter zero, in a counter at least as wide as nnodes, and stops calling back after a stop request; "
             "C12.6 link surgery: a child link replaced under the test parent->F == node is parent->F on the true edge and the other link on the false edge; "
             "C12.1 also: keys, values and comparator data are opaque - never tested, compared or dereferenced in the public operations and the variants. " + DECIDES % "C12",
        technique="term-valued dataflow with loop widening over the variant functions, guard dataflow for orientation/count/traversal discipline, switch-table recovery"),
    "C13": dict(
        text="Rules C13.1-C13.5 on ptree-rb.c / ptree-avl.c (C13.5: no path reads a node - its colour or factor for a repaint or retrace decision, its links - after handing it to p_free). C13.2/C13.3 (shape analysis by materialisation, all local shapes, symbolic heights): "
             "from the loop invariant every path of the red-black insert/remove fix-ups and of the AVL insert/remove retracing (rotations analysed "
             "inline) either returns with the invariant restored - equal black heights and no red-red edge, resp. every stored balance factor equal "
             "to the height difference with |difference| <= 1 and the old subtree height - with in-order sequence, parent links and *root intact, "
             "or continues one level up with the loop invariant re-established (induction). C13.1/C13.4 (term flow): every insertion/removal path "
             "reaches the fix-up with its entry invariant (new node RED / factor 0, NULL children, parent set, linked; retrace from the leaf before "
             "unlinking or from the relinked child; fix-up before unlink on the childless-black path; an only child replacing a black node is "
             "painted black; outside the retracing helpers a balance factor is only ever set to 0, and only on a node allocated in the same call). The numeric comparison bounds follow from the invariants by the textbook argument and are not re-derived. " + DECIDES % "C13",
        technique="parametric shape analysis (materialisation/focus over a local heap with summary subtrees carrying symbolic black heights / heights, induction over the fix-up loop, helpers inlined) plus must-pass-through rules on term-flow return states"),
    "C14": dict(
        text="Rules C14.1-C14.5 on ptree*.c: on every successful removal path (all three variants) the key and value of the node whose key "
             "compared equal go to their notifiers exactly once, nothing still stored in a surviving node is destroyed, the removed pair does "
             "not survive in another node, one node is freed; the replace path hands the old pair to the notifiers before storing the new one; "
             "clear destroys every released node's pair first and free goes through clear; every notifier call is NULL-guarded; the library "
             "never frees or writes through user keys/values; no path reads or re-releases a node after handing it to p_free (the notifiers get what the "
             "node held); in the remove functions nothing touches a link, colour or factor and no balancing runs after the first notifier call; a call through the free_node slot counts as the release of the node. " + DECIDES % "C14",
        technique="abstract interpretation of node/pair identity (term flow with widened descent and predecessor loops) with exit obligations on notifier arguments"),
    "C15": dict(
        text="Rules C15.1-C15.6 on phashtable.c / plist.c: no key-dependent arithmetic in a signed type in the bucket computation; every bucket "
             "subscript of the all-bucket walkers is a counter bounded by table->size, size is stored once and equals the (symbolically evaluated) "
             "zero-filled slot count; C15.6 (chain shape analysis, symbolic table, chains of every length, unique keys): insert / lookup / remove "
             "subscript the table only with the key's hash modulo table->size, insert overwrites a present key in place and otherwise links exactly "
             "one new node after comparing every node, lookup returns the stored value or (ppointer)-1 only after comparing every node (a NULL key and an all-ones value are ordinary inputs, explored both ways; keys are never compared through a narrower integer), remove unlinks and releases exactly the key's "
             "node; listing functions walk every chain to its end; lookup_by_value is decided by the caller's predicate alone when one is given; no use after release; C15.5 (shape analysis with summarised list segments and symbolic "
             "sequence contents, analysed to a fixpoint, lists of every length): p_list_append / prepend / remove / reverse / last / foreach / free return or "
             "leave exactly the sequence the corresponding sequence operation gives, never follow a released item's link, never dereference NULL; the length "
             "counter is 1 + one per link followed. " + DECIDES % "C15",
        technique="typed-AST signedness rule, index provenance, loop-exit analysis of chain walks, path-sensitive use-after-release typestate, list-segment shape analysis with sequence-content tracking (fold/materialise to a fixpoint)"),
    "C16": dict(
        text="Rules C16.1-C16.8 on pinifile.c: every unbounded %[ conversion and strcpy in the parse loop fits its destination "
             "array given the fgets bound; parameter objects come only from those arrays, which bounds the list getter's buffer; sections "
             "are linked only with a non-empty key list and parameters only into an open section; getters return the default for a missing "
             "key and release the looked-up copy; each line string is freed and the file closed on every path; typed getters use the "
             "documented conversion primitive and radix and return the converted number through no narrower type; the four line patterns, their order and conversion counts are the documented grammar "
             "table and the header pattern is applied only to lines that start with '[' and end with ']'; section names, keys and values reach "
             "their constructors only as trimmed text and the empty-quotes normalisation is made on the trimmed value; a line byte compared with a constant is read through a type that can hold the constant, and the byte-order-mark tests skip exactly the length of the "
             "standard mark the line starts with (C16.8, byte-test form only); a hand-built string is terminated before it is read as one and no clamp cuts below the longest line fgets delivers (C16.1). What the scanf patterns accept "
             "beyond that table agreement is not decided. The trim helper sizes its result from two cursors that every path to the allocation has ordered (C16.7); the boolean getter returns 0/1 or the default only (C16.5). " + DECIDES % "C16",
        technique="format-string conversion bounds against array types, single-producer who-calls rule, restricted guard dataflow typestate for line/file/section, format-table agreement with edge-cut dominance of the header guards, raw/trimmed typestate of the text buffers"),
    "C17": dict(
        text="Rules C17.1-C17.5 on psocketaddress.c: every access through the native/destination buffer lies below the established length "
             "(offsets and sizes from the record layouts); to_native and new_from_native copy the same (object field, native byte range) "
             "pairs per family, port byte-swapped both ways and nothing else, family constants agree; get_native_size and to_native's guard "
             "use the same structure sizes, and new_from_native treats its length as a lower bound only (a longer buffer, as the kernel reports for sockaddr_storage, is accepted); text path restricted to numeric hosts with the addrinfo result freed on every path, and present "
             "(after preprocessing) whenever the unit's compile flags provide getaddrinfo and a scope id; is_any compares with 0.0.0.0 and is_loopback tests 127.0.0.0/8 on a byte-swapped copy carrying all 32 bits (C17.5); inet_ntop gets room for the longest text of each family; no string is turned away before the platform parsers were asked. " + DECIDES % "C17",
        technique="guard dataflow lower bounds against record layouts, sibling field-pair agreement, constant-table agreement"),
    "C18": dict(
        text="Rules C18.1-C18.6 over every function of the 37 analysed units that acquires a resource (every allocation site is treated "
             "as able to fail): no acquisition result is dereferenced or passed to a dereferencing libc function before its NULL test; "
             "on every failure exit everything acquired earlier in the call is released, returned or owned by an object that is released "
             "through its typed free (wrapper releasers, success-ownership of constructors and constant-argument reachability are "
             "summarised from the code); nothing is used, re-released or returned after its release; fresh objects handed to the silent "
             "list functions are reported (7 known findings); no raw allocator call outside pmem.c; a destructor handed a local, partially "
             "built object dereferences no member that is still NULL there (failed allocation or never stored since the zero fill) without a "
             "test; a member holding the untested result of a fallible call reaches a dereferencing libc routine only behind a NULL test. The frame condition on pre-existing "
             "objects is not decided. " + DECIDES % "C18",
        technique="path-sensitive resource typestate with inferred acquire/release/ownership summaries; use-after-release typestate; who-may-call rule with positive control; bottom-up NULL-need summaries of destructors matched against per-path member facts at unwinding calls"),
    "C20": dict(
        text="Rules C20.1-C20.5: ownership table inferred from the constructors (fields filled from acquiring calls, list heads kept in objects) checked against each "
             "object's free function on every path where the field may be valid (fields made through the object's own function slots included; objects linked into owned lists are released through their destructor); every free function hands its non-NULL argument to p_free on every path; every descriptor/handle obtained in a function is closed once, owned by the returned object or "
             "returned on every path, and never closed twice - a descriptor a constructor was given as a parameter is not closed by the constructor's failure exits when its callers close it too; munmap gets the mapped length; allocations held only in locals are released "
             "on every path, success and failure exits alike; IPC names are unlinked by the free path exactly when owned and the ownership flag is "
             "set before any later step of the creation can fail. /proc-level accounting over call sequences is not decided. " + DECIDES % "C20",
        technique="inferred ownership table vs. release sets of free functions; path-sensitive resource typestate for handles and temporaries; guard dataflow for the ownership flag"),
}

NOT_YET = "check not yet armed (framework under construction); see DESIGN.md section 4 for the planned structural clauses"


def main():
    props = [json.loads(l) for l in open(os.path.join(HERE, "properties.jsonl"))]
    checks = []
    na = []
    for p in props:
        pid = p["id"]
        if pid in CLAIMED:
            c = CLAIMED[pid]
            checks.append({
                "property_id": pid,
                "quick_cmd": "./check %s --tier quick" % pid,
                "thorough_cmd": "./check %s --tier thorough" % pid,
                "evidence_file": "/verif/evidence/%s.json" % pid,
                "replay_cmd_template": "./check %s --replay {path}" % pid,
                "engine": "pfx+plint",
                "level_claimed": {"category": "other", "text": c["text"], "design_ref": "DESIGN.md section 4, " + pid},
                "level_note": TRUST,
                "technique": c["technique"],
            })
        else:
            na.append({"property_id": pid, "reason": NA.get(pid, NOT_YET)})
    m = {
        "version": 1,
        "setup_cmd": "make -C /verif/engine",
        "hooks": {"guard": "PLIBSYS_VERIF",
                  "enable": "none needed: static analysis, nothing in /repo is instrumented or executed",
                  "baseline_off_cmd": "cmake -S /repo -B /repo/_build -G Ninja && cmake --build /repo/_build -j16 && ctest --test-dir /repo/_build -j8 --timeout 900",
                  "source_commits": [], "add_only": True},
        "engines": [{"name": "pfx+plint", "path": "/verif/engine",
                     "serves_properties": sorted(CLAIMED),
                     "kind_free_text": "custom static analyser: C++ libTooling extractor (clang 14 AST + CFG -> typed facts) and "
                                       "Python rule modules (dominators, path-sensitive typestate/guard dataflow, wiring specs)"}],
        "checks": checks,
        "notes": "Static analysis only; see DESIGN.md. ./check exits 2 (ANALYSIS-BROKEN, no VIOLATION line) when the analysis itself cannot be trusted.",
        "not_applicable": na,
    }
    with open(os.path.join(HERE, "MANIFEST.json"), "w") as f:
        json.dump(m, f, indent=1)
    print("claimed:", sorted(CLAIMED), "not applicable:", [x["property_id"] for x in na])


NA = {}

if __name__ == "__main__":
    main()
