#!/bin/bash
# confirm_seed.sh <seed-dir> <name>
# Confirms a seeded change independently, in a scratch worktree of /repo outside /repo and /verif:
#   1. the demonstration passes on the unchanged tree,
#   2. the demonstration fails with the change applied,
#   3. the library builds and the full existing test suite passes with the change.
# Writes <seed-dir>/confirm.log and prints a one-line verdict. The worktree is removed afterwards.
set -u
SEED="$1"; NAME="$2"
WT=/tmp/confirm/$NAME
LOG="$SEED/confirm.log"
mkdir -p /tmp/confirm
: > "$LOG"
git -C /repo worktree remove --force "$WT" >/dev/null 2>&1
rm -rf "$WT"
git -C /repo worktree add -q --detach "$WT" HEAD >>"$LOG" 2>&1 || { echo "$NAME: worktree failed"; exit 2; }
cleanup() { git -C /repo worktree remove --force "$WT" >/dev/null 2>&1; rm -rf "$WT"; }
trap cleanup EXIT
echo "== demo on unchanged tree" >>"$LOG"
( cd "$SEED/demo" && timeout 1800 bash ./run.sh "$WT" ) >>"$LOG" 2>&1; R0=$?
echo "exit=$R0" >>"$LOG"
echo "== apply patch" >>"$LOG"
git -C "$WT" apply "$SEED/patch.diff" >>"$LOG" 2>&1 || { echo "$NAME: patch does not apply"; exit 2; }
echo "== demo on patched tree" >>"$LOG"
( cd "$SEED/demo" && timeout 1800 bash ./run.sh "$WT" ) >>"$LOG" 2>&1; R1=$?
echo "exit=$R1" >>"$LOG"
echo "== build + full test suite on patched tree" >>"$LOG"
( cd "$WT" && cmake -S . -B _build -G Ninja -DCMAKE_BUILD_TYPE=Debug >/dev/null 2>&1 && cmake --build _build -j8 >/dev/null 2>&1 ) ; RB=$?
echo "build exit=$RB" >>"$LOG"
RT=99
if [ $RB -eq 0 ]; then
  ctest --test-dir "$WT/_build" -j8 --timeout 900 >"$SEED/ctest.log" 2>&1; RT=$?
  tail -5 "$SEED/ctest.log" >>"$LOG"
fi
echo "ctest exit=$RT" >>"$LOG"
V="REJECTED"
if [ $R0 -eq 0 ] && [ $R1 -ne 0 ] && [ $RB -eq 0 ] && [ $RT -eq 0 ]; then V="CONFIRMED"; fi
echo "$NAME: $V (demo original exit=$R0, demo patched exit=$R1, build=$RB, ctest=$RT)" | tee -a "$LOG"
