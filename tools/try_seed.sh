#!/bin/bash
# try_seed.sh <seed-name> [props...]  — apply a kept seeded change to /repo, run the checks (no evidence written), undo.
S=/verif/seeded/$1; shift
PROPS="$@"; [ -z "$PROPS" ] && PROPS=all
git -C /repo apply "$S/patch.diff" || exit 2
for p in $PROPS; do ( cd /verif && PLINT_NO_EVIDENCE=1 ./check $p ); echo "rc=$? ($p)"; done
git -C /repo checkout -- .
