#!/usr/bin/env python3
"""neutral_matrix.py <Pxx> [patch...] - applies each behaviour-preserving refactoring kept under /verif/neutral/<Pxx>/ to /repo
(one at a time, undone straight afterwards), runs all twenty checks without writing evidence and prints every alarm.
Any alarm here is a false alarm of the checker (or a refactoring that is not neutral after all - triage by reading)."""
import os
import re
import subprocess
import sys
from concurrent.futures import ThreadPoolExecutor

VERIF = os.path.dirname(os.path.dirname(os.path.abspath(__file__)))


def sh(cmd):
    return subprocess.run(cmd, shell=True, stdout=subprocess.PIPE, stderr=subprocess.STDOUT, universal_newlines=True)


def main():
    P = sys.argv[1]
    d = os.path.join(VERIF, "neutral", P)
    only = sys.argv[2:]
    props = ["C%02d" % i for i in range(1, 21)]
    bad = 0
    for f in sorted(os.listdir(d)):
        if not f.endswith(".diff") or (only and f not in only):
            continue
        r = sh("git -C /repo apply %s" % os.path.join(d, f))
        if r.returncode != 0:
            print("%s/%s: does not apply: %s" % (P, f, r.stdout.strip()[:200]))
            continue
        try:
            sh("cd %s/engine && python3 -c 'from plint import units; units.load_units()'" % VERIF)
            with ThreadPoolExecutor(max_workers=10) as ex:
                outs = list(ex.map(lambda p: sh("cd %s && PLINT_NO_EVIDENCE=1 ./check %s" % (VERIF, p)), props))
        finally:
            sh("git -C /repo checkout -- .")
        alarms = []
        for p, o in zip(props, outs):
            if o.returncode != 0:
                lines = [l for l in o.stdout.splitlines() if l.startswith("  rule ") or "ANALYSIS-BROKEN" in l]
                alarms.append((p, o.returncode, lines[:3]))
        if alarms:
            bad += 1
            print("%s/%s: ALARM" % (P, f))
            for (p, rc, lines) in alarms:
                print("   %s rc=%d" % (p, rc))
                for l in lines:
                    print("      " + l.strip()[:400])
        else:
            print("%s/%s: silent" % (P, f))
    return 1 if bad else 0


if __name__ == "__main__":
    sys.exit(main())
