#!/usr/bin/env python3
"""Mutation campaign: how many generic source mutants of the anchored code do the static checks report, and which
of the unreported ones also survive the repository's own tests (the class this work is about)?

  mutate.py <module> [--max N] [--workers W]

For every mutant (one small textual edit of one line inside the module's files):
  A. the module's checks (+ the whole-program C18 and C20) are run on a scratch copy of /repo/src with the edit applied
     (outside /repo and /verif, removed at once) - exactly what the thorough tier's self-test does;
  B. if no check reports it, the library is rebuilt with the edit in a scratch worktree under /tmp and the module's tests
     are run; a mutant that passes them too is a SURVIVOR and is written to mutation/<module>.survivors.txt for triage
     (equivalent mutant, or a hole in the checks).
Nothing here is a registered check; results are recorded in DESIGN.md section 11.
"""
import json
import os
import re
import shutil
import subprocess
import sys
import tempfile
import threading
from concurrent.futures import ThreadPoolExecutor

VERIF = os.path.dirname(os.path.dirname(os.path.abspath(__file__)))
sys.path.insert(0, os.path.join(VERIF, "engine"))

MODULES = {
    "ptree": dict(files=["src/ptree.c", "src/ptree-bst.c", "src/ptree-rb.c", "src/ptree-avl.c"], tests=["ptree_test"], props=["C12", "C13", "C14"]),
    "plist": dict(files=["src/plist.c", "src/phashtable.c"], tests=["plist_test", "phashtable_test"], props=["C15"]),
    "hash": dict(files=["src/pcryptohash.c", "src/pcryptohash-md5.c", "src/pcryptohash-sha1.c", "src/pcryptohash-sha2-256.c", "src/pcryptohash-sha2-512.c",
                        "src/pcryptohash-sha3.c", "src/pcryptohash-gost3411.c"], tests=["pcryptohash_test"], props=["C11"]),
    "ini": dict(files=["src/pinifile.c"], tests=["pinifile_test"], props=["C16"]),
    "sockaddr": dict(files=["src/psocketaddress.c"], tests=["psocketaddress_test"], props=["C17"]),
    "locks": dict(files=["src/pmutex-posix.c", "src/pspinlock-c11.c", "src/pcondvariable-posix.c", "src/prwlock-posix.c", "src/patomic-c11.c"],
                  tests=["pmutex_test", "pspinlock_test", "pcondvariable_test", "prwlock_test", "patomic_test"], props=["C01", "C02", "C03", "C04"]),
    "uthread": dict(files=["src/puthread.c", "src/puthread-posix.c"], tests=["puthread_test"], props=["C05", "C19"]),
    "sem": dict(files=["src/psemaphore-posix.c"], tests=["psemaphore_test"], props=["C06", "C19"], serial=True),
    "shm": dict(files=["src/pshm-posix.c", "src/pshmbuffer.c"], tests=["pshm_test", "pshmbuffer_test"], props=["C07", "C08"], serial=True),
    "socket": dict(files=["src/psocket.c"], tests=["psocket_test"], props=["C09", "C10", "C19"], serial=True),
}

DECL = re.compile(r"^\s+(const\s+|static\s+|volatile\s+|unsigned\s+|struct\s+)*(p\w+|P\w+|int|char|long|short|size_t|ssize_t|socklen_t|void|fd_set|sem_t|pthread_\w+|mode_t|DIR|FILE)\b[\s\*]+\w+(\s*\[.*\])?(\s*=.*)?;\s*$")


def balanced_if(line):
    m = re.match(r"^(\s*(?:\}\s*else\s+)?if\s*)\((.*)\)(\s*\{?\s*)$", line)
    if not m:
        return None
    c = m.group(2)
    depth = 0
    for ch in c:
        if ch == "(":
            depth += 1
        elif ch == ")":
            depth -= 1
            if depth < 0:
                return None
    return m if depth == 0 else None


def gen_mutants(relfile, text):
    lines = text.split("\n")
    out = []
    depth = 0
    in_comment = False
    for i, ln in enumerate(lines):
        s = ln.strip()
        if in_comment:
            if "*/" in s:
                in_comment = False
            continue
        if s.startswith("/*") and "*/" not in s:
            in_comment = True
            continue
        d0 = depth
        depth += ln.count("{") - ln.count("}")
        if d0 < 1 or s.startswith("#") or s.startswith("/*") or s.startswith("*") or s.startswith("//") or not s:
            continue
        if "P_ERROR" in ln or "P_WARNING" in ln or "P_DEBUG" in ln or "p_error_set_error_p" in ln:
            continue

        def add(kind, new):
            if new != ln:
                out.append(dict(file=relfile, line=i + 1, kind=kind, old=ln, new=new))
        # statement deletion
        if s.endswith(";") and not DECL.match(ln) and not s.startswith("return") and not s.startswith("case") and not s.startswith("default") \
                and not s.startswith("for ") and "goto" not in s:
            prev = lines[i - 1].strip() if i else ""
            if prev.startswith("if") or prev.startswith("else") or prev.startswith("while") or prev.startswith("for"):
                add("del-stmt", re.sub(r"\S.*$", ";", ln))
            else:
                add("del-stmt", "")
        m = balanced_if(ln)
        if m:
            add("neg-cond", "%s(!(%s))%s" % (m.group(1), m.group(2), m.group(3)))
        for a, b in (("==", "!="), ("!=", "=="), ("<=", "<"), (">=", ">"), ("&&", "||"), ("||", "&&")):
            if a in ln:
                add("op %s->%s" % (a, b), ln.replace(a, b, 1))
        if re.search(r"[^<>=!\-]<[^<=]", ln) and "#include" not in ln:
            add("op <-><=", re.sub(r"([^<>=!\-])<([^<=])", r"\1<=\2", ln, 1))
        if re.search(r"[^<>=!\-]>[^>=]", ln) and "->" not in ln:
            add("op >->>=", re.sub(r"([^<>=!\-])>([^>=])", r"\1>=\2", ln, 1))
        for a, b in (("TRUE", "FALSE"), ("FALSE", "TRUE")):
            if re.search(r"\b%s\b" % a, ln):
                add("const %s->%s" % (a, b), re.sub(r"\b%s\b" % a, b, ln, 1))
        for a, b in (("left", "right"), ("right", "left"), ("key", "value"), ("read_pos", "write_pos"), ("next", "prev")):
            if re.search(r"(->|\.)%s\b" % a, ln):
                add("field %s->%s" % (a, b), re.sub(r"(->|\.)%s\b" % a, r"\1" + b, ln, 1))
        if re.search(r"[\w\)\]] \+ 1\b", ln):
            add("drop +1", re.sub(r" \+ 1\b", "", ln, 1))
        if re.search(r"[\w\)\]] - 1\b", ln):
            add("drop -1", re.sub(r" - 1\b", "", ln, 1))
        if re.search(r"\b(break|continue);", ln):
            add("swap break/continue", re.sub(r"\bbreak;", "continue;", ln, 1) if "break;" in ln else re.sub(r"\bcontinue;", "break;", ln, 1))
    return out


def apply_mutant(root, m):
    p = os.path.join(root, m["file"])
    lines = open(p, encoding="utf-8", errors="surrogateescape").read().split("\n")
    if lines[m["line"] - 1] != m["old"]:
        return False
    lines[m["line"] - 1] = m["new"]
    with open(p, "w", encoding="utf-8", errors="surrogateescape") as f:
        f.write("\n".join(lines))
    return True


def check_mutant(args):
    props, m = args
    code = r'''
import sys, os, json, shutil, tempfile, importlib
sys.path.insert(0, %r)
from plint import units
from plint.ir import Program
from plint.report import Report
from plint.units import AnalysisBroken
m = json.loads(sys.argv[1]); props = sys.argv[2].split(",")
tmp = tempfile.mkdtemp(prefix="plint-mu-")
out = {}
try:
    shutil.copytree(os.path.join(units.REPO, "src"), os.path.join(tmp, "src"))
    p = os.path.join(tmp, m["file"]); L = open(p, encoding="utf-8", errors="surrogateescape").read().split("\n")
    L[m["line"]-1] = m["new"]; open(p, "w", encoding="utf-8", errors="surrogateescape").write("\n".join(L))
    try:
        facts, allu = units.load_units(repo=tmp)
        prog = Program(facts, allu)
    except AnalysisBroken as e:
        print(json.dumps({"_": "nocompile"})); sys.exit(0)
    for pr in props:
        mod = importlib.import_module("rules." + pr)
        rep = Report(pr, "quick", "scratch")
        try:
            mod.run(prog, rep)
            rc, viol, known = rep.finish(write_evidence=False, quiet=True)
            if viol:
                out[pr] = sorted(set(o.rule for o in viol))
            elif rc == 2:
                out[pr] = ["BROKEN"]
        except AnalysisBroken as e:
            out[pr] = ["BROKEN"]
        except Exception as e:
            out[pr] = ["BROKEN"]
finally:
    shutil.rmtree(tmp, ignore_errors=True)
print(json.dumps(out))
''' % os.path.join(VERIF, "engine")
    r = subprocess.run([sys.executable, "-c", code, json.dumps(m), ",".join(props)], stdout=subprocess.PIPE, stderr=subprocess.PIPE, universal_newlines=True)
    try:
        return json.loads(r.stdout.strip().splitlines()[-1])
    except Exception:
        return {"_": "error", "stderr": r.stderr[-300:]}


class Worker:
    def __init__(self, idx):
        self.dir = "/tmp/mutate/w%d" % idx
        self.ready = False

    def setup(self):
        if self.ready:
            return
        subprocess.run("git -C /repo worktree remove --force %s >/dev/null 2>&1; rm -rf %s; git -C /repo worktree add -q --detach %s HEAD" % (self.dir, self.dir, self.dir), shell=True)
        subprocess.run("cd %s && cmake -S . -B _build -G Ninja -DCMAKE_BUILD_TYPE=Debug >/dev/null 2>&1 && cmake --build _build -j4 >/dev/null 2>&1" % self.dir, shell=True)
        self.ready = True

    def test(self, m, tests, lock):
        self.setup()
        subprocess.run("git -C %s checkout -- ." % self.dir, shell=True)
        if not apply_mutant(self.dir, m):
            return "apply-failed"
        try:
            b = subprocess.run("cmake --build %s/_build -j4" % self.dir, shell=True, stdout=subprocess.PIPE, stderr=subprocess.STDOUT, universal_newlines=True)
            if b.returncode != 0:
                return "nocompile"
            if "warning:" in b.stdout:
                warn = True
            rx = "^(" + "|".join(tests) + ")$"
            if lock:
                lock.acquire()
            try:
                t = subprocess.run("ctest --test-dir %s/_build --timeout 120 -R '%s'" % (self.dir, rx), shell=True, stdout=subprocess.PIPE, stderr=subprocess.STDOUT, universal_newlines=True)
            finally:
                if lock:
                    lock.release()
            return "tests-pass" if t.returncode == 0 else "killed"
        finally:
            subprocess.run("git -C %s checkout -- ." % self.dir, shell=True)

    def cleanup(self):
        subprocess.run("git -C /repo worktree remove --force %s >/dev/null 2>&1; rm -rf %s" % (self.dir, self.dir), shell=True)


def main():
    name = sys.argv[1]
    mx = int(sys.argv[sys.argv.index("--max") + 1]) if "--max" in sys.argv else 10 ** 9
    nw = int(sys.argv[sys.argv.index("--workers") + 1]) if "--workers" in sys.argv else 6
    spec = MODULES[name]
    props = spec["props"] + ["C18", "C20"]
    muts = []
    for f in spec["files"]:
        muts.extend(gen_mutants(f, open(os.path.join("/repo", f), encoding="utf-8", errors="surrogateescape").read()))
    off = float(sys.argv[sys.argv.index("--offset") + 1]) if "--offset" in sys.argv else 0.0      # a second, disjoint sample: --offset 0.5
    tag = sys.argv[sys.argv.index("--tag") + 1] if "--tag" in sys.argv else ""
    if len(muts) > mx:
        step = len(muts) / float(mx)
        muts = [muts[min(len(muts) - 1, int((k + off) * step))] for k in range(mx)]
    print("%s: %d mutants" % (name, len(muts)), flush=True)
    outdir = os.path.join(VERIF, "mutation")
    os.makedirs(outdir, exist_ok=True)
    with ThreadPoolExecutor(max_workers=12) as ex:
        res = list(ex.map(check_mutant, [(props, m) for m in muts]))
    todo = []
    for m, r in zip(muts, res):
        m["checks"] = r
        if r.get("_") in ("nocompile", "error"):
            m["verdict"] = r["_"]
        elif any(v != ["BROKEN"] for v in r.values()):
            m["verdict"] = "reported"
        elif r:
            m["verdict"] = "analysis-broken"
            todo.append(m)
        else:
            todo.append(m)
    print("%s: %d reported by a check, %d not compilable, %d to be run against the tests" % (
        name, sum(1 for m in muts if m.get("verdict") == "reported"), sum(1 for m in muts if m.get("verdict") == "nocompile"), len(todo)), flush=True)
    workers = [Worker(i) for i in range(nw)]
    lock = threading.Lock() if spec.get("serial") else None
    free = list(workers)
    fl = threading.Lock()

    def run_one(m):
        with fl:
            w = free.pop()
        try:
            t = w.test(m, spec["tests"], lock)
        finally:
            with fl:
                free.append(w)
        base = m.get("verdict")
        m["tests"] = t
        if t == "tests-pass":
            m["verdict"] = "SURVIVOR" if base is None else "SURVIVOR(analysis-broken)"
        elif t == "killed":
            m["verdict"] = "killed-by-tests" if base is None else "killed-by-tests(analysis-broken)"
        else:
            m["verdict"] = t
        return m
    with ThreadPoolExecutor(max_workers=nw) as ex:
        list(ex.map(run_one, todo))
    for w in workers:
        w.cleanup()
    name = name + tag
    with open(os.path.join(outdir, name + ".jsonl"), "w") as f:
        for m in muts:
            f.write(json.dumps(m) + "\n")
    counts = {}
    for m in muts:
        counts[m["verdict"]] = counts.get(m["verdict"], 0) + 1
    print("%s: %s" % (name, json.dumps(counts, sort_keys=True)))
    with open(os.path.join(outdir, name + ".survivors.txt"), "w") as f:
        for m in muts:
            if m["verdict"].startswith("SURVIVOR"):
                f.write("%s:%d [%s] %s\n    - %s\n    + %s\n" % (m["file"], m["line"], m["kind"], m["verdict"], m["old"].strip(), m["new"].strip()))
    with open(os.path.join(outdir, name + ".summary.json"), "w") as f:
        json.dump({"module": name, "mutants": len(muts), "verdicts": counts}, f, indent=1)


if __name__ == "__main__":
    main()
