#!/bin/bash
# try_scratch.sh <patch.diff> <props...> - run rule modules on a scratch copy of /repo HEAD with the patch applied (does not touch /repo)
P=$1; shift
D=$(mktemp -d /tmp/scratch_try.XXXXXX)
git -C /repo archive HEAD src | tar -x -C $D
( cd $D && patch -p1 -s < $P ) || { echo "patch failed"; rm -rf $D; exit 2; }
for p in "$@"; do python3 /verif/tools/dev_check.py $p $D 2>&1 | grep -v "^WARN\|^KNOWN\|^INFO" | tail -4; done
rm -rf $D
