#!/usr/bin/env python3
"""mkseedtable.py - regenerate the table of DESIGN.md section 10 from seeded/*/meta.json (written by scratch_matrix.py --write-meta)."""
import json
import os
import re
import sys

VERIF = os.path.dirname(os.path.dirname(os.path.abspath(__file__)))


def main():
    rows = []
    n = tgt = rep = 0
    for name in sorted(os.listdir(os.path.join(VERIF, "seeded"))):
        mp = os.path.join(VERIF, "seeded", name, "meta.json")
        if not os.path.exists(mp):
            continue
        m = json.load(open(mp))
        n += 1
        det = m.get("detected_by") or {}
        rep += bool(det)
        tgt += bool(m.get("detected_by_target_property_check"))
        by = "; ".join("%s: %s" % (p, ", ".join(r)) for p, r in sorted(det.items())) or "**not reported**"
        rows.append("| `%s` | %s | %s |" % (name, m.get("breaks_property"), by))
    table = "| seeded change | property | reported by |\n|---|---|---|\n" + "\n".join(rows) + "\n"
    p = os.path.join(VERIF, "DESIGN.md")
    s = open(p).read()
    pat = re.compile(r"\| seeded change \| property \| reported by \|\n\|---\|---\|---\|\n(?:\|.*\|\n)+")
    if len(pat.findall(s)) != 1:
        sys.exit("expected exactly one seed table in DESIGN.md")
    s = pat.sub(lambda m_: table, s)
    open(p, "w").write(s)
    print("%d seeds, %d reported, %d by the target property's check" % (n, rep, tgt))


if __name__ == "__main__":
    main()
