#!/bin/bash
# take_seed.sh <tmp-dir-name under /tmp/seed> <seed-name> [props...] — store a seeder's deliverables, drop its worktree, try the checks on it
T=/tmp/seed/$1; N=$2; shift 2
mkdir -p /verif/seeded/$N && cp -r $T/out/* /verif/seeded/$N/ && git -C /repo worktree remove --force $T/wt
git -C /repo apply /verif/seeded/$N/patch.diff || exit 2
( cd /verif/engine && python3 -c 'from plint import units; units.load_units()' >/dev/null 2>&1 )
for p in "$@"; do ( cd /verif && PLINT_NO_EVIDENCE=1 ./check $p 2>&1 | grep -v "^WARN\|^KNOWN\|^INFO" | tail -4 ); done
git -C /repo checkout -- .
