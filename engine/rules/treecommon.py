"""Shared term-flow analysis of the tree variant functions (used by C12, C13, C14).

The descent and predecessor loops are widened (each loop-assigned pointer
becomes an opaque per-loop symbol), so the analysis speaks about three kinds
of nodes: FOUND (the node whose key compared equal; it is the node expression
of the last comparator call on the path), the symbols produced by later loops
(the in-order predecessor), and freshly allocated nodes.  Soundness relies on
the tree-shape invariant that the predecessor reached from FOUND's left child
is a node different from FOUND.
"""
from plint import symx
from plint.symx import C, norm, SymFlow, term_mentions, site_of
from plint.ir import strip_casts, line, root_var

VARIANTS = (("ptree-bst.c", "bst"), ("ptree-rb.c", "rb"), ("ptree-avl.c", "avl"))
ROLE_PARAMS = {"compare": 1, "data": 2, "kd": 3, "vd": 4, "key": 5, "value": 6}


def fnptr_name(node):
    """Name of the variable / field an indirect call goes through."""
    fp = strip_casts(node.get("fnptr"))
    if fp is None:
        return None
    if fp["k"] == "ref":
        return fp["name"]
    if fp["k"] == "member":
        return fp["field"]
    return None


def fixup_functions(u, fld=None):
    """The rebalancing entry points of a variant unit: static functions with a loop that (transitively) rewrite the balance
    attribute (colour / balance factor).  A helper that merely repaints one node or relinks a child has no loop."""
    fw = field_writers(u)
    out = set()
    for f in u.functions.values():
        if not f.static:
            continue
        w = fw.get(f.name, ())
        if (fld in w if fld else ("color" in w or "balance_factor" in w)) and f.loops():
            out.add(f.name)
    return out


def balancing_closure(u):
    """fix-ups plus everything they call (rotations, colour tests, sibling / uncle getters)"""
    from plint.ir import walk
    clo = set(fixup_functions(u))
    work = list(clo)
    while work:
        f = u.functions[work.pop()]
        for b, i, s_ in f.stmts():
            for n in walk(s_, elsewhere=True):
                if n["k"] == "call" and n.get("callee") in u.functions and n["callee"] not in clo:
                    clo.add(n["callee"])
                    work.append(n["callee"])
    return clo


def tree_view(fn):
    """The variant function with those static helpers inlined that take part in the map operation itself (they call the
    comparator or a notifier, allocate or free); balancing helpers, rotations and colour tests stay calls."""
    from plint.ir import walk
    fn = fn.raw
    u = fn.unit
    # the fix-ups and what they call (rotations, colour tests) stay calls; every other static helper is inlined
    keep = balancing_closure(u)
    only = set(n for n, f in u.functions.items() if f.static and n not in keep and n != fn.name)
    return fn.inlined(only=only or ("<no helper>",))      # (always the normal form: local records scalarised even with nothing to inline)


class TreeRun:
    def __init__(self, fn, kind, roles=None, alloc_names=("p_malloc0", "p_malloc")):
        """kind: insert|remove|clear ; roles: names of the comparator / notifier callables in this function."""
        fn = tree_view(fn)
        self.fn = fn
        self.kind = kind
        self.roles = roles or {}
        self.events = []      # global list of (kind, payload..., line)
        self.rets = []        # (state, stmt, cur)
        self.problems = []
        self.calls_seen = set()
        self.alloc_names = alloc_names
        self.local_callable = {}      # role field -> local variable the callable is read into

        def on_call(name, args, node, st, sx):
            ln = line(node)
            if name is None:
                via = fnptr_name(node)
                role = self.roles.get(via)
                if role is None:
                    # a local holding the callable (`kd = tree->key_destroy_func;`, also after inlining renamed it)
                    fp = strip_casts(node.get("fnptr"))
                    rs = self.fn.resolve(fp) if fp is not None and fp["k"] == "ref" else None
                    if rs is not None and rs["k"] == "member" and rs["field"] in self.roles:
                        role = self.roles[rs["field"]]
                        self.local_callable[rs["field"]] = via
                if role == "compare":
                    # node expression of the comparison: second argument is load of fld(X, key)
                    k = norm(args[1])
                    x = None
                    if k[0] == "m0" and k[1][0] == "fld" and k[1][2] == "key":
                        x = k[1][1]
                    elif k[0] != "m0":
                        # the key was already overwritten on this path? use as is
                        x = None
                    st.tags["found"] = x
                    st.tags["cmp_args"] = (norm(args[0]), k, norm(args[2]) if len(args) > 2 else None)
                    t = ("call", "compare", site_of(node), False)
                    st.forget(lambda z: term_mentions(z, t))
                    return [(t, st)]
                if role in ("kd", "vd"):
                    guard = st.cond_known(("cmp", "!=", self.callable_term(st, via), C(0)))
                    lst = list(st.tags.get(role, ()))
                    lst.append((norm(args[0]), guard is True, ln))
                    st.tags[role] = tuple(lst)
                    return [(("void",), st)]
                if role == "traverse":
                    lst = list(st.tags.get("visit", ()))
                    st.tags["visit"] = tuple(lst + [(norm(args[0]), ln)])
                    t = ("call", "traverse", site_of(node), True)
                    st.forget(lambda z: term_mentions(z, t))
                    return [(t, st)]
                if role == "free_node":
                    lst = list(st.tags.get("freed", ()))
                    st.tags["freed"] = tuple(lst + [(norm(args[0]), ln)])
                    return [(("void",), st)]
                if role == "insert" or role == "remove":
                    t = ("call", role, site_of(node), True)
                    st.forget(lambda z: term_mentions(z, t))
                    st.tags["variant_call"] = (role, tuple(norm(a) for a in args))
                    return [(t, st)]
                return None
            self.calls_seen.add(name)
            if name in self.alloc_names:
                s1, s2 = st.copy(), st.copy()
                t = ("new", site_of(node))
                s1.tags["alloc"] = t
                s2.tags["alloc_failed"] = True
                return [(t, s1), (C(0), s2)]
            if name == "p_free":
                lst = list(st.tags.get("freed", ()))
                st.tags["freed"] = tuple(lst + [(norm(args[0]), ln)])
                return [(("void",), st)]
            if name in fn.unit.functions:
                # static helper of the variant (balancing, colour test): record, result opaque
                lst = list(st.tags.get("helpers", ()))
                st.tags["helpers"] = tuple(lst + [(name, tuple(norm(a) for a in args), ln, len(st.tags.get("freed", ())),
                                                   st.tags.get("nlink", 0))])
                t = ("call", name, site_of(node), True)
                st.forget(lambda z: term_mentions(z, t))
                return [(t, st)]
            if name in ("printf",):
                return [(C(0), st)]
            return None

        def on_stmt_done(st, b, i, stmt, sf_):
            n = 0
            for ev in st.events:
                if ev[0] == "write" and (ev[1][0] != "fld" or ev[1][2] in ("left", "right")):
                    st.tags["nlink"] = min(st.tags.get("nlink", 0) + 1, 16)
                if ev[0] == "write" and ev[1][0] == "fld":
                    n += 1
                    lst = list(st.tags.get("stores", ()))
                    lst.append((ev[1], st.load(ev[1]), line(ev[2]),
                                len(st.tags.get("kd", ())), len(st.tags.get("vd", ()))))
                    st.tags["stores"] = tuple(lst[-12:])
                elif ev[0] == "write":
                    n += 1
                    lst = list(st.tags.get("pstores", ()))
                    lst.append((ev[1], st.load(ev[1]), line(ev[2])))
                    st.tags["pstores"] = tuple(lst[-8:])
            if n:
                st.tags["nstores"] = min(st.tags.get("nstores", 0) + n, 32)

        def on_return(st, stmt, sf_):
            self.rets.append((st, stmt, sf_.flow.cur))

        self.sf = SymFlow(fn, on_call=on_call, on_return=on_return, on_stmt_done=on_stmt_done, widen=True)

    def callable_term(self, st, via):
        # the callable is a parameter (variants) or a field of the tree object (ptree.c)
        for p in self.fn.param_names():
            if p == via:
                return st.env.get(p, ("p", p))
        if via in st.env:
            return st.env[via]           # a local holding the notifier (`key_destroy_func = tree->key_destroy_func;`)
        if self.local_callable.get(via) in st.env:
            return st.env[self.local_callable[via]]
        p0 = self.fn.param_names()[0]
        return st.load(("fld", ("p", p0), via))

    def run(self):
        self.sf.run()
        return self


def variant_roles(fn):
    ps = fn.param_names()
    roles = {}
    if len(ps) > 1:
        roles[ps[1]] = "compare"
    if len(ps) > 4:
        roles[ps[3]] = "kd"
        roles[ps[4]] = "vd"
    return roles


def field_writers(u):
    """function name -> set of record fields it writes, transitively through calls inside the unit."""
    from plint.ir import walk
    direct, callees = {}, {}
    for f in u.functions.values():
        w, c = set(), set()
        for b, i, s_ in f.stmts():
            for n in walk(s_):
                if n["k"] == "asg" or (n["k"] == "un" and ("++" in n["op"] or "--" in n["op"])):
                    tgt = strip_casts(n["l"] if n["k"] == "asg" else n["e"])
                    if tgt is not None and tgt["k"] == "member":
                        w.add(tgt["field"])
                if n["k"] == "call" and n.get("callee") in u.functions:
                    c.add(n["callee"])
        direct[f.name], callees[f.name] = w, c
    out = {}
    for name in direct:
        seen, st, acc = set(), [name], set()
        while st:
            x = st.pop()
            if x in seen:
                continue
            seen.add(x)
            acc |= direct.get(x, set())
            st.extend(callees.get(x, ()))
        out[name] = acc
    return out
