"""C15 Hash table and list: structural clauses."""
from plint import guards, uaf
from plint.flow import Flow
from plint.ir import calls, strip_casts, cv, line, show, root_var, walk, ap
from plint.units import AnalysisBroken


def loop_exits(fn, body):
    """Edges leaving a natural loop: [(block, to, on)]."""
    out = []
    for bid in body:
        for (to, on) in fn.blocks[bid].succs:
            if to not in body:
                out.append((fn.blocks[bid], to, on))
    return out


def chain_loops(fn, node_type_rec, next_field="next"):
    """Loops that advance a cursor with `x = x->next`: [(header, body, cursor_name)]."""
    out = {}
    loops = fn.loops()
    for bid, blk in fn.blocks.items():
        for s in blk.stmts:
            for n in walk(s):
                if n["k"] == "asg" and n["op"] == "=":
                    l, r = strip_casts(n["l"]), strip_casts(n["r"])
                    if l is not None and l["k"] == "ref" and r is not None and r["k"] == "member" and r["field"] == next_field \
                            and root_var(r) == l["name"]:
                        inner = [(h, body) for (h, body) in loops if bid in body]
                        if inner:
                            h, body = min(inner, key=lambda hb: len(hb[1]))
                            out[h] = (h, body, l["name"])
    return list(out.values())


BUCKETFN = set()


def run(prog, rep):
    rep.rule("C15.1", "UB-free hashing: in the bucket function no arithmetic operator with a signed integer result has an operand derived from the key")
    rep.rule("C15.2", "index provenance: every subscript of the bucket array is a loop counter bounded by table->size or the bucket function's result for table->size; size is written once and equals the allocated bucket count")
    rep.rule("C15.3", "chain discipline: keys are compared by pointer identity; insert allocates only when the key is absent; remove unlinks exactly the matching node before freeing it and stops; lookup's not-found marker is (ppointer) -1; "
                      "the listing functions scan every chain to its end")
    rep.rule("C15.4", "no use after release in phashtable.c / plist.c: no path dereferences, re-releases or returns a node after passing it to p_free")
    u = prog.unit("phashtable.c")
    lu = prog.unit("plist.c")

    # ---- C15.1 -----------------------------------------------------------------------------
    # the bucket computation: a static helper that reduces modulo one of its parameters, or (when written in place) every
    # `... % table->size` expression
    BUCKETFN.clear()
    sites = []          # (function, modulo node, names the key may come from)
    for f_ in u.functions.values():
        if not f_.static or len(f_.params) < 2:
            continue
        mods_ = [n for (b, i, n) in f_.nodes() if n["k"] == "bin" and n["op"] == "%" and strip_casts(n["r"]) is not None
                 and strip_casts(n["r"])["k"] == "ref" and strip_casts(n["r"]).get("decl") == "param"]
        if mods_:
            BUCKETFN.add(f_.name)
            for m_ in mods_:
                sites.append((f_, m_, set(f_.param_names()) - {strip_casts(m_["r"])["name"]}))
    for f_ in u.functions.values():
        for (b, i, n) in f_.nodes():
            if n["k"] == "bin" and n["op"] == "%" and field_of(n["r"]) == "size":
                sites.append((f_, n, set(f_.param_names()[1:])))
    if not sites:
        raise AnalysisBroken("phashtable.c: no bucket computation (`% size`) found")
    bad = []
    nops = 0
    okm = True
    for (hf, modn, keys) in sites:
        # locals computed from the key count as the key (`key_int = P_POINTER_TO_INT (key); key_unsigned = (psize) key_signed;`)
        keys = set(keys)
        grew = True
        while grew:
            grew = False
            for (b, i, n) in hf.nodes(elsewhere=True):
                tgt = src = None
                if n["k"] == "asg" and strip_casts(n["l"]) is not None and strip_casts(n["l"])["k"] == "ref":
                    tgt, src = strip_casts(n["l"])["name"], n["r"]
                elif n["k"] == "decl" and n.get("init") is not None:
                    tgt, src = n["name"], n["init"]
                if tgt is not None and tgt not in keys and any(x["k"] == "ref" and x["name"] in keys for x in walk(src)):
                    keys.add(tgt)
                    grew = True
        # every arithmetic operator below the modulo whose operands depend on the key
        stack_ = [modn]
        seen_local = set()
        while stack_:
            n = stack_.pop()
            if n is None or id(n) in seen_local:
                continue
            seen_local.add(id(n))
            if n["k"] == "bin" and n["op"] in ("+", "-", "*", "<<", "/", "%"):
                t = u.type_of(n)
                dep = any(x["k"] == "ref" and x["name"] in keys for x in walk(n))
                if dep:
                    nops += 1
                    if t and t.get("k") == "int" and t.get("sg"):
                        bad.append((hf, n))
            if n["k"] == "un" and n["op"] == "-":
                t = u.type_of(n)
                if t and t.get("sg") and any(x["k"] == "ref" and x["name"] in keys for x in walk(n)):
                    bad.append((hf, n))
            if n["k"] == "ref" and n.get("decl") == "local":
                for d_ in hf.origins(n):
                    stack_.append(d_)
            for kk in ("l", "r", "e"):
                if isinstance(n.get(kk), dict):
                    stack_.append(n[kk])
    hf0 = sites[0][0]
    rep.ob("C15.1", hf0, "arith", not bad and nops > 0, "all %d key-dependent arithmetic operators of the bucket computation are in unsigned types" % nops if not bad and nops else
           ("line %d: %s is computed in signed %s: overflow is undefined for keys near INT_MAX" % (line(bad[0][1]), show(bad[0][1]), u.type_of(bad[0][1])["s"]) if bad else "no arithmetic found"),
           bad[0][1] if bad else hf0.loc[0])
    rep.ob("C15.1", hf0, "modulo", True, "the bucket is the key's hash reduced modulo the bucket count (%d site(s))" % len(sites), hf0.loc[0])
    rep.floor("C15.1", 2)

    # ---- C15.2 -----------------------------------------------------------------------------
    nw = u.fn("p_hash_table_new")
    size_st = [n for f in u.functions.values() for (b, i, n) in f.nodes() if n["k"] == "asg" and strip_casts(n["l"])["k"] == "member"
               and strip_casts(n["l"])["field"] == "size" and strip_casts(n["l"]).get("rec") == "PHashTable_"]
    al = [c for (b, i, c) in nw.calls() if c.get("callee") in ("p_malloc0", "p_malloc")]
    oks = len(size_st) == 1 and cv(size_st[0]["r"]) is not None and cv(size_st[0]["r"]) > 0
    ptrsz = 8
    if oks:
        cnt = cv(size_st[0]["r"])
        size_pos = [(b.id, i) for (b, i, n) in nw.nodes() if n["k"] == "asg" and n.get("loc") == size_st[0].get("loc")]

        def bytes_of(e, at):
            """value of an allocation size: constants, products and sums, and table->size read after the single store of it"""
            e = strip_casts(e)
            if e is None:
                return None
            if cv(e) is not None:
                return cv(e)
            if e["k"] == "bin" and e["op"] in ("*", "+"):
                l, r = bytes_of(e["l"], at), bytes_of(e["r"], at)
                return None if (l is None or r is None) else (l * r if e["op"] == "*" else l + r)
            if e["k"] == "member" and e["field"] == "size" and e.get("rec") == "PHashTable_":
                return cnt if (size_pos and nw.pos_dominates(size_pos[0], at)) else None
            if e["k"] == "ref" and e.get("decl") == "local":
                r_ = nw.resolve(e)
                if r_ is e or r_ is None:
                    return None
                # the single definition of the local: evaluated where it is computed
                at2 = [(b.id, i) for (b, i, n) in nw.nodes(elsewhere=True) if n is r_ or any(m is r_ for m in walk(n) if n["k"] in ("asg", "decl"))]
                return bytes_of(r_, at2[0] if at2 else at)
            return None
        alpos = dict((id(c), (b.id, i)) for (b, i, c) in nw.calls())
        oks = any(c.get("callee") == "p_malloc0" and bytes_of(c["args"][0], alpos[id(c)]) == cnt * ptrsz for c in al)
    rep.ob("C15.2", nw, "size", oks, "size is written once (%s) and the zero-filled bucket array has exactly that many slots" % (cv(size_st[0]["r"]) if size_st else "?") if oks else
           "table->size and the allocated bucket count disagree (or size is written in several places)", nw.loc[0])
    nsub = 0
    for fn in u.functions.values():
        for b, i, c in fn.calls():
            if c.get("callee") in BUCKETFN:
                a1 = strip_casts(c["args"][1])
                okm2 = a1 is not None and a1["k"] == "member" and a1["field"] == "size"
                rep.ob("C15.2", fn, "modulus", okm2, "the bucket is computed modulo table->size" if okm2 else
                       "the bucket is computed modulo %s, not table->size: the index can exceed the bucket array or disagree with other operations" % show(c["args"][1]), c)
    for (hf, modn, keys) in sites:
        if field_of(modn["r"]) == "size":
            rep.ob("C15.2", hf, "modulus", True, "the bucket is computed modulo table->size (in place)", modn)
    # the three chain operations: their subscripts are decided symbolically by C15.6 (hash of the key modulo table->size,
    # through helpers and out-parameters); the syntactic provenance below covers the functions that walk all buckets
    chain_fns = set()
    work_ = ["p_hash_table_insert", "p_hash_table_lookup", "p_hash_table_remove"]
    while work_:
        x_ = work_.pop()
        if x_ in chain_fns or x_ not in u.functions:
            continue
        chain_fns.add(x_)
        work_.extend(c.get("callee") for (b, i, c) in u.functions[x_].calls() if c.get("callee") in u.functions and u.functions[c["callee"]].static)
    for fn in u.functions.values():
        subs = []
        for b, i, s in fn.stmts():
            for n in walk(s):
                if n["k"] == "idx":
                    base = strip_casts(n["base"])
                    if base is not None and base["k"] == "member" and base["field"] == "table":
                        subs.append((b, i, n))
        if not subs:
            continue
        okp, msg = True, ""
        # variables assigned from the bucket function with table->size
        hashed = set()
        for b, i, n in fn.nodes():
            if n["k"] == "asg":
                r = strip_casts(n["r"])
                if r is not None and r["k"] == "call" and r.get("callee") in BUCKETFN:
                    a1 = strip_casts(r["args"][1])
                    if a1 is not None and a1["k"] == "member" and a1["field"] == "size":
                        hashed.add(root_var(n["l"]))
                    else:
                        okp, msg = False, "line %d: the bucket is computed modulo %s, not table->size" % (line(n), show(r["args"][1]))
        # loop counters bounded by table->size
        bounded = set()
        for blk in fn.blocks.values():
            c = blk.cond
            if c is not None and blk.term and blk.term.get("kind") in ("for", "while"):
                cs = strip_casts(c)
                if cs is not None and cs["k"] == "bin" and cs["op"] == "<":
                    r = strip_casts(cs["r"])
                    if r is not None and r["k"] == "member" and r["field"] == "size" and strip_casts(cs["l"])["k"] == "ref":
                        bounded.add(strip_casts(cs["l"])["name"])
        params = set(fn.param_names())
        for (b, i, n) in subs:
            iv = strip_casts(n["i"])
            nsub += 1
            if (iv is None or iv["k"] != "ref") and fn.name in chain_fns:
                continue        # decided by C15.6
            if iv is None or iv["k"] != "ref":
                okp, msg = False, "line %d: bucket index %s is not a plain variable" % (line(n), show(n["i"]))
            elif iv["name"] in hashed or iv["name"] in bounded:
                continue
            elif fn.name in chain_fns:
                continue        # decided by C15.6
            elif iv["name"] in params and fn.static:
                # static helper: every caller must pass a hashed value
                for g in u.functions.values():
                    for bb, ii, c in g.calls():
                        if c.get("callee") == fn.name:
                            pos = fn.param_names().index(iv["name"])
                            av = root_var(c["args"][pos])
                            gh = set()
                            for b3, i3, n3 in g.nodes():
                                if n3["k"] == "asg" and strip_casts(n3["r"]) is not None and strip_casts(n3["r"])["k"] == "call" \
                                        and strip_casts(n3["r"]).get("callee") in BUCKETFN:
                                    gh.add(root_var(n3["l"]))
                            if av not in gh:
                                okp, msg = False, "line %d: %s passes %s as bucket index to %s, which is not the bucket function's result" % (line(c), g.name, show(c["args"][pos]), fn.name)
            else:
                okp, msg = False, "line %d: bucket index %s is neither bounded by table->size nor the bucket function's result" % (line(n), iv["name"])
        rep.ob("C15.2", fn, "index", okp, "all bucket subscripts are bounded by table->size" if okp else msg, fn.loc[0])
    rep.floor("C15.2", 8)

    # ---- C15.3 -----------------------------------------------------------------------------
    # insert / lookup / remove on one bucket chain: decided by shape analysis (C15.6) - helper names play no role there
    rep.rule("C15.6", "hash chain operations (shape analysis to a fixpoint, chains of every length, unique keys): the bucket array is subscripted only with the key's hash "
                      "reduced modulo table->size; insert overwrites the value of a present key in place and otherwise, after comparing every node, links one new node "
                      "holding the arguments; lookup returns the stored value or (ppointer) -1 after comparing every node; remove unlinks and releases exactly the key's node")
    from plint import shape as _shape, chainshape as _chain
    for spec in ("insert", "lookup", "remove"):
        fn = u.fn("p_hash_table_" + spec, raw=True)
        seen = {}
        stats, viol = _shape.explore(u, fn, lambda spec=spec, fn=fn, seen=seen: _chain.ChainDomain(spec, seen, len(fn.params)))
        okc = not viol and stats["returns"] > 0
        if viol:
            v = viol[0]
            msg = "%s (path through lines %s; shape {%s}; %d of %d paths fail)" % (v[0], ", ".join(str(x) for x in v[3][-8:]), "; ".join(v[2]), len(viol), stats["paths"])
        else:
            msg = "%d paths to a fixpoint of %d abstract loop-head states: every return agrees with the map operation `%s` on the key's chain" % (stats["paths"], len(seen), spec)
        rep.ob("C15.6", fn, "map:" + spec, okc, msg, viol[0][1] if viol else fn.loc[0])
    rep.floor("C15.6", 3)
    # listing functions: every chain is scanned to its end
    for fname in ("p_hash_table_keys", "p_hash_table_values", "p_hash_table_lookup_by_value"):
        fn = u.fn(fname)
        ch = chain_loops(fn, "PHashTableNode_")
        okl, msg = len(ch) >= 1, "no chain loop found"
        for (h, body, cur) in ch:
            for (blk, to, on) in loop_exits(fn, body):
                c = blk.cond
                fine = False
                if c is not None and blk.id == h:
                    for (l, op, r) in __import__("plint.ir", fromlist=["atoms"]).atoms(c, on == "true"):
                        if root_var(l) == cur and strip_casts(l)["k"] == "ref" and op == "==" and cv(r) == 0:
                            fine = True
                if not fine:
                    okl, msg = False, "the walk over a bucket chain can be left at line %d before the end of the chain: entries behind that node are not listed" % blk.line()
        # the outer loop visits every bucket: counter < table->size, ++counter
        rep.ob("C15.3", fn, "full-scan", okl, "each bucket chain is walked until node == NULL; no early exit" if okl else msg, fn.loc[0])
    # (p_list_remove: first occurrence only, nothing followed after the release - decided by the shape analysis, C15.5)
    # lookup_by_value: with a predicate given, the predicate alone decides which keys are listed (it is an acceptance test of the
    # stored value against the given one - "strictly greater" is a legal predicate and rejects an identical value); the pointer
    # comparison of the stored value with the argument is evaluated only on paths where no predicate was passed
    lv = u.fn("p_hash_table_lookup_by_value")
    lps = lv.param_names()
    ident = []
    if len(lps) >= 3:
        def ls(st, b, i, stmt, ident=ident):
            for n_ in walk(stmt):
                if n_["k"] == "bin" and n_["op"] in ("==", "!="):
                    a_, b_ = strip_casts(n_["l"]), strip_casts(n_["r"])
                    for x_, y_ in ((a_, b_), (b_, a_)):
                        if x_ is not None and x_["k"] == "member" and x_["field"] == "value" and y_ is not None and y_["k"] == "ref" and y_["name"] == lps[1]:
                            if guards.lookup(st, lps[2]) != 0:
                                ident.append(line(n_))
            return [guards.transfer(st, stmt)]
        Flow(lv, [guards.EMPTY], ls, lambda st, b, to, on: guards.edge_assume(st, b, on), max_states=20000).run()
    calls_f = [c for (b, i, c) in lv.calls() if c.get("callee") is None and c.get("fnptr") is not None and root_var(c["fnptr"]) == (lps[2] if len(lps) >= 3 else None)]
    okl = len(lps) >= 3 and bool(calls_f) and not ident
    rep.ob("C15.3", lv, "by-value:predicate", okl, "with a predicate the listing is decided by the predicate alone; values are compared by identity only when none was given" if okl else
           ("line %d: the stored value is compared with the argument by identity on a path where a predicate was passed: a value identical to the argument is listed although the "
            "predicate may reject it (a `strictly greater` predicate does)" % ident[0] if ident else "the predicate is never called"), ident[0] if ident else lv.loc[0])
    rep.floor("C15.3", 4)

    # ---- C15.4 -----------------------------------------------------------------------------
    rel = uaf.releasers_for(prog)
    n = 0
    for unit in (u, lu):
        for fn in unit.functions.values():
            if not any(c.get("callee") in rel for (b, i, c) in fn.calls()):
                continue
            ps = uaf.check_function(fn, rel)
            n += 1
            if ps:
                k, p, ln, w, at = ps[0]
                rep.ob("C15.4", fn, "uaf", False, "line %d: %s %s after it was released at line %s" % (
                    ln, p, {"use": "is dereferenced", "double": "is released again", "pass": "is passed to a call", "return": "is returned"}[k], at), ln, w)
            else:
                rep.ob("C15.4", fn, "uaf", True, "no path touches a node after releasing it", fn.loc[0])
    rep.floor("C15.4", 5)

    # ---- C15.5 list operations as sequence operations (shape analysis with summarised segments) -----------------
    rep.rule("C15.5", "list operations (shape analysis to a fixpoint, lists of every length): append / prepend / remove / reverse / last / foreach / free "
                      "leave or return exactly the sequence the corresponding sequence operation gives (the new item carries the data argument; remove drops and "
                      "releases the first item whose data equals the argument after comparing every item in front of it; foreach hands every item's data and the "
                      "user data to the callback in order; free releases every item once), never follow a link of a released item and never dereference NULL")
    from plint import shape, listshape
    for spec in ("append", "prepend", "remove", "reverse", "last", "foreach", "free", "length"):
        fn = lu.fn("p_list_" + spec)
        seen = {}
        stats, viol = shape.explore(lu, fn, lambda spec=spec, fn=fn, seen=seen: listshape.ListDomain(spec, seen, len(fn.params)))
        okl = not viol and stats["returns"] > 0
        if viol:
            v = viol[0]
            msg = "%s (path through lines %s; list shape {%s}; %d of %d paths fail)" % (v[0], ", ".join(str(x) for x in v[3][-8:]), "; ".join(v[2]), len(viol), stats["paths"])
        else:
            msg = "%d paths to a fixpoint of %d abstract loop-head states: every return agrees with the sequence operation `%s`" % (stats["paths"], len(seen), spec)
        rep.ob("C15.5", fn, "seq:" + spec, okl, msg, viol[0][1] if viol else fn.loc[0])
    # the length counter: starts at 1 on the first item and is incremented once per link followed
    fl = lu.fn("p_list_length")
    incs = [(b, i, n) for (b, i, n) in fl.nodes() if n["k"] == "un" and "++" in n["op"]]
    inits = [(b, i, n) for (b, i, n) in fl.nodes() if n["k"] == "asg" and n["op"] == "=" and cv(n["r"]) is not None and strip_casts(n["l"])["k"] == "ref"
             and incs and root_var(n["l"]) == root_var(incs[0][2]["e"])]
    steps = [(b, i, n) for (b, i, n) in fl.nodes() if n["k"] == "asg" and n["op"] == "=" and field_of(n["r"]) == "next"]
    loops = fl.loops()
    okc = len(incs) == 1 and len(inits) == 1 and cv(inits[0][2]["r"]) == 1 and len(steps) == 1 and len(loops) == 1 \
        and incs[0][0].id in loops[0][1] and steps[0][0].id in loops[0][1] and inits[0][0].id not in loops[0][1] \
        and all(root_var(r.get("e")) == root_var(incs[0][2]["e"]) or cv(r.get("e")) == 0 for (_b, _i, r) in fl.returns())
    rep.ob("C15.5", fl, "length:counter", okc, "length returns 0 for NULL, else a counter that starts at 1 and is incremented once per link followed to the end" if okc else
           "the length counter is not `1 + one per link followed`", fl.loc[0])
    rep.floor("C15.5", 9)


def field_of(e):
    e = strip_casts(e)
    if e is not None and e["k"] == "member":
        return e["field"]
    return None


# objects are zero-filled at birth: the functions of these units rely on it for every field their constructors do not store
_run_clauses = run


def run(prog, rep):
    _run_clauses(prog, rep)
    from plint.wiring import check_zero_init
    check_zero_init(rep, "C15.2", prog, ['phashtable.c', 'plist.c'], 1)

# generic robustness battery: renaming every local/parameter in these files must not change any verdict
RENAME_LOCALS = ['src/phashtable.c', 'src/plist.c']

SELFTEST = [
    dict(id="lookup-by-value-identity-shortcut", file="src/phashtable.c", expect="C15.3",
         old="\t\t\tif (func == NULL)\n\t\t\t\tres = (node->value == val);", new="\t\t\tif (func == NULL || node->value == val)\n\t\t\t\tres = (node->value == val);"),
    # ---- C15.5 list operations ----
    dict(id="list-reverse-head-link-kept", file="src/plist.c", expect="C15.5",
         old="\tprev->next = NULL;\n", new=""),
    dict(id="list-reverse-returns-cur", file="src/plist.c", expect="C15.5",
         old="\t\tcur\t  = tmp;\n\t}\n\n\treturn prev;", new="\t\tcur\t  = tmp;\n\t}\n\n\treturn cur;"),
    dict(id="list-reverse-skips-link", file="src/plist.c", expect="C15.5",
         old="\t\tcur->next = prev;\n\t\tprev\t  = cur;", new="\t\tprev\t  = cur;"),
    dict(id="list-append-walks-past-end", file="src/plist.c", expect="C15.5",
         old="\tfor (cur = list; cur->next != NULL; cur = cur->next)\n\t\t;\n\tcur->next = item;", new="\tfor (cur = list; cur != NULL; cur = cur->next)\n\t\t;\n\tcur->next = item;"),
    dict(id="list-append-after-head", file="src/plist.c", expect="C15.5",
         old="\tcur->next = item;", new="\titem->next = list->next;\n\tlist->next = item;"),
    dict(id="list-append-data-not-stored", file="src/plist.c", expect="C15.5",
         old="\titem->data = data;\n\n\t/* List is empty */\n\tif (P_UNLIKELY (list == NULL))\n\t\treturn item;\n\n\tfor", new="\t/* List is empty */\n\tif (P_UNLIKELY (list == NULL))\n\t\treturn item;\n\n\tfor"),
    dict(id="list-prepend-returns-old-head", file="src/plist.c", expect="C15.5",
         old="\titem->next = list;\n\n\treturn item;", new="\titem->next = list;\n\n\treturn list;"),
    dict(id="list-remove-keeps-walking", file="src/plist.c", expect="C15.5",
         old="\t\t\tp_free (cur);\n\n\t\t\tbreak;", new="\t\t\tp_free (cur);"),
    dict(id="list-remove-head-not-advanced", file="src/plist.c", expect="C15.5",
         old="\t\t\tif (prev == NULL)\n\t\t\t\thead = cur->next;\n\t\t\telse\n\t\t\t\tprev->next = cur->next;", new="\t\t\tif (prev != NULL)\n\t\t\t\tprev->next = cur->next;"),
    dict(id="list-remove-unlinks-successor", file="src/plist.c", expect="C15.5",
         old="\t\t\t\tprev->next = cur->next;", new="\t\t\t\tprev->next = cur->next != NULL ? cur->next->next : NULL;"),
    dict(id="list-remove-no-free", file="src/plist.c", expect="C15.5",
         old="\t\t\tp_free (cur);\n\n\t\t\tbreak;", new="\t\t\tbreak;"),
    dict(id="list-free-reads-freed-item", file="src/plist.c", expect="C15.5",
         old="\t\tnext = cur->next;\n\t\tp_free (cur);", new="\t\tp_free (cur);\n\t\tnext = cur->next;"),
    dict(id="list-free-skips-first", file="src/plist.c", expect="C15.5",
         old="\tfor (next = cur = list; cur != NULL && next != NULL; cur = next)  {", new="\tfor (next = cur = list->next; cur != NULL && next != NULL; cur = next)  {"),
    dict(id="list-foreach-skips-first", file="src/plist.c", expect="C15.5",
         old="\tfor (cur = list; cur != NULL; cur = cur->next)\n\t\tfunc (cur->data, user_data);", new="\tfor (cur = list->next; cur != NULL; cur = cur->next)\n\t\tfunc (cur->data, user_data);"),
    dict(id="list-foreach-stops-before-last", file="src/plist.c", expect="C15.5",
         old="\tfor (cur = list; cur != NULL; cur = cur->next)\n\t\tfunc (cur->data, user_data);", new="\tfor (cur = list; cur->next != NULL; cur = cur->next)\n\t\tfunc (cur->data, user_data);"),
    dict(id="list-foreach-null-callback-called", file="src/plist.c", expect="C15.5",
         old="\tif (P_UNLIKELY (list == NULL || func == NULL))", new="\tif (P_UNLIKELY (list == NULL && func == NULL))"),
    dict(id="list-last-returns-head", file="src/plist.c", expect="C15.5",
         old="\tfor (cur = list; cur->next != NULL; cur = cur->next)\n\t\t;\n\n\treturn cur;", new="\tfor (cur = list; cur->next != NULL; cur = cur->next)\n\t\t;\n\n\treturn list;"),
    dict(id="list-length-starts-at-zero", file="src/plist.c", expect="C15.5",
         old="\tfor (cur = list, ret = 1; cur->next != NULL; cur = cur->next, ++ret)", new="\tfor (cur = list, ret = 0; cur->next != NULL; cur = cur->next, ++ret)"),
    dict(id="list-reverse-while-form-neutral", file="src/plist.c", expect=None,
         old="\twhile (cur != NULL) {\n\t\ttmp\t  = cur->next;\n\t\tcur->next = prev;\n\t\tprev\t  = cur;\n\t\tcur\t  = tmp;\n\t}",
         new="\tfor (; cur != NULL; cur = tmp) {\n\t\ttmp\t  = cur->next;\n\t\tcur->next = prev;\n\t\tprev\t  = cur;\n\t}"),
    dict(id="list-append-via-last-loop-neutral", file="src/plist.c", expect=None,
         old="\tfor (cur = list; cur->next != NULL; cur = cur->next)\n\t\t;\n\tcur->next = item;", new="\tcur = list;\n\twhile (cur->next != NULL)\n\t\tcur = cur->next;\n\tcur->next = item;"),
    dict(id="list-remove-unlink-after-free-neutral", file="src/plist.c", expect=None,
         old="\t\t\tif (prev == NULL)\n\t\t\t\thead = cur->next;\n\t\t\telse\n\t\t\t\tprev->next = cur->next;\n\n\t\t\tp_free (cur);",
         new="\t\t\tPList *after = cur->next;\n\n\t\t\tp_free (cur);\n\n\t\t\tif (prev == NULL)\n\t\t\t\thead = after;\n\t\t\telse\n\t\t\t\tprev->next = after;"),
    dict(id="hash-signed-add-again", file="src/phashtable.c", expect="C15.1",
         old="((psize) (pssize) P_POINTER_TO_INT (pointer) + 37)", new="((psize) (P_POINTER_TO_INT (pointer) + 37))"),
    dict(id="bucket-count-mismatch", file="src/phashtable.c", expect="C15.2",
         old="\tret->size = P_HASH_TABLE_SIZE;", new="\tret->size = P_HASH_TABLE_SIZE + 1;"),
    dict(id="lookup-other-modulus", file="src/phashtable.c", expect="C15.2", count=1,
         old="\thash = pp_hash_table_calc_hash (key, table->size);\n\n\treturn ((node", new="\thash = pp_hash_table_calc_hash (key, 128);\n\n\treturn ((node"),
    dict(id="lookup-by-value-break", file="src/phashtable.c", expect="C15.3",
         old="\t\t\tif (res)\n\t\t\t\tret = p_list_append (ret, node->key);", new="\t\t\tif (!res)\n\t\t\t\tbreak;\n\t\t\tret = p_list_append (ret, node->key);"),
    dict(id="insert-always-allocates", file="src/phashtable.c", expect="C15.6",
         old="\tif ((node = pp_hash_table_find_node (table, key, hash)) == NULL) {\n\t\tif (P_UNLIKELY ((node = p_malloc0", new="\tif ((node = NULL) == NULL) {\n\t\tif (P_UNLIKELY ((node = p_malloc0"),
    dict(id="remove-no-break", file="src/phashtable.c", expect="C15.4",
         old="\t\t\t\tp_free (node);\n\t\t\t\tbreak;\n\t\t\t} else {", new="\t\t\t\tp_free (node);\n\t\t\t\tnode = node->next;\n\t\t\t} else {"),
    dict(id="remove-forgets-head", file="src/phashtable.c", expect="C15.6",
         old="\t\t\t\tif (prev_node == NULL)\n\t\t\t\t\ttable->table[hash] = node->next;\n\t\t\t\telse\n\t\t\t\t\tprev_node->next = node->next;\n", new="\t\t\t\tif (prev_node != NULL)\n\t\t\t\t\tprev_node->next = node->next;\n"),
    dict(id="table-free-uses-freed-node", file="src/phashtable.c", expect="C15.4",
         old="\t\t\tnext_node = node->next;\n\t\t\tp_free (node);\n\t\t\tnode = next_node;", new="\t\t\tp_free (node);\n\t\t\tnode = node->next;"),
    dict(id="list-free-next-after-free", file="src/plist.c", expect="C15.4",
         old="\t\tnext = cur->next;\n\t\tp_free (cur);", new="\t\tp_free (cur);\n\t\tnext = cur->next;"),
    dict(id="lookup-marker-null", file="src/phashtable.c", expect="C15.6",
         old="== NULL) ? (ppointer) (-1) : node->value;", new="== NULL) ? NULL : node->value;"),
    dict(id="insert-value-not-overwritten", file="src/phashtable.c", expect="C15.6",
         old="\t} else\n\t\tnode->value = value;", new="\t}"),
    dict(id="insert-links-behind-head", file="src/phashtable.c", expect="C15.6",
         old="\t\tnode->next  = table->table[hash];\n\n\t\ttable->table[hash] = node;", new="\t\tif (table->table[hash] != NULL) {\n\t\t\tnode->next = table->table[hash]->next->next;\n\t\t\ttable->table[hash]->next = node;\n\t\t} else\n\t\t\ttable->table[hash] = node;"),
    dict(id="insert-key-not-stored", file="src/phashtable.c", expect="C15.6",
         old="\t\tnode->key   = key;\n", new=""),
    dict(id="find-stops-after-first-node", file="src/phashtable.c", expect="C15.6",
         old="\tfor (ret = table->table[hash]; ret != NULL; ret = ret->next)\n\t\tif (ret->key == key)\n\t\t\treturn ret;", new="\tret = table->table[hash];\n\n\tif (ret != NULL && ret->key == key)\n\t\treturn ret;"),
    dict(id="remove-unlinks-successor", file="src/phashtable.c", expect="C15.6",
         old="\t\t\t\t\tprev_node->next = node->next;", new="\t\t\t\t\tprev_node->next = node->next != NULL ? node->next->next : NULL;"),
    dict(id="remove-index-unreduced", file="src/phashtable.c", expect="C15.6",
         old="\tif (pp_hash_table_find_node (table, key, hash) != NULL) {\n\t\tnode = table->table[hash];", new="\tif (pp_hash_table_find_node (table, key, hash) != NULL) {\n\t\tnode = table->table[hash + 1];"),
    dict(id="find-node-inlined-in-insert-neutral", file="src/phashtable.c", expect=None,
         old="\tif ((node = pp_hash_table_find_node (table, key, hash)) == NULL) {", new="\tfor (node = table->table[hash]; node != NULL; node = node->next)\n\t\tif (node->key == key)\n\t\t\tbreak;\n\n\tif (node == NULL) {"),
    dict(id="remove-single-walk-neutral", file="src/phashtable.c", expect=None,
         old="\tif (pp_hash_table_find_node (table, key, hash) != NULL) {\n\t\tnode = table->table[hash];", new="\t{\n\t\tnode = table->table[hash];"),
    dict(id="keys-while-form-neutral", file="src/phashtable.c", expect=None,
         old="\t\tfor (node = table->table[i]; node != NULL; node = node->next)\n\t\t\tret = p_list_append (ret, node->key);",
         new="\t{\n\t\tnode = table->table[i];\n\t\twhile (node != NULL) {\n\t\t\tret = p_list_append (ret, node->key);\n\t\t\tnode = node->next;\n\t\t}\n\t}"),
]
