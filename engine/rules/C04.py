"""C04 Atomic operations: structural clauses (DESIGN.md section 4, C04).

Each of the 16 p_atomic_* operations in each of the three models is evaluated
symbolically (plint.symx) with a semantics table for the GCC builtins; the
stored value and the returned value on every CFG path are compared with the
operation's specification term.  Indivisibility is decided from the event
trace of each path: one read-modify-write builtin and no other access (c11,
sync), every access inside the global mutex (sim).
"""
import re

from plint import symx
from plint.symx import C, norm
from plint.ir import strip_casts, cv, line
from plint.units import AnalysisBroken
from plint.wiring import norm_callee

SEQ_CST = 5

INT_OPS = ["get", "set", "inc", "dec_and_test", "compare_and_exchange", "add", "and", "or", "xor"]
PTR_OPS = ["get", "set", "compare_and_exchange", "add", "and", "or", "xor"]
BINOP = {"add": "+", "and": "&", "or": "|", "xor": "^", "sub": "-", "nand": "nand"}


def builtin_width(e):
    """Width in bits a __atomic/__sync builtin call operates on (from its
    size suffix), or None."""
    name = e.get("callee") or ""
    m = re.search(r"_(1|2|4|8|16)$", name)
    if m and (name.startswith("__atomic_") or name.startswith("__sync_")):
        return int(m.group(1)) * 8
    return None


class Hook:
    def __init__(self, fn, model):
        self.fn = fn
        self.model = model
        self.unit = fn.unit

    def ptr_width(self, node, idx=0):
        w = builtin_width(node)
        if w:
            return w
        a = node["args"][idx]
        t = self.unit.type_of(a)
        if t and t.get("k") == "ptr":
            return self.unit.types[t["p"]]["w"]
        a2 = strip_casts(a, explicit=False)
        t = self.unit.type_of(a2)
        if t and t.get("k") == "ptr":
            return self.unit.types[t["p"]]["w"]
        return 0

    def __call__(self, name, args, node, st, sx):
        n = norm_callee(name)
        if n is None:
            return None
        order = None
        if n.startswith("__atomic_"):
            named = node.get("named")
            if named and "order" in named:
                order = cv(node["args"][named["order"]])
                of = cv(node["args"][named["order_fail"]]) if "order_fail" in named else None
            else:
                order = cv(node["args"][-1])
                of = None
        elif n.startswith("__sync_"):
            order, of = SEQ_CST, None
        if n in ("__sync_synchronize",):
            st.events.append(("barrier", "full", node))
            return [(("void",), st)]
        if n == "__atomic_thread_fence":
            st.events.append(("barrier", "full" if cv(node["args"][0]) == SEQ_CST else "weak", node))
            return [(("void",), st)]
        if n in ("p_mutex_lock", "p_mutex_unlock"):
            st.events.append(("lock" if n == "p_mutex_lock" else "unlock", args[0], node))
            return [(C(1), st)]
        m = re.match(r"__atomic_(load|store|exchange|compare_exchange|fetch_(\w+)|(\w+)_fetch)(_n)?$", n)
        ms = re.match(r"__sync_(fetch_and_(\w+)|(\w+)_and_fetch|bool_compare_and_swap|val_compare_and_swap|lock_test_and_set|lock_release)$", n)
        if not m and not ms:
            return None
        loc = norm(args[0])
        w = self.ptr_width(node)
        info = {"name": n, "order": order, "order_fail": of, "width": w, "loc": loc}
        old = st.load(loc)
        if m:
            kind = m.group(1)
            if kind == "load":
                st.events.append(("builtin", "load", node, info))
                return [(old, st)]
            if kind == "store":
                st.events.append(("builtin", "store", node, info))
                st.store(loc, args[1])
                return [(("void",), st)]
            if kind == "exchange":
                st.events.append(("builtin", "rmw", node, info))
                st.store(loc, args[1])
                return [(old, st)]
            if kind == "compare_exchange":
                named = node.get("named", {})
                exp_ptr = norm(args[named.get("val1", 1)])
                desired = args[named.get("val2", 2)]
                weak = cv(node["args"][named.get("weak", 3)])
                info["weak"] = weak
                exp = st.load(exp_ptr)
                cond = norm(("cmp", "==", old, exp))
                st.events.append(("builtin", "rmw", node, info))
                out = []
                kn = st.cond_known(cond)
                if kn is not False:
                    s1 = st.copy()
                    if kn is None:
                        s1.conds.append((cond, True))
                    s1.store(loc, desired)
                    out.append((C(1), s1))
                if kn is not True:
                    s2 = st.copy()
                    if kn is None:
                        s2.conds.append((cond, False))
                    s2.store(exp_ptr, old)
                    out.append((C(0), s2))
                return out
            op = m.group(2) or m.group(3)
            if op not in BINOP:
                return None
            new = norm(("bin", BINOP[op], old, args[1]))
            st.events.append(("builtin", "rmw", node, info))
            st.store(loc, new)
            return [(old if m.group(2) else new, st)]
        kind = ms.group(1)
        if kind.startswith("fetch_and_") or kind.endswith("_and_fetch"):
            op = ms.group(2) or ms.group(3)
            if op not in BINOP:
                return None
            new = norm(("bin", BINOP[op], old, args[1]))
            st.events.append(("builtin", "rmw", node, info))
            st.store(loc, new)
            return [(old if ms.group(2) else new, st)]
        if kind in ("bool_compare_and_swap", "val_compare_and_swap"):
            cond = norm(("cmp", "==", old, args[1]))
            st.events.append(("builtin", "rmw", node, info))
            out = []
            kn = st.cond_known(cond)
            if kn is not False:
                s1 = st.copy()
                if kn is None:
                    s1.conds.append((cond, True))
                s1.store(loc, args[2])
                out.append((C(1) if kind.startswith("bool") else old, s1))
            if kn is not True:
                s2 = st.copy()
                if kn is None:
                    s2.conds.append((cond, False))
                out.append((C(0) if kind.startswith("bool") else old, s2))
            return out
        return None


def cell(fn):
    return ("p", fn.param_names()[0])


def run(prog, rep):
    rep.rule("C04.1", "value semantics: on every CFG path the stored and returned values equal the operation's specification "
                      "term (symbolic evaluation with the GCC builtin semantics table); c11 orders are SEQ_CST")
    rep.rule("C04.2", "indivisibility (c11, sync): exactly one atomic builtin on the cell and no other access; sync get/set: one volatile "
                      "access with a full barrier before the load / after the store")
    rep.rule("C04.3", "indivisibility (sim): every access to the cell lies between p_mutex_lock and p_mutex_unlock of the one global mutex, balanced on every path")
    rep.rule("C04.4", "width: int operations act on 32-bit, pointer operations on pointer-width words; no narrowing on the value path")
    n_ops = 0
    for uname, model in (("patomic-c11.c", "c11"), ("patomic-sync.c", "sync"), ("patomic-sim.c", "sim")):
        u = prog.unit(uname)
        for fam, ops, width in (("int", INT_OPS, 32), ("pointer", PTR_OPS, 64)):
            for op in ops:
                fn = u.fn("p_atomic_%s_%s" % (fam, op))
                n_ops += 1
                check_op(rep, fn, model, op, width)
        if model == "sim":
            check_sim_mutex(rep, u)
    rep.floor("C04.1", 48, "16 operations x 3 models")
    rep.floor("C04.4", 48)


def check_sim_mutex(rep, u):
    # the mutex all operations lock is one file-scope object created in thread_init
    init = u.fn("p_atomic_thread_init")
    writers = []
    for f in u.functions.values():
        for b, i, n in f.nodes():
            if n["k"] == "asg":
                l = strip_casts(n["l"])
                if l is not None and l["k"] == "ref" and l["name"] == "pp_atomic_mutex":
                    writers.append((f.name, n))
    names = sorted(set(w[0] for w in writers))
    ok = set(names) <= {"p_atomic_thread_init", "p_atomic_thread_shutdown"} and "p_atomic_thread_init" in names
    rep.ob("C04.3", init, "mutex:global", ok,
           "the global mutex is written only by thread_init/thread_shutdown" if ok else "the global mutex is written by %s" % names,
           init.loc[0])
    # ... and it exists: entered with the pointer NULL, thread_init leaves it assigned from the constructor on every path (with the test
    # inverted the mutex is never created, p_mutex_lock (NULL) fails silently and every simulated atomic runs unserialised)
    from plint.wiring import init_creates
    from plint.wiring import shutdown_resets
    nrs, brs = shutdown_resets(u.fn("p_atomic_thread_shutdown"))
    if nrs < 1:
        raise AnalysisBroken("p_atomic_thread_shutdown: the release of the global mutex was not found")
    rep.ob("C04.3", u.fn("p_atomic_thread_shutdown"), "mutex:reset", nrs >= 1 and not brs, "thread_shutdown stores NULL into the global after releasing the mutex" if (nrs >= 1 and not brs) else
           ("line %d: %s is released and keeps pointing at the destroyed object: the next p_libsys_init finds it non-NULL, creates nothing, every p_mutex_lock on it fails "
            "silently and the simulated atomics run unserialised" % (brs[0][1], brs[0][0]) if brs else "the release of the global mutex was not found"), brs[0][1] if brs else init.loc[0])
    made = [x for x in init_creates(u.fn("p_atomic_thread_init")) if x[0] == "pp_atomic_mutex"]
    okm = bool(made) and made[0][2] and made[0][1] == "p_mutex_new"
    rep.ob("C04.3", init, "mutex:created", okm, "thread_init creates the global mutex whenever it does not exist yet" if okm else
           "p_atomic_thread_init can return with pp_atomic_mutex still NULL: p_mutex_lock (NULL) only reports failure, which the operations ignore, so no read-modify-write "
           "is serialised", made[0][3] if made else init.loc[0])


def check_op(rep, fn, model, op, width):
    site = "op"
    hook = Hook(fn, model)
    sx = symx.SymExec(fn, hook, width_of_call=builtin_width)
    try:
        paths = sx.run()
    except AnalysisBroken as e:
        if "contains a loop" in str(e):
            rep.ob("C04.2", fn, site, False, "%s contains a loop: the operation is not a single indivisible step" % fn.name, fn.loc[0])
            return
        raise
    cellp = cell(fn)
    old = ("m0", cellp)
    P = lambda i: ("p", fn.param_names()[i])
    sem_ok = True
    msgs = []
    for st in paths:
        new = st.mem.get(cellp, old)
        ret = st.ret
        conds = [(norm(c), t) for (c, t) in st.conds]
        exp_new, exp_ret = None, None
        if op == "get":
            exp_new, exp_ret = old, old
        elif op == "set":
            exp_new, exp_ret = P(1), None
        elif op == "inc":
            exp_new, exp_ret = norm(("bin", "+", old, C(1))), None
        elif op == "dec_and_test":
            exp_new = norm(("bin", "+", old, C(-1)))
            zero = norm(("cmp", "==", old, C(1)))
            exp_ret = ("bool", zero)
        elif op == "compare_and_exchange":
            eq = norm(("cmp", "==", old, P(1)))
            truth = None
            for (c, t) in conds:
                if c == eq:
                    truth = t
            if truth is None:
                # the comparison result may be returned symbolically without branching only if nothing is stored
                if new != old:
                    sem_ok = False
                    msgs.append("the cell is written on a path that did not compare it with %s" % fn.param_names()[1])
                    continue
                exp_new, exp_ret = old, ("bool", eq)
            elif truth:
                exp_new, exp_ret = P(2), ("bool", eq)
            else:
                exp_new, exp_ret = old, ("bool", eq)
        else:
            exp_new = norm(("bin", BINOP[op], old, P(1)))
            exp_ret = old
        if new != exp_new:
            sem_ok = False
            msgs.append("stores %s, specification %s" % (symx.show(new), symx.show(exp_new)))
        if exp_ret is not None:
            if isinstance(exp_ret, tuple) and exp_ret[0] == "bool":
                want = exp_ret[1]
                truth = None
                NEG = {"==": "!=", "!=": "==", "<": ">=", ">=": "<", ">": "<=", "<=": ">"}
                for (c, t) in conds:
                    if c == want:
                        truth = t
                    elif c[0] == "cmp" and want[0] == "cmp" and c[2:] == want[2:] and NEG.get(c[1]) == want[1]:
                        truth = not t          # the path tested the negated relation
                okr = False
                if ret == want:
                    okr = True
                elif ret is not None and ret[0] == "c" and truth is not None:
                    okr = (ret[1] == 1) if truth else (ret[1] == 0)
                if not okr:
                    sem_ok = False
                    msgs.append("returns %s on the path %s; specification: TRUE exactly when %s" %
                                (symx.show(ret), " && ".join(("" if t else "!") + symx.show(c) for c, t in conds) or "(unconditional)",
                                 symx.show(want)))
            elif ret != exp_ret:
                sem_ok = False
                msgs.append("returns %s, specification %s" % (symx.show(ret), symx.show(exp_ret)))
    if not paths:
        sem_ok = False
        msgs.append("no path reaches the end of the function")
    # orders
    for st in paths:
        for ev in st.events:
            if ev[0] == "builtin":
                info = ev[3]
                if model == "c11" and (info["order"] != SEQ_CST or (info.get("order_fail") is not None and info["order_fail"] != SEQ_CST)):
                    sem_ok = False
                    msgs.append("%s uses memory order %s/%s, not SEQ_CST" % (info["name"], info["order"], info.get("order_fail")))
                if info.get("weak"):
                    sem_ok = False
                    msgs.append("weak compare-exchange may fail spuriously although the word equals the expected value")
    msgs = sorted(set(msgs))
    rep.ob("C04.1", fn, site, sem_ok,
           "%d path(s): stored and returned values match the specification of %s" % (len(paths), op) if sem_ok else "; ".join(msgs),
           fn.loc[0])

    # indivisibility
    ind_ok = True
    imsgs = []
    for st in paths:
        evs = [e for e in st.events if e[0] in ("builtin", "read", "write", "barrier", "lock", "unlock")]
        cell_evs = [e for e in evs if (e[0] == "builtin" and e[3]["loc"] == cellp) or (e[0] in ("read", "write") and e[1] == cellp)]
        if model in ("c11", "sync"):
            raw = [e for e in cell_evs if e[0] in ("read", "write")]
            blt = [e for e in cell_evs if e[0] == "builtin"]
            if model == "sync" and op in ("get", "set") and not blt:
                want = "read" if op == "get" else "write"
                if len(raw) != 1 or raw[0][0] != want:
                    ind_ok = False
                    imsgs.append("expected exactly one %s of the cell, found %s" % (want, [e[0] for e in raw]))
                    continue
                idx = evs.index(raw[0])
                before = any(e[0] == "barrier" and e[1] == "full" for e in evs[:idx])
                after = any(e[0] == "barrier" and e[1] == "full" for e in evs[idx + 1:])
                need = before if op == "get" else after
                if not need:
                    ind_ok = False
                    imsgs.append("no full barrier %s the %s" % ("before" if op == "get" else "after", want))
                # the accessed lvalue must be volatile
                t = fn.unit.type_of(strip_casts(raw[0][2]["l"]) if raw[0][2]["k"] == "asg" else raw[0][2])
                if not (t and t.get("vol")):
                    ind_ok = False
                    imsgs.append("the plain access is not volatile-qualified")
            else:
                if raw:
                    ind_ok = False
                    imsgs.append("plain %s of the cell at line %d outside an atomic builtin" % (raw[0][0], line(raw[0][2])))
                if len(blt) != 1:
                    ind_ok = False
                    imsgs.append("%d atomic builtins on the cell on one path; exactly one expected" % len(blt))
        else:
            held = None
            for e in evs:
                if e[0] == "lock":
                    if held is not None:
                        ind_ok = False
                        imsgs.append("mutex locked twice")
                    held = e[1]
                    if held != ("m0", ("glob", "pp_atomic_mutex")) and held != ("glob", "pp_atomic_mutex"):
                        ind_ok = False
                        imsgs.append("locks %s, not the global atomic mutex" % symx.show(held))
                elif e[0] == "unlock":
                    if held is None or e[1] != held:
                        ind_ok = False
                        imsgs.append("unlock without matching lock")
                    held = None
                elif e in cell_evs:
                    if held is None:
                        ind_ok = False
                        imsgs.append("%s of the cell at line %d outside the mutex" % (e[0], line(e[2])))
            if held is not None:
                ind_ok = False
                imsgs.append("a path returns with the mutex held")
            if not cell_evs:
                ind_ok = False
                imsgs.append("the cell is never accessed")
    rule = "C04.3" if model == "sim" else "C04.2"
    rep.ob(rule, fn, site, ind_ok,
           ("every access of the cell is inside the global mutex, balanced on %d path(s)" % len(paths)) if (ind_ok and model == "sim")
           else ("single atomic step on every path" if ind_ok else "; ".join(sorted(set(imsgs)))), fn.loc[0])

    # width
    w_ok = True
    wmsgs = []
    for st in paths:
        for e in st.events:
            if e[0] == "builtin" and e[3]["loc"] == cellp:
                if e[3]["width"] != width:
                    w_ok = False
                    wmsgs.append("%s operates on a %d-bit word, expected %d" % (e[3]["name"], e[3]["width"], width))
            elif e[0] in ("read", "write") and e[1] == cellp:
                node = e[2]
                if node["k"] == "asg":
                    node = node["l"]
                elif node["k"] == "un" and node["op"] != "*":
                    node = node["e"]
                t = fn.unit.type_of(strip_casts(node, explicit=False))
                if t and t["w"] != width:
                    w_ok = False
                    wmsgs.append("plain access of width %d, expected %d" % (t["w"], width))
        for v in [st.ret, st.mem.get(cellp)]:
            if v is not None and "trunc" in repr(v):
                w_ok = False
                wmsgs.append("narrowing conversion on the value path: %s" % symx.show(v))
    rep.ob("C04.4", fn, site, w_ok, "operates on %d-bit words without narrowing" % width if w_ok else "; ".join(sorted(set(wmsgs))), fn.loc[0])


# generic robustness battery: renaming every local/parameter in these files must not change any verdict
RENAME_LOCALS = ['src/patomic-c11.c', 'src/patomic-sync.c', 'src/patomic-sim.c']

SELFTEST = [
    dict(id="sim-shutdown-keeps-dangling-mutex", file="src/patomic-sim.c", expect="C04.3",
         old="\t\tp_mutex_free (pp_atomic_mutex);\n\t\tpp_atomic_mutex = NULL;", new="\t\tp_mutex_free (pp_atomic_mutex);"),
    dict(id="sim-shutdown-frees-local-copy-neutral", file="src/patomic-sim.c", expect=None,
         old="\tif (P_LIKELY (pp_atomic_mutex != NULL)) {\n\t\tp_mutex_free (pp_atomic_mutex);\n\t\tpp_atomic_mutex = NULL;\n\t}",
         new="\tPMutex *mutex = pp_atomic_mutex;\n\n\tif (P_UNLIKELY (mutex == NULL))\n\t\treturn;\n\n\tpp_atomic_mutex = NULL;\n\tp_mutex_free (mutex);"),
    dict(id="sim-shutdown-frees-local-copy-no-reset", file="src/patomic-sim.c", expect="C04.3",
         old="\tif (P_LIKELY (pp_atomic_mutex != NULL)) {\n\t\tp_mutex_free (pp_atomic_mutex);\n\t\tpp_atomic_mutex = NULL;\n\t}",
         new="\tPMutex *mutex = pp_atomic_mutex;\n\n\tif (P_UNLIKELY (mutex == NULL))\n\t\treturn;\n\n\tp_mutex_free (mutex);"),
    dict(id="sim-mutex-never-created", file="src/patomic-sim.c", expect="C04.3",
         old="\tif (P_LIKELY (pp_atomic_mutex == NULL))\n\t\tpp_atomic_mutex = p_mutex_new ();", new="\tif (P_LIKELY (pp_atomic_mutex != NULL))\n\t\tpp_atomic_mutex = p_mutex_new ();"),
    dict(id="c11-add-fetch", file="src/patomic-c11.c", expect="C04.1",
         old="return (pint) __atomic_fetch_add (atomic, val, __ATOMIC_SEQ_CST);", new="return (pint) __atomic_add_fetch (atomic, val, __ATOMIC_SEQ_CST);"),
    dict(id="c11-cas-swapped", file="src/patomic-c11.c", expect="C04.1",
         old="\tpint tmp_int = oldval;\n\n\treturn (pboolean) __atomic_compare_exchange_n (PATOMIC_INT_CAST (atomic),\n\t\t\t\t\t\t       &tmp_int,\n\t\t\t\t\t\t       newval,",
         new="\tpint tmp_int = newval;\n\n\treturn (pboolean) __atomic_compare_exchange_n (PATOMIC_INT_CAST (atomic),\n\t\t\t\t\t\t       &tmp_int,\n\t\t\t\t\t\t       oldval,"),
    dict(id="c11-dec-test-zero", file="src/patomic-c11.c", expect="C04.1",
         old="return (__atomic_fetch_sub (atomic, 1, __ATOMIC_SEQ_CST) == 1) ? TRUE : FALSE;",
         new="return (__atomic_fetch_sub (atomic, 1, __ATOMIC_SEQ_CST) == 0) ? TRUE : FALSE;"),
    dict(id="c11-dec-sub-fetch-neutral", file="src/patomic-c11.c", expect=None,
         old="return (__atomic_fetch_sub (atomic, 1, __ATOMIC_SEQ_CST) == 1) ? TRUE : FALSE;",
         new="return (__atomic_sub_fetch (atomic, 1, __ATOMIC_SEQ_CST) == 0) ? TRUE : FALSE;"),
    dict(id="c11-relaxed", file="src/patomic-c11.c", expect="C04.1",
         old="return (puint) __atomic_fetch_or (atomic, val, __ATOMIC_SEQ_CST);", new="return (puint) __atomic_fetch_or (atomic, val, __ATOMIC_RELAXED);"),
    dict(id="c11-plain-rmw", file="src/patomic-c11.c", expect="C04.2",
         old="return (puint) __atomic_fetch_xor (atomic, val, __ATOMIC_SEQ_CST);",
         new="{ puint o = __atomic_load_n (atomic, __ATOMIC_SEQ_CST); __atomic_store_n (atomic, o ^ val, __ATOMIC_SEQ_CST); return o; }"),
    dict(id="c11-xor-is-or", file="src/patomic-c11.c", expect="C04.1",
         old="return (psize) __atomic_fetch_xor ((volatile pssize *) atomic, val, __ATOMIC_SEQ_CST);",
         new="return (psize) __atomic_fetch_or ((volatile pssize *) atomic, val, __ATOMIC_SEQ_CST);"),
    dict(id="c11-ptr-narrow", file="src/patomic-c11.c", expect="C04.4",
         old="return (pssize) __atomic_fetch_add ((volatile pssize *) atomic, val, __ATOMIC_SEQ_CST);",
         new="return (pssize) __atomic_fetch_add ((volatile pint *) atomic, val, __ATOMIC_SEQ_CST);"),
    dict(id="c11-weak-cas", file="src/patomic-c11.c", expect="C04.1",
         old="\t\t\t\t\t\t       newval,\n\t\t\t\t\t\t       0,", new="\t\t\t\t\t\t       newval,\n\t\t\t\t\t\t       1,"),
    dict(id="sync-get-no-barrier", file="src/patomic-sync.c", expect="C04.2",
         old="#else\n\t__sync_synchronize ();\n#endif\n\treturn *atomic;", new="#else\n#endif\n\treturn *atomic;"),
    dict(id="sync-set-barrier-before-only", file="src/patomic-sync.c", expect="C04.2",
         old="\t*atomic = val;\n#ifdef P_CC_CRAY\n\t__builtin_ia32_mfence ();\n#else\n\t__sync_synchronize ();\n#endif",
         new="\t__sync_synchronize ();\n\t*atomic = val;"),
    dict(id="sync-both-barriers-neutral", file="src/patomic-sync.c", expect=None,
         old="\t*atomic = val;\n#ifdef P_CC_CRAY", new="\t__sync_synchronize ();\n\t*atomic = val;\n#ifdef P_CC_CRAY"),
    dict(id="sync-and-fetch", file="src/patomic-sync.c", expect="C04.1",
         old="return (puint) __sync_fetch_and_and (atomic, val);", new="return (puint) __sync_and_and_fetch (atomic, val);"),
    dict(id="sync-cas-swapped", file="src/patomic-sync.c", expect="C04.1",
         old="return (pboolean) __sync_bool_compare_and_swap (atomic, oldval, newval);", new="return (pboolean) __sync_bool_compare_and_swap (atomic, newval, oldval);"),
    dict(id="sim-access-before-lock", file="src/patomic-sim.c", expect="C04.3",
         old="\tp_mutex_lock (pp_atomic_mutex);\n\toldval = *atomic;\n\t*atomic = oldval + val;", new="\toldval = *atomic;\n\tp_mutex_lock (pp_atomic_mutex);\n\t*atomic = oldval + val;"),
    dict(id="sim-dec-test-old", file="src/patomic-sim.c", expect="C04.1",
         old="is_zero = --(*atomic) == 0;", new="is_zero = (*atomic)-- == 0;"),
    dict(id="sim-dec-test-postfix-neutral", file="src/patomic-sim.c", expect=None,
         old="is_zero = --(*atomic) == 0;", new="is_zero = (*atomic)-- == 1;"),
    dict(id="sim-cas-no-unlock", file="src/patomic-sim.c", expect="C04.3",
         old="\tif ((success = (*atomic == oldval)))\n\t\t*atomic = newval;\n\n\tp_mutex_unlock (pp_atomic_mutex);",
         new="\tif ((success = (*atomic == oldval))) {\n\t\t*atomic = newval;\n\t\treturn success;\n\t}\n\n\tp_mutex_unlock (pp_atomic_mutex);"),
    dict(id="sim-ptr-width", file="src/patomic-sim.c", expect="C04.4",
         old="\tvolatile pssize *ptr = atomic;\n\tpssize oldval;", new="\tvolatile pint *ptr = atomic;\n\tpint oldval;"),
    dict(id="sim-or-plus", file="src/patomic-sim.c", expect="C04.1", count=1,
         old="\toldval = *ptr;\n\t*ptr = oldval | val;", new="\toldval = *ptr;\n\t*ptr = oldval + val;"),
]
