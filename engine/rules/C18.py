"""C18 Allocation failure at any point: structural clauses.

Every allocation site is treated as able to fail (the enumeration over the
k-th allocation is subsumed): the rules look at what each function does with
the result and with what it already holds on every path.
"""
from plint import partial, guards, uaf, resources
from plint.flow import Flow
from plint.ir import calls, strip_casts, cv, line, show, root_var, walk, ap
from plint.units import AnalysisBroken, INFORMATIONAL

RAW_ALLOC = {"malloc", "calloc", "realloc", "free", "strdup", "strndup", "aligned_alloc", "posix_memalign"}
LIST_TAKERS = {"p_list_append": 1, "p_list_prepend": 1}

_cache = {}


def survey(prog):
    """Runs the resource typestate once per process over every function that acquires something."""
    key = id(prog)
    if key in _cache:
        return _cache[key]
    T = resources.Tables(prog)
    reach = reachable_functions(prog, T)
    res = []
    nfun = 0
    for un, u in sorted(prog.units.items()):
        for fn in sorted(u.functions.values(), key=lambda f: f.loc[0]):
            has = any((c.get("callee") in T.acquire) or (c.get("callee") in T.success_takers) for (b, i, c) in fn.calls())
            if not has:
                continue
            nfun += 1
            ps = resources.analyse(fn, T)
            res.append((fn, ps, fn.name in reach))
    _cache[key] = (T, res, nfun, reach)
    return _cache[key]


def reachable_functions(prog, T):
    """Functions reachable from the public API (and the init/shutdown hooks) when branches refuted by the
    constant-argument entry facts are pruned."""
    callees = {}
    for un, u in prog.units.items():
        if un in INFORMATIONAL:
            continue
        for fn in u.functions.values():
            seen = set()

            def on_stmt(st, b, i, stmt, seen=seen):
                for c in calls(stmt):
                    if c.get("callee"):
                        seen.add(c["callee"])
                    for a in c["args"]:
                        a2 = strip_casts(a)
                        if a2 is not None and a2["k"] == "ref" and a2.get("decl") == "func":
                            seen.add(a2["name"])
                for n in walk(stmt):
                    if n["k"] == "asg":
                        r = strip_casts(n["r"])
                        if r is not None and r["k"] == "ref" and r.get("decl") == "func":
                            seen.add(r["name"])
                return [guards.transfer(st, stmt)]
            init = guards.EMPTY
            for (k, op, v) in T.entry_facts.get(fn.name, ()):
                init = guards.add_fact(init, k, op, v) or init
            try:
                Flow(fn, [init], on_stmt, lambda st, b, to, on: guards.edge_assume(st, b, on), max_states=4000).run()
            except AnalysisBroken:
                seen = set(c.get("callee") for (b, i, c) in fn.calls() if c.get("callee"))
            callees[fn.name] = seen
    roots = set()
    for un, u in prog.units.items():
        if un in INFORMATIONAL:
            continue
        for fn in u.functions.values():
            if fn.api or not fn.static and (fn.name.endswith("_init") or fn.name.endswith("_shutdown") or fn.name.endswith("_once") or "_init_" in fn.name):
                roots.add(fn.name)
    reach = set()
    st = list(roots)
    while st:
        x = st.pop()
        if x in reach:
            continue
        reach.add(x)
        st.extend(callees.get(x, ()))
    return reach


def run(prog, rep):
    rep.rule("C18.1", "no use before the check: a possibly-NULL acquisition result is not dereferenced or passed to a dereferencing libc function on a path where it was not tested")
    rep.rule("C18.2", "unwinding: on every failure exit everything acquired earlier in the same call is released, returned or owned by an object that is released (typed free) or returned")
    rep.rule("C18.3", "no use after unwinding: after a release no path uses, re-releases or returns the released expression")
    rep.rule("C18.4", "silent-drop leaks: a freshly acquired object handed to p_list_append/p_list_prepend leaks when the list node cannot be allocated (the list functions report nothing)")
    rep.rule("C18.5", "allocator layering: no unit except pmem.c calls malloc/calloc/realloc/free/strdup, so the replaceable table sees every allocation")
    T, res, nfun, reach = survey(prog)
    n1 = n2 = 0
    for (fn, ps, reachable) in res:
        info = not reachable
        unchecked = [p for p in ps if p[0] == "unchecked"]
        leaks = [p for p in ps if p[0] == "leak" and "failure exit" in p[5] or (p[0] == "leak" and "container" in p[5])]
        n1 += 1
        if unchecked:
            seen = set()
            k = 0
            for (kind, path, acq, at, w, detail) in unchecked:
                if (path, at) in seen:
                    continue
                seen.add((path, at))
                k += 1
                rep.ob("C18.1", fn, "unchecked:%s#%d" % (short(path), k), False,
                       "line %d: %s (acquired at line %s, may be NULL when the allocation fails) is %s before any NULL test" % (at, path, acq, detail), at, w, info=info)
        else:
            rep.ob("C18.1", fn, "unchecked", True, "no acquisition result is used before its NULL test", fn.loc[0])
        n2 += 1
        if leaks:
            k = 0
            for (kind, path, acq, at, w, detail) in leaks:
                k += 1
                rep.ob("C18.2", fn, "unwind:%s#%d" % (short(path), k), False,
                       "line %d: %s acquired at line %s is still held at this %s: %s" % (at, path, acq, "failure exit" if "failure" in detail else "point", detail), at, w, info=info)
        else:
            rep.ob("C18.2", fn, "unwind", True, "every failure exit releases or hands over what the call acquired before", fn.loc[0])
    rep.floor("C18.1", 60, "functions that acquire resources")
    rep.floor("C18.2", 60)

    # ---- C18.3 -------------------------------------------------------------------------------
    rel = uaf.releasers_for(prog)
    n3 = 0
    for un, u in sorted(prog.units.items()):
        for fn in sorted(u.functions.values(), key=lambda f: f.loc[0]):
            if not any(c.get("callee") in rel for (b, i, c) in fn.calls()):
                continue
            n3 += 1
            ps = uaf.check_function(fn, rel)
            if ps:
                k, p, ln, w, at = ps[0]
                rep.ob("C18.3", fn, "uaf:" + short(p), False, "line %d: %s %s after it was released at line %s (%d such use(s) in this function)" % (
                    ln, p, {"use": "is dereferenced", "double": "is released again", "pass": "is passed to a call", "return": "is returned"}[k], at, len(ps)), ln, w,
                    info=fn.name not in reach)
            else:
                rep.ob("C18.3", fn, "uaf", True, "nothing is touched after its release", fn.loc[0])
    rep.floor("C18.3", 60)

    # ---- C18.4 -------------------------------------------------------------------------------
    n4 = 0
    for un, u in sorted(prog.units.items()):
        # sites are attributed to the function through which they are entered (inlined views of the unit's roots), and numbered
        # per callee in source order: moving a site into a static helper does not rename it
        for fn in sorted(u.roots(skip=tuple(sorted(set(T.fresh) & set(u.functions)))), key=lambda f: f.loc[0]):
            fresh_locals = set()
            for b, i, n in fn.nodes():
                if n["k"] == "asg":
                    r = strip_casts(n["r"])
                    if r is not None and r["k"] == "call" and r.get("callee") in T.fresh and r.get("callee") not in LIST_TAKERS and strip_casts(n["l"])["k"] == "ref":
                        fresh_locals.add(strip_casts(n["l"])["name"])
                    if r is not None and r["k"] == "ref" and r["name"].startswith("__ret_") and any(r["name"].startswith("__ret_%s_" % t_) for t_ in T.fresh) \
                            and strip_casts(n["l"])["k"] == "ref":
                        fresh_locals.add(strip_casts(n["l"])["name"])
            sites = []
            for b, i, c in fn.calls():
                if c.get("callee") in LIST_TAKERS:
                    a = strip_casts(c["args"][LIST_TAKERS[c["callee"]]])
                    direct = a is not None and a["k"] == "call" and a.get("callee") in T.fresh
                    viaL = a is not None and a["k"] == "ref" and (a["name"] in fresh_locals or any(a["name"].startswith("__ret_%s_" % t_) for t_ in T.fresh))
                    if direct or viaL:
                        sites.append((line(c), c["loc"][1] if c.get("loc") else 0, c, a))
            per = {}
            for (ln_, col_, c, a) in sorted(sites, key=lambda t: (t[0], t[1])):
                per[c["callee"]] = per.get(c["callee"], 0) + 1
                n4 += 1
                rep.ob("C18.4", fn, "%s#%d" % (c["callee"], per[c["callee"]]), False,
                       "line %d: %s is handed to %s; when the list node cannot be allocated the list is returned unchanged and the object is lost (leak), and nothing is reported" %
                       (line(c), show(a), c["callee"]), c, info=fn.name not in reach)
    if n4 == 0:
        rep.ob("C18.4", ("plist.c", "p_list_append"), "none", True, "no freshly acquired object is handed to the silent list functions", None)

    # ---- C18.5 -------------------------------------------------------------------------------
    pm = prog.unit("pmem.c")
    ctl = [c for f in pm.functions.values() for (b, i, c) in f.calls() if c.get("callee") in RAW_ALLOC]
    bad = []
    for un, u in sorted(prog.units.items()):
        if un == "pmem.c":
            continue
        for fn in u.functions.values():
            for b, i, c in fn.calls():
                if c.get("callee") in RAW_ALLOC:
                    bad.append((fn, c))
    if bad:
        for (fn, c) in bad:
            rep.ob("C18.5", fn, "raw:" + c["callee"], False, "line %d: %s calls %s directly: the allocation bypasses the replaceable allocator table" % (line(c), fn.name, c["callee"]), c)
    else:
        rep.ob("C18.5", pm.fn("p_mem_restore_vtable") if "p_mem_restore_vtable" in pm.functions else ("pmem.c", "?"), "layering", True,
               "no raw allocator call outside pmem.c (positive control: pmem.c refers to malloc/realloc/free)", None)
    # positive control: the raw allocator must be visible in pmem.c
    ctl2 = []
    for f in pm.functions.values():
        for b, i, n in f.nodes():
            if n["k"] == "ref" and n.get("decl") == "func" and n["name"] in RAW_ALLOC:
                ctl2.append(n)
    if not ctl and not ctl2:
        raise AnalysisBroken("C18.5 positive control failed: pmem.c does not reference the raw allocator")
    rep.floor("C18.5", 1)

    # ---- C18.6 -------------------------------------------------------------------------------
    rep.rule("C18.6", "unwinding through the destructor: where a function hands an object it allocated itself to the type's destructor, every member the destructor "
                      "dereferences without a NULL test (directly, through the functions it calls, or under an element count) is non-NULL at that call - "
                      "members that are still the allocation's zero fill or whose own allocation just failed are NULL there")
    summ = partial.needs(prog, units=set(un for un in prog.units if un not in INFORMATIONAL))
    destr = partial.destructors(prog)
    n6 = 0
    for un, u in sorted(prog.units.items()):
        if un in INFORMATIONAL:
            continue
        for f0 in sorted(u.functions.values(), key=lambda f: f.loc[0]):
            fn = u.fn(f0.name)
            try:
                found = partial.sites(fn, summ, destr)
            except AnalysisBroken:
                continue
            by_call = {}
            for (c, cal, v, bad, w) in found:
                ent = by_call.setdefault((line(c), cal, v), [c, None, None])
                if bad is not None and ent[1] is None:
                    ent[1], ent[2] = bad, w
            k6 = {}
            for (ln, cal, v), (c, bad, w) in sorted(by_call.items(), key=lambda kv: kv[0]):
                k6[cal] = k6.get(cal, 0) + 1
                n6 += 1
                inst = "partial:%s#%d" % (cal, k6[cal])
                if bad is None:
                    rep.ob("C18.6", fn, inst, True, "%s (%s) runs only with the members it dereferences set, or tests them" % (cal, v), c)
                else:
                    (fld, cnt, l2, how, why) = bad
                    rep.ob("C18.6", fn, inst, False, "line %d: %s (%s) is called while %s; %s dereferences that member at line %d (%s) without a NULL test: "
                           "the unwinding of a failed allocation crashes instead of reporting the failure" % (ln, cal, v, why, cal, l2, how), c, w, info=f0.name not in reach)
    # the same for a member that holds the result of a call that can fail: stored without a test, it reaches a libc routine that
    # dereferences it (the name argument of sem_open / shm_open, ...) only after a NULL test on the path - the constructor's own, or
    # the argument check of the static helper it calls (inlined here); remove that check as "dead code" and an allocation failure in
    # the key derivation becomes sem_open (NULL)
    fallible = set(T.fresh) | {"p_malloc", "p_malloc0", "p_strdup"}
    nm6 = 0
    for un, u in sorted(prog.units.items()):
        if un in INFORMATIONAL:
            continue
        for f0 in sorted(u.functions.values(), key=lambda f: f.loc[0]):
            if not any(c.get("callee") in fallible for (b, i, c) in f0.calls()):
                continue
            fn = u.fn(f0.name)
            try:
                um = partial.unchecked_members(fn, fallible)
            except AnalysisBroken:
                continue
            stores = [n for (b, i, n) in fn.nodes(elsewhere=True) if n["k"] == "asg" and strip_casts(n["l"])["k"] == "member" and strip_casts(n["r"]) is not None
                      and strip_casts(n["r"])["k"] == "call" and strip_casts(n["r"]).get("callee") in fallible]
            if not stores:
                continue
            nm6 += 1
            rep.ob("C18.6", fn, "member-result", not um, "members filled from calls that can return NULL reach dereferencing libc routines only behind a NULL test" if not um else
                   "line %d: %s holds the untested result of a call that returns NULL when an allocation fails (stored at line %d) and is passed to %s, which dereferences it: "
                   "the failed allocation crashes the process instead of failing the call" % (line(um[0][0]), um[0][1], um[0][3], um[0][2]), um[0][0] if um else fn.loc[0],
                   um[0][4] if um else None, info=f0.name not in reach)
    # (the floor counts call sites; a `goto fail` single-exit form merges the two of p_shm_new into one)
    rep.floor("C18.6", 4 + 4)


def short(p):
    return "".join(ch if ch.isalnum() or ch in "_->." else "_" for ch in str(p))[:40]


# generic robustness battery: renaming every local/parameter in these files must not change any verdict
RENAME_LOCALS = ['src/pinifile.c', 'src/pdir-posix.c', 'src/pshm-posix.c', 'src/pipc.c', 'src/psocket.c']

SELFTEST = [
    dict(id="semaphore-create-handle-key-check-dropped", file="src/psemaphore-posix.c", expect="C18.6",
         old="\tif (P_UNLIKELY (sem == NULL || sem->platform_key == NULL)) {\n\t\tp_error_set_error_p (error,\n\t\t\t\t     (pint) P_ERROR_IPC_INVALID_ARGUMENT,\n\t\t\t\t     0,\n\t\t\t\t     \"Invalid input argument\");\n\t\treturn FALSE;\n\t}\n\n\tinit_val = sem->init_val;",
         new="\tinit_val = sem->init_val;"),
    dict(id="list-append-null-test-dropped", file="src/plist.c", expect="C18.1",
         old="\tif (P_UNLIKELY ((item = p_malloc0 (sizeof (PList))) == NULL)) {\n\t\tP_ERROR (\"PList::p_list_append: failed to allocate memory\");\n\t\treturn list;\n\t}\n",
         new="\titem = p_malloc0 (sizeof (PList));\n"),
    dict(id="ini-param-second-alloc-no-unwind", file="src/pinifile.c", expect="C18.2",
         old="\tif (P_UNLIKELY ((ret->value = p_strdup (val)) == NULL)) {\n\t\tp_free (ret->name);\n\t\tp_free (ret);", new="\tif (P_UNLIKELY ((ret->value = p_strdup (val)) == NULL)) {\n\t\tp_free (ret);"),
    dict(id="mutex-init-failure-leaks", file="src/pmutex-posix.c", expect="C18.2",
         old="\t\tP_ERROR (\"PMutex::p_mutex_new: pthread_mutex_init() failed\");\n\t\tp_free (ret);\n\t\treturn NULL;", new="\t\tP_ERROR (\"PMutex::p_mutex_new: pthread_mutex_init() failed\");\n\t\treturn NULL;"),
    dict(id="platform-key-hash-leak", file="src/pipc.c", expect="C18.2",
         old="\thash_str = p_crypto_hash_get_string (sha1);\n\tp_crypto_hash_free (sha1);\n\n\tif (P_UNLIKELY (hash_str == NULL))\n\t\treturn NULL;",
         new="\tif (P_UNLIKELY ((hash_str = p_crypto_hash_get_string (sha1)) == NULL))\n\t\treturn NULL;\n\n\tp_crypto_hash_free (sha1);"),
    dict(id="rwlock-general-fallthrough-again", file="src/prwlock-general.c", expect="C18.3",
         old="\t\tP_ERROR (\"PRWLock::p_rwlock_new: failed to allocate mutex\");\n\t\tp_free (ret);\n\t\treturn NULL;", new="\t\tP_ERROR (\"PRWLock::p_rwlock_new: failed to allocate mutex\");\n\t\tp_free (ret);"),
    dict(id="dir-new-unchecked-again", file="src/pdir-posix.c", expect="C18.1",
         old="\tif (P_UNLIKELY (ret->path == NULL || ret->orig_path == NULL)) {", new="\tif (P_UNLIKELY (FALSE)) {"),
    dict(id="raw-malloc-in-plist", file="src/plist.c", expect="C18.5",
         old="\tif (P_UNLIKELY ((item = p_malloc0 (sizeof (PList))) == NULL)) {\n\t\tP_ERROR (\"PList::p_list_prepend", new="\tif (P_UNLIKELY ((item = calloc (1, sizeof (PList))) == NULL)) {\n\t\tP_ERROR (\"PList::p_list_prepend"),
    dict(id="shm-new-name-unwind-dropped", file="src/pshm-posix.c", expect="C18.2",
         old="\t\t\t\t     \"Failed to allocate memory for segment name\");\n\t\tp_shm_free (ret);\n\t\treturn NULL;", new="\t\t\t\t     \"Failed to allocate memory for segment name\");\n\t\treturn NULL;"),
    dict(id="hash-table-new-unwinds-with-destructor", expect="C18.6", edits=[
        dict(file="src/phashtable.c",
             old="\tif (P_UNLIKELY ((ret->table = p_malloc0 (P_HASH_TABLE_SIZE * sizeof (PHashTableNode *))) == NULL)) {\n\t\tP_ERROR (\"PHashTable::p_hash_table_new: failed(2) to allocate memory\");\n\t\tp_free (ret);",
             new="\tret->size = P_HASH_TABLE_SIZE;\n\n\tif (P_UNLIKELY ((ret->table = p_malloc0 (ret->size * sizeof (PHashTableNode *))) == NULL)) {\n\t\tP_ERROR (\"PHashTable::p_hash_table_new: failed(2) to allocate memory\");\n\t\tp_hash_table_free (ret);"),
        dict(file="src/phashtable.c", old="\tret->size = P_HASH_TABLE_SIZE;\n\n\treturn ret;", new="\treturn ret;")]),
    dict(id="hash-table-new-destructor-with-zero-size-neutral", file="src/phashtable.c", expect=None,
         old="\t\tP_ERROR (\"PHashTable::p_hash_table_new: failed(2) to allocate memory\");\n\t\tp_free (ret);",
         new="\t\tP_ERROR (\"PHashTable::p_hash_table_new: failed(2) to allocate memory\");\n\t\tp_hash_table_free (ret);"),
    dict(id="socket-new-via-helper-neutral", file="src/plibraryloader-posix.c", expect=None,
         old="\t\tpp_library_loader_clean_handle (handle);\n\t\treturn NULL;", new="\t\tdlclose (handle);\n\t\treturn NULL;"),
]
