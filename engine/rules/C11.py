"""C11 Crypto hashes: structural clauses (dispatch table, dispatcher typestate, hex
encoding, full-width length, buffer geometry, reset completeness, padding stores, multi-word addition)."""
import re

from plint import guards
from plint.flow import Flow
from plint.ir import calls, strip_casts, cv, line, show, root_var, walk, ap
from plint.units import AnalysisBroken

# standard digest sizes in bytes, by enumerator
DIGEST = {"P_CRYPTO_HASH_TYPE_MD5": 16, "P_CRYPTO_HASH_TYPE_SHA1": 20, "P_CRYPTO_HASH_TYPE_SHA2_224": 28,
          "P_CRYPTO_HASH_TYPE_SHA2_256": 32, "P_CRYPTO_HASH_TYPE_SHA2_384": 48, "P_CRYPTO_HASH_TYPE_SHA2_512": 64,
          "P_CRYPTO_HASH_TYPE_SHA3_224": 28, "P_CRYPTO_HASH_TYPE_SHA3_256": 32, "P_CRYPTO_HASH_TYPE_SHA3_384": 48,
          "P_CRYPTO_HASH_TYPE_SHA3_512": 64, "P_CRYPTO_HASH_TYPE_GOST": 32}
# enumerator -> token that the variant's constructor name must contain
CTOR = {"MD5": "md5", "SHA1": "sha1", "SHA2_224": "sha2_224", "SHA2_256": "sha2_256", "SHA2_384": "sha2_384", "SHA2_512": "sha2_512",
        "SHA3_224": "sha3_224", "SHA3_256": "sha3_256", "SHA3_384": "sha3_384", "SHA3_512": "sha3_512", "GOST": "gost3411"}
SLOTS = ("create", "update", "finish", "digest", "reset", "free")
ALGO_UNITS = ("pcryptohash-md5.c", "pcryptohash-sha1.c", "pcryptohash-sha2-256.c", "pcryptohash-sha2-512.c",
              "pcryptohash-sha3.c", "pcryptohash-gost3411.c")
MEMFUNCS = ("memset", "memcpy", "__builtin_memset", "__builtin_memcpy", "__builtin___memset_chk", "__builtin___memcpy_chk")


def fn_of_ref(e):
    e = strip_casts(e)
    if e is not None and e["k"] == "ref" and e.get("decl") == "func":
        return e["name"]
    return None


def run(prog, rep):
    rep.rule("C11.1", "dispatch table: every PCryptoHashType enumerator has a case whose six slots come from one algorithm unit, a variant-specific constructor, the standard digest length (not larger than the state array); the range test covers exactly the enumerators")
    rep.rule("C11.2", "dispatcher typestate: update runs only while open; finish runs only while open, the digest is read only from a finished state and every exit after finish leaves closed=TRUE; reset reopens; get_digest writes only after hash_len <= *len")
    rep.rule("C11.3", "hex encoding: table 0123456789abcdef, hash_len iterations writing high then low nibble at 2i and 2i+1, zero-filled buffer of 2*hash_len+1 bytes")
    rep.rule("C11.4", "full-width length: the psize length of an update is never compared or accumulated through a narrowing conversion unless its high part is accounted as well")
    rep.rule("C11.5", "buffer geometry: the block size used for the fill level mask, the fill test, the whole-block loop and the copies equals the byte size of the block buffer; the padding constants satisfy the standard's identity")
    rep.rule("C11.6", "reset completeness: every field update/finish write (transitively) is re-initialised by reset; configuration fields are written only at creation")
    rep.rule("C11.7", "padding stores: when two padding bytes may land on the same buffer byte (indices not provably distinct) the later store must OR its bits in")
    hu = prog.unit("pcryptohash.c")
    algo_fn = {}
    for un in ALGO_UNITS:
        for f in prog.unit(un).functions.values():
            algo_fn[f.name] = un

    # ---- C11.1 -------------------------------------------------------------------
    nw = hu.fn("p_crypto_hash_new")
    enum = hu.enums.get("PCryptoHashType_")
    if not enum:
        raise AnalysisBroken("enum PCryptoHashType_ not found")
    by_val = {v: n for (n, v) in enum}
    sw = [b for b in nw.blocks.values() if b.term and b.term.get("kind") == "switch"]
    # which slots are installed for which hash type: facts on the type at every store into a slot (a switch, an if chain,
    # in place or in a static helper - the inlined view covers all of them)
    cases = {}
    tkeys = {nw.param_names()[0]}

    def on_slot(st, b, i, stmt):
        for n in walk(stmt):
            if n["k"] == "asg":
                l = strip_casts(n["l"])
                if l is not None and l["k"] == "member" and (l["field"] in SLOTS or l["field"] == "hash_len"):
                    v = None
                    for k_ in list(tkeys) + ["%s->type" % root_var(l)]:
                        if v is None:
                            v = guards.lookup(st, k_)
                    if v is not None:
                        ent = cases.setdefault(v, [{}, None])
                        if l["field"] in SLOTS:
                            ent[0][l["field"]] = fn_of_ref(n["r"])
                        else:
                            ent[1] = cv(n["r"]) if cv(n["r"]) is not None else guards.eval_const(n["r"], st)
                    else:
                        row_stores.append((l["field"], n["r"]))
        return [guards.transfer(st, stmt)]
    row_stores = []
    Flow(nw, [guards.EMPTY], on_slot, lambda st, b, to, on: guards.edge_assume(st, b, on)).run()
    if not cases and row_stores:
        # table-driven form: the slots are copied from one row of a constant table selected by the type,
        # `row = &table[type - FIRST]; obj->slot = row->slot` (or `table[type - FIRST].slot`): evaluate the row per enumerator
        tp = nw.param_names()[0]

        def index_of(e, tval):
            e = strip_casts(e)
            if e is None:
                return None
            if cv(e) is not None:
                return cv(e)
            if e["k"] == "ref":
                if e["name"] == tp:
                    return tval
                r_ = nw.resolve(e)
                return index_of(r_, tval) if r_ is not e else None
            if e["k"] == "bin" and e["op"] in ("+", "-"):
                a, b_ = index_of(e["l"], tval), index_of(e["r"], tval)
                return None if a is None or b_ is None else (a + b_ if e["op"] == "+" else a - b_)
            return None

        def row_of(e, tval):
            """the initialiser of the table row a pointer / element expression denotes for this type value"""
            e = strip_casts(e)
            if e is None:
                return None, None
            if e["k"] == "un" and e.get("op") == "&":
                return row_of(e["e"], tval)
            if e["k"] == "ref" and e.get("decl") == "local":
                r_ = nw.resolve(e)
                return row_of(r_, tval) if r_ is not e else (None, None)
            if e["k"] == "idx":
                g = strip_casts(e["base"])
                gl = hu.globals.get(g["name"]) if g is not None and g["k"] == "ref" else None
                ix = index_of(e["i"], tval)
                items = (gl.get("init") or {}).get("items") if gl else None
                if items is not None and ix is not None and 0 <= ix < len(items):
                    return items[ix], g["name"]
            return None, None
        for (name_, val) in enum:
            ent = cases.setdefault(val, [{}, None])
            for (fld, rhs) in row_stores:
                r = strip_casts(rhs)
                if r is None or r["k"] != "member":
                    continue
                row, gname = row_of(r["base"], val)
                rec = hu.records.get(r.get("rec"))
                if row is None or rec is None or not row.get("items"):
                    continue
                names_ = [f_["name"] for f_ in rec.fields]
                if r["field"] not in names_ or names_.index(r["field"]) >= len(row["items"]):
                    continue
                item = row["items"][names_.index(r["field"])]
                if fld in SLOTS:
                    ent[0][fld] = fn_of_ref(item)
                else:
                    ent[1] = cv(item)
        cases = dict((k_, v_) for k_, v_ in cases.items() if v_[0] or v_[1] is not None)
    cases = dict((k_, (v_[0], v_[1])) for k_, v_ in cases.items())
    if not cases:
        raise AnalysisBroken("p_crypto_hash_new: no slot store under a known hash type")
    for (name, val) in enum:
        short = name.replace("P_CRYPTO_HASH_TYPE_", "")
        if val not in cases:
            rep.ob("C11.1", nw, "case:" + short, False, "enumerator %s has no case in the dispatch switch: the object is created without function slots" % name, nw.loc[0])
            continue
        slots, hlen = cases[val]
        units_ = set(algo_fn.get(f) for f in slots.values())
        okc = set(slots) == set(SLOTS) and None not in slots.values() and len(units_) == 1 and None not in units_
        msg = ""
        if not okc:
            msg = "slots of %s come from %s (%s)" % (short, sorted(str(x) for x in units_), ", ".join("%s=%s" % kv for kv in sorted(slots.items())))
        else:
            ctor = slots["create"]
            if CTOR.get(short) is None or CTOR[short] not in ctor:
                okc, msg = False, "%s is constructed by %s" % (short, ctor)
            # each slot function name must end with its role
            for role, fname in slots.items():
                want = "new" if role == "create" else role
                if not fname.endswith("_" + want):
                    okc, msg = False, "slot %s of %s is wired to %s" % (role, short, fname)
        if okc and hlen != DIGEST.get(name):
            okc, msg = False, "%s: hash_len is %s, the standard digest has %s bytes" % (short, hlen, DIGEST.get(name))
        if okc:
            # digest length must fit the state array the digest function returns
            au = prog.unit(next(iter(units_)))
            dfn = au.fn(slots["digest"])
            fld = None
            for (b, i, r) in dfn.returns():
                e = strip_casts(r.get("e"))
                if e is not None and e["k"] == "member":
                    fld = e
            if fld is not None:
                rec = au.records.get(fld.get("rec"))
                f = rec.field(fld["field"]) if rec else None
                if f is not None and f.get("bits") and hlen * 8 > f["bits"]:
                    okc, msg = False, "%s: hash_len %d exceeds the %d-byte state array %s" % (short, hlen, f["bits"] // 8, fld["field"])
        rep.ob("C11.1", nw, "case:" + short, okc, "%s: six slots from %s, constructor %s, %d-byte digest" % (short, next(iter(units_)) if units_ else "?", slots.get("create"), hlen or 0)
               if okc else msg, nw.loc[0])
    # range test: accepted range == [min, max] of the enumerators
    lo, hi = min(by_val), max(by_val)
    got = []
    for b, i, s in nw.stmts():
        for n in walk(s):
            if n["k"] == "bin" and n["op"] in (">=", "<=", ">", "<") and cv(n["r"]) is not None and root_var(n["l"]) == nw.param_names()[0]:
                got.append((n["op"], cv(n["r"])))
    forms = ([(">=", lo), ("<=", hi)], [(">", lo - 1), ("<", hi + 1)],          # accepted range
             [("<", lo), (">", hi)], [("<=", lo - 1), (">=", hi + 1)])          # rejected complement (De Morgan form)
    okr = any(sorted(got) == sorted(f_) for f_ in forms)
    rep.ob("C11.1", nw, "range", okr, "the type range test accepts exactly [%d, %d]" % (lo, hi) if okr else "the type range test is %s, enumerators span [%d, %d]" % (got, lo, hi), nw.loc[0])
    rep.floor("C11.1", 12)

    # ---- C11.2 dispatcher typestate --------------------------------------------------
    def slot_calls(fn):
        out = []
        for b, i, c in fn.calls():
            if c.get("callee") is None and c.get("fnptr") is not None:
                fp = strip_casts(c["fnptr"])
                if fp is not None and fp["k"] == "member":
                    out.append((b, i, c, fp["field"]))
        return out

    def facts_at(fn, pred):
        found = []

        def on_stmt(st, b, i, stmt):
            facts, closed_set = st
            for c in calls(stmt):
                if pred(c):
                    found.append((facts, c, closed_set, flow.witness_lines(*flow.cur)))
            for n in walk(stmt):
                if n["k"] == "asg":
                    l = strip_casts(n["l"])
                    if l is not None and l["k"] == "member" and l["field"] == "closed":
                        closed_set = cv(n["r"])
            return [(guards.transfer(facts, stmt), closed_set)]

        def on_edge(st, b, to, on):
            f2 = guards.edge_assume(st[0], b, on)
            return None if f2 is None else (f2, st[1])
        flow = Flow(fn, [(guards.EMPTY, None)], on_stmt, on_edge)
        flow.run()
        return found

    def slot_pred(field):
        def p(c):
            if c.get("callee") is None and c.get("fnptr") is not None:
                fp = strip_casts(c["fnptr"])
                return fp is not None and fp["k"] == "member" and fp["field"] == field
            return False
        return p

    def open_known(facts, hp):
        return guards.lookup(facts, "%s->closed" % hp) == 0

    up = hu.fn("p_crypto_hash_update")
    hp = up.param_names()[0]
    f = facts_at(up, slot_pred("update"))
    ok = bool(f) and all(open_known(x[0], hp) for x in f)
    rep.ob("C11.2", up, "update", ok, "the algorithm's update runs only with closed tested false" if ok else
           "update reaches the algorithm after the digest was finished (closed not tested): bytes are hashed into a finalised state", up.loc[0])
    # the digest slot of every algorithm returns the address of an array embedded in the context: it cannot be NULL for the
    # non-NULL context the object holds, so a "digest == NULL" exit is not a path on which the object is left in any state
    dig_nonnull = True
    dig_writes = []
    dig_fns = sorted(set(v_[0].get("digest") for v_ in cases.values() if v_[0].get("digest")))
    for dname in dig_fns:
        au = prog.unit(algo_fn[dname]) if dname in algo_fn else None
        dfn = au.fn(dname) if au else None
        okn = dfn is not None and bool(dfn.returns())
        for (b, i, r) in (dfn.returns() if dfn else []):
            e = dfn.resolve(r.get("e")) if r.get("e") is not None else None        # (also through a typed local)
            rec = au.records.get(e.get("rec")) if (e is not None and e["k"] == "member") else None
            f = rec.field(e["field"]) if rec else None
            if not (f is not None and "[" in (f.get("ts") or "") and root_var(e) == dfn.param_names()[0]):
                okn = False
        if not okn:
            dig_nonnull = False
        # ... and reads only: the dispatcher finishes once but calls the digest slot on every read, so a digest function that
        # modifies the context (a byte swap moved here from finish, a lazily applied padding) makes the second read differ
        if dfn is not None:
            dv = au.fn(dname)
            p0 = dv.param_names()[0]
            # pointers into the context: the parameter, its copies, and pointer locals computed from them (`data = ctx->hash`)
            into = set(dv.value_aliases(p0))
            grew = True
            while grew:
                grew = False
                for (b, i, n) in dv.nodes(elsewhere=True):
                    tgt = src = None
                    if n["k"] == "asg" and strip_casts(n["l"]) is not None and strip_casts(n["l"])["k"] == "ref":
                        tgt, src, tt = strip_casts(n["l"])["name"], n["r"], au.types[strip_casts(n["l"]).get("t", 0)]
                    elif n["k"] == "decl" and n.get("init") is not None:
                        tgt, src, tt = n["name"], n["init"], au.types[n.get("t", 0)]
                    if tgt is not None and tgt not in into and tt.get("k") in ("ptr", "arr") and root_var(src) in into:
                        into.add(tgt)
                        grew = True
            wr = []
            for (b, i, n) in dv.nodes(elsewhere=True):
                if n["k"] == "asg" and strip_casts(n["l"]) is not None and strip_casts(n["l"])["k"] != "ref" and root_var(n["l"]) in into:
                    wr.append(n)
                if n["k"] == "un" and ("++" in n.get("op", "") or "--" in n.get("op", "")) and strip_casts(n["e"])["k"] != "ref" and root_var(n["e"]) in into:
                    wr.append(n)
                if n["k"] == "call" and any(root_var(a) in into for a in n.get("args", ())):
                    wr.append(n)
            if wr:
                dig_writes.append((dname, wr[0]))

    def finish_flow(fn):
        """per path: was finish called, was closed stored, which variable holds the digest pointer"""
        digs, exits, fins = [], [], []

        def on_stmt(st, b, i, stmt):
            facts, closed_set, finished, dvar, tested = st
            for n in walk(stmt):
                if n["k"] == "call" and slot_pred("finish")(n):
                    fins.append((facts, closed_set, tested))
                    finished = True
                if n["k"] == "call" and slot_pred("digest")(n):
                    digs.append((facts, finished))
                if n["k"] == "asg":
                    l = strip_casts(n["l"])
                    if l is not None and l["k"] == "member" and l["field"] == "closed":
                        closed_set = cv(n["r"])
                    r = strip_casts(n["r"])
                    if l is not None and l["k"] == "ref" and r is not None and r["k"] == "call" and slot_pred("digest")(r):
                        dvar = l["name"]
            if stmt.get("k") == "decl" and stmt.get("init") is not None:
                r = strip_casts(stmt["init"])
                if r is not None and r["k"] == "call" and slot_pred("digest")(r):
                    dvar = stmt.get("name")
            if stmt.get("k") == "ret":
                exits.append((guards.transfer(facts, stmt), closed_set, finished, dvar, flow.witness_lines(*flow.cur), line(stmt)))
            return [(guards.transfer(facts, stmt), closed_set, finished, dvar, tested)]

        def on_edge(st, b, to, on):
            f2 = guards.edge_assume(st[0], b, on)
            if f2 is not None and to == fn.exit and not (b.stmts and b.stmts[-1].get("k") == "ret"):
                exits.append((f2, st[1], st[2], st[3], flow.witness_lines(*flow.cur), fn.loc[0]))
            if f2 is None:
                return None
            # the object was seen open on this path and nothing but this function's own store changed the flag since
            tested = st[4] or (st[1] is None and guards.lookup(f2, "%s->closed" % fn.param_names()[0]) == 0)
            return (f2,) + st[1:4] + (tested,)
        flow = Flow(fn, [(guards.EMPTY, None, False, None, False)], on_stmt, on_edge)
        flow.run()
        return fins, digs, exits

    for gname in ("p_crypto_hash_get_string", "p_crypto_hash_get_digest"):
        g = hu.fn(gname)
        hp = g.param_names()[0]
        fins, digs, exits = finish_flow(g)
        ok = bool(fins) and all(x[2] or open_known(x[0], hp) for x in fins)
        msg = "finish is called on an already finished hash (reading the digest twice changes it)" if not ok else ""
        at = g.loc[0]
        # the digest is read only from a finished state: closed on entry, or finish ran on this path
        for (facts, finished) in digs:
            was_closed = any(fk == "%s->closed" % hp and fop == "!=" and fv == 0 for (fk, fop, fv) in facts) or guards.lookup(facts, "%s->closed" % hp) == 1
            if not was_closed and not finished:
                ok, msg = False, "the digest is read on a path where the hash was neither finished before nor finished now"
        # every way out of the call after finish ran leaves the object marked closed (a later read would finish a second
        # time, a later update would be hashed into a finalised state)
        for (facts, closed_set, finished, dvar, path, ln) in exits:
            if not finished or closed_set == 1:
                continue
            if dig_nonnull and dvar is not None and guards.lookup(facts, dvar) == 0:
                continue        # exit taken only for a NULL digest pointer, which the algorithms never return
            ok, at = False, ln
            msg = "line %d: the call returns after finish ran without the hash being marked closed (path %s): the next read finishes again and an update is hashed into the finalised state" % (ln, " -> ".join(path[-6:]))
        if not digs:
            ok, msg = False, "the digest slot is never read"
        rep.ob("C11.2", g, "finish-once", ok, "finish runs only while open, the digest is read only from a finished state, and every exit after finish leaves the hash marked closed" if ok else msg, at)
    rep.ob("C11.2", nw, "digest:readonly", bool(dig_fns) and not dig_writes, "the %d digest slots only read their context: reading the result is repeatable" % len(dig_fns) if not dig_writes else
           "%s:%d: %s modifies its context (or hands it to a call): the dispatcher calls the digest slot on every read of a finished hash, so the second read returns a different digest"
           % (algo_fn.get(dig_writes[0][0]), line(dig_writes[0][1]), dig_writes[0][0]), nw.loc[0])
    rep.ob("C11.2", nw, "digest:nonnull", bool(dig_fns) and dig_nonnull, "the %d digest slots return the address of an array embedded in the context (never NULL)" % len(dig_fns) if (dig_fns and dig_nonnull) else
           "a digest slot may return something other than an array embedded in its context: the NULL-digest exits of the readers are then real", hu.fn("p_crypto_hash_new").loc[0])
    rs = hu.fn("p_crypto_hash_reset")
    rsl = [x for x in slot_calls(rs) if x[3] == "reset"]
    st = [n for (b, i, n) in rs.nodes() if n["k"] == "asg" and strip_casts(n["l"])["k"] == "member" and strip_casts(n["l"])["field"] == "closed" and cv(n["r"]) == 0]
    rep.ob("C11.2", rs, "reset", len(rsl) == 1 and len(st) == 1, "reset re-initialises the algorithm state and reopens the hash" if (len(rsl) == 1 and len(st) == 1) else
           "reset does not both re-initialise the state and clear closed", rs.loc[0])
    # ... whatever state the hash is in: an open context already holds the bytes of earlier updates, and only the algorithm's reset
    # discards them ("since creation or the last reset").  Every path with a non-NULL hash passes the reset slot and the store
    skipped = []
    if len(rsl) == 1 and len(st) == 1:
        hp_ = rs.param_names()[0]

        def rs_stmt(st_, b, i, stmt):
            facts, did = st_
            for n in walk(stmt):
                if n is rsl[0][2]:
                    did = did | {"slot"}
                if n is st[0]:
                    did = did | {"open"}
            if stmt["k"] == "ret":
                if did != {"slot", "open"} and guards.lookup(facts, hp_) != 0:
                    skipped.append(line(stmt))
                return []
            return [(guards.transfer(facts, stmt), did)]

        def rs_edge(st_, b, to, on):
            f2 = guards.edge_assume(st_[0], b, on)
            return None if f2 is None else (f2, st_[1])
        fl_ = Flow(rs, [(guards.EMPTY, frozenset())], rs_stmt, rs_edge).run()
        for (parent, (facts, did)) in fl_.exit_states():
            if did != {"slot", "open"} and guards.lookup(facts, hp_) != 0:
                skipped.append(rs.loc[0])
    rep.ob("C11.2", rs, "reset:unconditional", len(rsl) == 1 and len(st) == 1 and not skipped, "every path through reset with a hash object re-initialises the state and reopens it" if not skipped else
           "line %d: reset returns without having run the algorithm's reset on a path with a valid hash (a hash that is still open keeps the bytes of its earlier updates: "
           "update (A), reset, update (B) yields H(A||B))" % skipped[0], skipped[0] if skipped else rs.loc[0])
    gd = hu.fn("p_crypto_hash_get_digest")
    cp = facts_at(gd, lambda c: c.get("callee") in MEMFUNCS)
    hp = gd.param_names()[0]
    lp = gd.param_names()[2]
    okb = bool(cp)
    for (facts, c, cs, path) in cp:
        fits = any("hash_len" in fk and lp in fk and ((fk.startswith("(%s->hash_len>" % hp) and fop == "==" and fv == 0)
                                                     or (fk.startswith("(%s->hash_len<=" % hp) and fop == "==" and fv == 1)) for (fk, fop, fv) in facts)
        if not fits:
            okb = False
        if guards.key(c["args"][2]) != "%s->hash_len" % hp:
            okb = False
    rep.ob("C11.2", gd, "digest:bound", okb, "the digest is copied out only after hash_len <= *len was established, and exactly hash_len bytes" if okb else
           "get_digest copies into the caller's buffer without hash_len <= *len established (or a different number of bytes)", gd.loc[0])
    rep.floor("C11.2", 7)

    # ---- C11.3 hex -----------------------------------------------------------------------
    # decided on p_crypto_hash_get_string with its helpers inlined, so it does not matter whether the encoder is a helper that
    # fills a buffer, a helper that allocates and returns the string, or a loop in the reader itself
    gsx = hu.fn("p_crypto_hash_get_string")
    hpx = gsx.param_names()[0]
    tbl_names = [g_ for g_, v_ in hu.globals.items() if strip_casts(v_.get("init") or {}) is not None and (strip_casts(v_.get("init") or {}) or {}).get("k") == "str"
                 and len((strip_casts(v_.get("init") or {}) or {}).get("v") or "") == 16]
    hexst = []           # stores whose value is read from a 16-character table
    for b, i, n in gsx.nodes():
        if n["k"] == "asg" and n.get("op") == "=":
            r = strip_casts(n["r"])
            if r is not None and r["k"] == "idx":
                g_ = strip_casts(r["base"])
                if g_ is not None and g_["k"] == "ref" and g_.get("decl") == "global" and g_["name"] in tbl_names:
                    hexst.append((b, i, n, g_["name"], r))
    hexst.sort(key=lambda t: (line(t[2]), t[2]["loc"][1]))
    tname = hexst[0][3] if hexst else None
    tbl = hu.globals.get(tname) if tname else None
    okt = tbl is not None and strip_casts(tbl.get("init", {}) or {}).get("v") == "0123456789abcdef"
    rep.ob("C11.3", gsx, "table", okt, "hex table is 0123456789abcdef" if okt else "the hex table is %r" % (tbl and strip_casts(tbl.get("init", {})).get("v")), gsx.loc[0])

    def lin(e, iv):
        """e as (base variable or None, a, b): base + a*iv + b; None when it is not of that form"""
        e = strip_casts(e)
        if e is None:
            return None
        if cv(e) is not None:
            return (None, 0, cv(e))
        if e["k"] == "ref":
            if e["name"] == iv:
                return (None, 1, 0)
            r_ = gsx.resolve(e)
            if r_ is not e and r_ is not None and r_["k"] != "call":
                return lin(r_, iv)
            return (e["name"], 0, 0)
        if e["k"] == "member":
            return (guards.key(e), 0, 0)
        if e["k"] == "bin" and e["op"] in ("+", "-", "*", "<<"):
            l, r = lin(e["l"], iv), lin(e["r"], iv)
            if l is None or r is None:
                return None
            if e["op"] in ("+", "-"):
                sg = 1 if e["op"] == "+" else -1
                if l[0] is not None and r[0] is not None:
                    return None
                return (l[0] if l[0] is not None else (r[0] if sg == 1 else None), l[1] + sg * r[1], l[2] + sg * r[2]) if not (r[0] is not None and sg == -1) else None
            k = r if (r[0] is None and r[1] == 0) else (l if (l[0] is None and l[1] == 0) else None)
            o = l if k is r else r
            if k is None or o[0] is not None:
                return None
            f = k[2] if e["op"] == "*" else (1 << k[2] if k is r else None)
            return None if f is None else (None, o[1] * f, o[2] * f)
        return None

    loops = gsx.loops()
    okh, why = len(hexst) == 2, "the encoder makes %d table-driven stores per digest byte, not 2" % len(hexst)
    ivar = bound = None
    if okh:
        inner = [(h, body) for (h, body) in loops if hexst[0][0].id in body and hexst[1][0].id in body]
        if not inner:
            okh, why = False, "the two hex digits are not written in one loop"
        else:
            h, body = min(inner, key=lambda hb: len(hb[1]))
            # the loop counter: compared with the bound in a condition of the loop, starts at 0, steps by one
            for bid in body:
                c = strip_casts(gsx.blocks[bid].cond) if gsx.blocks[bid].cond is not None else None
                if c is not None and c["k"] == "bin" and c["op"] in ("<", "!=") and strip_casts(c["l"])["k"] == "ref":
                    ivar, bound = strip_casts(c["l"])["name"], c["r"]
            inits = [cv(n["r"]) for (b, i, n) in gsx.nodes() if n["k"] == "asg" and n.get("op") == "=" and strip_casts(n["l"])["k"] == "ref"
                     and strip_casts(n["l"])["name"] == ivar and b.id not in body]
            steps = [n for (b, i, n) in gsx.nodes(elsewhere=True) if b.id in body and ((n["k"] == "un" and ("++" in n.get("op", "")) and root_var(n["e"]) == ivar)
                                                                                       or (n["k"] == "asg" and n.get("op") == "+=" and root_var(n["l"]) == ivar and cv(n["r"]) == 1))]
            others = [n for (b, i, n) in gsx.nodes(elsewhere=True) if b.id in body and n["k"] == "asg" and n.get("op") == "=" and strip_casts(n["l"])["k"] == "ref"
                      and strip_casts(n["l"])["name"] == ivar]
            bl = lin(bound, "\0") if bound is not None else None
            if ivar is None or inits != [0] or len(steps) != 1 or others:
                okh, why = False, "the encoder loop does not count one variable from 0 in steps of one"
            elif bl != ("%s->hash_len" % hpx, 0, 0):
                okh, why = False, "the encoder loop runs to %s, not to hash_len" % show(bound)
    dvars = set()
    if okh:
        # the digest pointer: the result of the digest slot (through copies)
        for b, i, n in gsx.nodes(elsewhere=True):
            if n["k"] == "asg" and strip_casts(n["l"])["k"] == "ref" and strip_casts(n["r"]) is not None and strip_casts(n["r"])["k"] == "call" and slot_pred("digest")(strip_casts(n["r"])):
                dvars |= gsx.copies_of(strip_casts(n["l"])["name"])

        def nibble(r):
            """('hi'|'lo') when the table index is (D[i] >> 4) & 15 / D[i] & 15"""
            ix = strip_casts(r["i"])
            if ix is None or ix["k"] != "bin" or ix["op"] != "&":
                return None
            a, b_ = strip_casts(ix["l"]), strip_casts(ix["r"])
            x = a if cv(b_) == 15 else (b_ if cv(a) == 15 else None)
            if x is None:
                return None
            kind = "lo"
            if x["k"] == "bin" and x["op"] == ">>" and cv(x["r"]) == 4:
                kind, x = "hi", strip_casts(x["l"])
            elif x["k"] == "bin":
                return None
            byte = None
            if x["k"] == "idx":
                byte = (root_var(x["base"]), lin(x["i"], ivar))
            elif x["k"] == "un" and x["op"] == "*":
                l_ = lin(x["e"], ivar)
                byte = (l_[0], (None, l_[1], l_[2])) if l_ else None
            if byte is None or byte[0] not in dvars or byte[1] != (None, 1, 0):
                return None
            return kind
        kinds = [nibble(t[4]) for t in hexst]
        # where the two digits go: explicit positions base + 2i and base + 2i + 1, or a cursor advanced once per store
        pos = []
        for (b, i, n, g_, r) in hexst:
            t = strip_casts(n["l"])
            addr = None
            if t["k"] == "idx":
                li = lin(t["i"], ivar)
                addr = (root_var(t["base"]), li[1], li[2]) if li and li[0] is None else None
            elif t["k"] == "un" and t["op"] == "*":
                inner_ = strip_casts(t["e"])
                if inner_ is not None and inner_["k"] == "un" and inner_.get("op") in ("post++", "++post", "p++", "++") and strip_casts(inner_["e"])["k"] == "ref":
                    addr = ("cursor", strip_casts(inner_["e"])["name"])
                else:
                    addr = lin(t["e"], ivar)
            pos.append(addr)
        if None in kinds or kinds != ["hi", "lo"] and not (kinds == ["lo", "hi"] and all(p_ and p_[0] != "cursor" for p_ in pos)):
            okh, why = False, "the two digits are not table[(digest[i] >> 4) & 15] then table[digest[i] & 15] (got %s)" % kinds
        elif any(p_ is None for p_ in pos):
            okh, why = False, "the position a hex digit is written to is not base + 2i (+1) and not an advancing cursor"
        elif pos[0][0] == "cursor" or pos[1][0] == "cursor":
            cur = pos[0][1]
            h, body = min(inner, key=lambda hb: len(hb[1]))
            cdefs = [(b, n) for (b, i, n) in gsx.nodes(elsewhere=True) if ((n["k"] == "asg" and strip_casts(n["l"])["k"] == "ref" and strip_casts(n["l"])["name"] == cur)
                                                                             or (n["k"] == "un" and ("++" in n.get("op", "") or "--" in n.get("op", "")) and root_var(n["e"]) == cur and strip_casts(n["e"])["k"] == "ref"))]
            inside = [n for (b, n) in cdefs if b.id in body]
            outside = [n for (b, n) in cdefs if b.id not in body]
            if not (pos[0] == pos[1] and kinds == ["hi", "lo"] and len(inside) == 2 and all(n["k"] == "un" and "++" in n["op"] for n in inside) and len(outside) == 1 and outside[0]["k"] == "asg"):
                okh, why = False, "the output cursor is not set once before the loop and advanced exactly once per digit, high digit first"
            else:
                bufvar = root_var(outside[0]["r"])
        else:
            want = {"hi": (2, 0), "lo": (2, 1)}
            if pos[0][0] != pos[1][0] or any((p_[1], p_[2]) != want[k_] for p_, k_ in zip(pos, kinds)):
                okh, why = False, "the high digit is not written at 2i and the low digit at 2i+1 (positions %s for %s)" % ([(p_[1], p_[2]) for p_ in pos], kinds)
            else:
                bufvar = pos[0][0]
    rep.ob("C11.3", gsx, "encode", okh, "for i < hash_len: out[2i] = table[(digest[i] >> 4) & 15], out[2i+1] = table[digest[i] & 15]" if okh else
           "hex encoding: " + why, hexst[0][2] if hexst else gsx.loc[0])
    al = [c for (b, i, c) in gsx.calls() if c.get("callee") in ("p_malloc0", "p_malloc")]
    oka = len(al) == 1 and al[0].get("callee") == "p_malloc0"
    if oka:
        sz = lin(al[0]["args"][0], "\0")
        # 2 * hash_len + 1 with hash_len as the linear variable
        e0 = strip_casts(al[0]["args"][0])

        def lin_h(e):
            e = strip_casts(e)
            if e is None:
                return None
            if cv(e) is not None:
                return (0, cv(e))
            if e["k"] == "member" and guards.key(e) == "%s->hash_len" % hpx:
                return (1, 0)
            if e["k"] == "ref":
                r_ = gsx.resolve(e)
                return lin_h(r_) if r_ is not e else None
            if e["k"] == "bin" and e["op"] in ("+", "*", "<<"):
                l, r = lin_h(e["l"]), lin_h(e["r"])
                if l is None or r is None:
                    return None
                if e["op"] == "+":
                    return (l[0] + r[0], l[1] + r[1])
                if e["op"] == "*":
                    return (l[0] * r[1], l[1] * r[1]) if r[0] == 0 else ((r[0] * l[1], r[1] * l[1]) if l[0] == 0 else None)
                return (l[0] << r[1], l[1] << r[1]) if r[0] == 0 else None
            return None
        oka = lin_h(e0) == (2, 1)
    if oka and okh:
        # the encoder writes into that allocation
        av = None
        for b, i, n in gsx.nodes(elsewhere=True):
            if n["k"] == "asg" and strip_casts(n["r"]) is al[0] and strip_casts(n["l"])["k"] == "ref":
                av = strip_casts(n["l"])["name"]
        oka = av is not None and bufvar in gsx.copies_of(av)
    rep.ob("C11.3", gsx, "buffer", oka, "the string buffer is zero-filled, 2*hash_len+1 bytes, and hash_len bytes are encoded into it" if oka else
           "the hex string buffer is not p_malloc0 (2*hash_len+1), or the digits are not written into it", al[0] if al else gsx.loc[0])
    rep.floor("C11.3", 3)

    # ---- per algorithm: C11.4 .. C11.7 ----------------------------------------------------
    n4 = 0
    for un in ALGO_UNITS:
        au = prog.unit(un)
        ups = [f for f in au.functions.values() if f.name.endswith("_update")]
        fins = [f for f in au.functions.values() if f.name.endswith("_finish")]
        rsts = [f for f in au.functions.values() if f.name.endswith("_reset")]
        if len(ups) != 1 or len(fins) != 1 or len(rsts) != 1:
            raise AnalysisBroken("%s: expected one update/finish/reset function" % un)
        upf, fin, rst = ups[0], fins[0], rsts[0]
        upf_inl = ups[0].inlined()
        lenp = upf.param_names()[2]
        lw = None
        for p in upf.params:
            if p["name"] == lenp:
                lw = au.types[p["t"]]["w"]
        # C11.4
        bad = []
        high_acc = False
        for b, i, n in upf_inl.nodes():
            if n["k"] == "bin" and n["op"] == ">>" and root_var(n["l"]) == lenp and (cv(n["r"]) or 0) >= 29:
                high_acc = True
        for b, i, s in upf.stmts():
            for n in walk(s):
                if n["k"] == "cast" and n["ck"] == "IntegralCast":
                    t = au.type_of(n)
                    inner = strip_casts(n["e"], explicit=False)
                    if t and lw and t["w"] < lw and inner is not None and any(x["k"] == "ref" and x["name"] == lenp for x in walk(inner)) \
                            and (au.type_of(inner) or {}).get("w", 0) == lw:
                        bad.append((n, s))
        viol = []
        # counters that accumulate the narrowed length: `X += (T) len`
        acc_targets = set()
        for b, i, n in upf.nodes():
            if n["k"] == "asg" and n["op"] == "+=" and any(x is c_[0] for c_ in bad for x in walk(n["r"])):
                acc_targets.add(guards.key(n["l"]))
        for (n, s) in bad:
            inner = strip_casts(n["e"], explicit=False)
            # (T) (... % d) with a divisor no wider than T cannot lose bits
            if inner is not None and inner["k"] == "bin" and inner["op"] == "%":
                dv = strip_casts(inner["r"])
                tw = (au.type_of(dv) or {}).get("w", 64)
                if tw <= au.type_of(n)["w"]:
                    continue
            # where is the narrowed value used?
            parent = parent_of(s, n)
            if parent is not None and parent["k"] == "bin" and parent["op"] in ("<", ">", "<=", ">=", "==", "!="):
                other = parent["l"] if strip_casts(parent["r"], explicit=False) is n or parent["r"] is n else parent["r"]
                if guards.key(other) in acc_targets and high_acc:
                    continue     # carry detection of the low counter: `low += (T) len; if (low < (T) len) ++high`
                viol.append((n, "compared"))
            elif not high_acc:
                viol.append((n, "accumulated"))
        n4 += 1
        rep.ob("C11.4", upf, "length", not viol,
               "the update length is used at full width%s" % (" (low part narrowed, high part accounted through len >> k)" if bad else "") if not viol else
               "line %d: the %d-bit length is %s through a %d-bit conversion%s: a single update of 2^32 bytes or more is hashed wrongly" %
               (line(viol[0][0]), lw, viol[0][1], au.type_of(viol[0][0])["w"], "" if viol[0][1] == "compared" else " and its high part is never accounted"),
               viol[0][0] if viol else upf.loc[0])

        # C11.5 geometry
        rec = None
        for r in au.records.values():
            if r.main and r.field("hash") is not None and r.name.startswith("PHash"):
                rec = r
        if rec is None:
            raise AnalysisBroken("%s: context record not found" % un)
        bufsz = buffer_bytes(au, rec)
        consts = set()
        # helpers that only the update function uses (a split-off "fill one block" step) are part of it
        callers_ = {}
        for f_ in au.functions.values():
            for (b_, i_, c_) in f_.calls():
                if c_.get("callee") in au.functions:
                    callers_.setdefault(c_["callee"], set()).add(f_.name)
        own_ = set(n_ for n_, cs_ in callers_.items() if au.functions[n_].static and cs_ <= {upf.name})
        upf_geo = upf.inlined(only=own_) if own_ else upf
        # likewise for finish: steps split off into helpers only finish (or such a helper) calls - "pad length", "append the length" -
        # are part of it
        own_f, grew_ = set(), True
        while grew_:
            grew_ = False
            for n_, cs_ in callers_.items():
                if n_ not in own_f and au.functions[n_].static and cs_ <= ({fin.name} | own_f):
                    own_f.add(n_)
                    grew_ = True
        fin_raw = fin
        fin = fin.inlined(only=own_f) if own_f else fin
        for b, i, s in upf_geo.stmts():
            for n in walk(s):
                if n["k"] == "bin" and n["op"] == "&" and cv(n["r"]) is not None and strip_casts(n["l"])["k"] == "member" and cv(n["r"]) > 6:
                    consts.add(("mask", cv(n["r"]) + 1))
                if n["k"] == "bin" and n["op"] == "-" and cv(n["l"]) is not None and cv(n["l"]) > 8 and strip_casts(n["r"])["k"] == "ref":
                    consts.add(("fill", cv(n["l"])))
                if n["k"] == "bin" and n["op"] in (">=", ">") and root_var(n["l"]) == lenp and cv(n["r"]) is not None and cv(n["r"]) > 8:
                    consts.add(("loop", cv(n["r"]) + (1 if n["op"] == ">" else 0)))
                # a counted whole-block loop: `len / B` blocks, then `len %= B`
                if n["k"] == "bin" and n["op"] in ("/", "%") and root_var(n["l"]) == lenp and cv(n["r"]) is not None and cv(n["r"]) > 8:
                    consts.add(("loop", cv(n["r"])))
                if n["k"] == "asg" and n["op"] == "%=" and root_var(n["l"]) == lenp and cv(n["r"]) is not None and cv(n["r"]) > 8:
                    consts.add(("loop", cv(n["r"])))
                if n["k"] == "call" and n.get("callee") in MEMFUNCS and cv(n["args"][2]) is not None and cv(n["args"][2]) > 8:
                    consts.add(("copy", cv(n["args"][2])))
                if n["k"] in ("asg",) and n["op"] in ("-=", "+=") and cv(n["r"]) is not None and cv(n["r"]) > 8:
                    consts.add(("step", cv(n["r"])))
        if un == "pcryptohash-sha3.c":
            # block size is a run-time field bounded by the init table: (1600 - 2*bits)/8 <= 200 for the four variants
            vals = set()
            for f in au.functions.values():
                for b, i, c in f.calls():
                    if c.get("callee") == "pp_crypto_hash_sha3_new_internal":
                        vals.add(cv(c["args"][0]))
            bs = sorted((1600 - 2 * v) // 8 for v in vals if v)
            okg = vals == {224, 256, 384, 512} and all(0 < x <= bufsz for x in bs)
            rep.ob("C11.5", upf, "geometry", okg, "SHA-3 block sizes %s (rates for 224/256/384/512) all fit the %d-byte buffer" % (bs, bufsz) if okg else
                   "SHA-3 variants %s give block sizes %s for a %d-byte buffer" % (sorted(vals), bs, bufsz), upf.loc[0])
        else:
            sizes = set(v for (k, v) in consts)
            okg = sizes == {bufsz} and {"fill", "loop", "copy"} <= set(k for (k, v) in consts)
            rep.ob("C11.5", upf, "geometry", okg, "fill mask/fill test/block loop/copies all use the %d-byte block of the buffer" % bufsz if okg else
                   "block-size constants disagree with the %d-byte buffer: %s" % (bufsz, sorted(consts)), upf.loc[0])
            if un != "pcryptohash-gost3411.c":
                # padding identity: last = (left < A) ? (A - left) : (B - left), A = block - lenfield, B = A + block
                lenfield = 16 if bufsz == 128 else 8
                pads = set()
                for b, i, n in fin.nodes():
                    if n["k"] == "bin" and n["op"] == "-" and cv(n["l"]) is not None and strip_casts(n["r"])["k"] == "ref":
                        pads.add(cv(n["l"]))
                    if n["k"] == "bin" and n["op"] == "<" and cv(n["r"]) is not None and strip_casts(n["l"])["k"] == "ref":
                        pads.add(("lt", cv(n["r"])))
                A, B = bufsz - lenfield, 2 * bufsz - lenfield
                okp = pads == {A, B, ("lt", A)}
                rep.ob("C11.5", fin, "padding", okp, "padding length is (left < %d) ? %d - left : %d - left: the padded message ends %d bytes before a block boundary" % (A, A, B, lenfield)
                       if okp else "padding constants %s do not satisfy pad = (block - %d - left) mod block (expected %d / %d)" % (sorted(map(str, pads)), lenfield, A, B), fin.loc[0])

        # C11.5 (continued) the message length in bits: low = len_low << 3, high = (len_high << 3) | (len_low >> (W - 3))
        if un in ("pcryptohash-md5.c", "pcryptohash-sha1.c", "pcryptohash-sha2-256.c", "pcryptohash-sha2-512.c"):
            from plint import symx as _sx
            p0 = fin.param_names()[0]
            LL = ("m0", ("fld", ("p", p0), "len_low"))
            LH = ("m0", ("fld", ("p", p0), "len_high"))
            f_ll = rec.field("len_low")
            W = f_ll["bits"] if f_ll else 0
            want_low = _sx.norm(("bin", "<<", LL, _sx.C(3)))
            want_high = _sx.norm(("bin", "|", ("bin", "<<", LH, _sx.C(3)), ("bin", ">>", LL, _sx.C(W - 3))))
            sxe = _sx.SymExec(fin)
            got = set()
            for b, i, n in fin.nodes():
                if n["k"] == "asg" and n["op"] == "=" and strip_casts(n["l"])["k"] in ("ref", "member"):      # a local, or a member of a local struct
                    t = _sx.norm(sxe.ev(n["r"], _sx.State())[0][0])
                    got.add(t)
            okb = want_low in got and want_high in got and W in (32, 64)
            rep.ob("C11.5", fin, "bitlength", okb, "bit length words: low = len_low << 3, high = (len_high << 3) | (len_low >> %d)" % (W - 3) if okb else
                   "the %d-bit bit-length words are not (len_low << 3) and ((len_high << 3) | (len_low >> %d)): messages of 2^%d bytes or more get a wrong length field" % (W, W - 3, W - 3), fin.loc[0])
        if un == "pcryptohash-gost3411.c":
            sh = sorted((n["op"], cv(n["r"])) for (b, i, n) in upf_inl.nodes() if n["k"] == "bin" and n["op"] in ("<<", ">>") and root_var(n["l"]) == lenp and cv(n["r"]) is not None)
            okb = sh == [("<<", 3), (">>", 29)]
            rep.ob("C11.5", upf, "bitlength", okb, "GOST length in bits: (len << 3) low word, (len >> 29) next word" if okb else "GOST bit-length shifts are %s, expected << 3 and >> 29" % sh, upf.loc[0])

        # C11.6 reset completeness
        def written(fn, seen=None):
            seen = seen if seen is not None else set()
            out = set()
            if fn.name in seen:
                return out
            seen.add(fn.name)
            p0 = fn.param_names()[0] if fn.params else None
            for b, i, s in fn.stmts():
                for n in walk(s):
                    if n["k"] == "asg" or (n["k"] == "un" and ("++" in n["op"] or "--" in n["op"])):
                        tgt = n["l"] if n["k"] == "asg" else n["e"]
                        f0 = top_field(tgt, p0)
                        if f0:
                            out.add(f0)
                    if n["k"] == "call":
                        cn = n.get("callee")
                        if cn in MEMFUNCS:
                            f0 = top_field(n["args"][0], p0)
                            if f0:
                                out.add(f0)
                        elif cn in au.functions and cn != fn.name:
                            callee = au.functions[cn]
                            sub = written(callee, seen)
                            # callee's writes to its own ctx param map 1:1 when our ctx is forwarded
                            for ai, a in enumerate(n["args"]):
                                if p0 and strip_casts(a) is not None and strip_casts(a)["k"] == "ref" and strip_casts(a)["name"] == p0 and ai == 0:
                                    out |= sub
                                f0 = top_field(a, p0)
                                if f0 and writes_through_param(callee, ai):
                                    out.add(f0)
            return out
        w_upd = written(upf) | written(fin_raw)
        w_rst = written(rst)
        config = set()
        for f in au.functions.values():
            if f.name.endswith("_new") or f.name.endswith("new_internal"):
                for b, i, n in f.nodes():
                    if n["k"] == "asg":
                        l = strip_casts(n["l"])
                        if l is not None and l["k"] == "member" and l.get("rec") == rec.name:
                            config.add(l["field"])
        missing = w_upd - w_rst - config
        cfg_bad = (w_upd | w_rst) & config
        okq = not missing and not cfg_bad
        rep.ob("C11.6", rst, "reset", okq, "reset re-initialises %s (everything update/finish write: %s)" % (sorted(w_rst), sorted(w_upd)) if okq else
               ("update/finish write %s which reset does not re-initialise: a reset hash continues from stale state" % sorted(missing) if missing else
                "configuration field(s) %s are modified after creation" % sorted(cfg_bad)), rst.loc[0])

        # C11.7 padding stores that may alias
        sts = []
        p0 = fin.param_names()[0]
        for b, i, s in fin.stmts():
            for n in walk(s):
                if n["k"] == "asg":
                    l = strip_casts(n["l"])
                    if l is not None and l["k"] == "idx":
                        base_ = fin.resolve(l["base"])          # `block = ctx->buf.buf; block[used] |= ...`
                        if base_ is not None and top_field(base_, p0):
                            l = dict(l, base=base_)
                            sts.append((b, i, n, l))
        pairs = 0
        ok7, msg7 = True, ""
        for x in range(len(sts)):
            for y in range(x + 1, len(sts)):
                (b1, i1, n1, l1), (b2, i2, n2, l2) = sts[x], sts[y]
                if guards.key(l1["base"]) != guards.key(l2["base"]):
                    continue
                c1, c2 = cv(l1["i"]), cv(l2["i"])
                if c1 is not None and c2 is not None:
                    continue      # provably distinct or identical constants
                if guards.key(l1["i"]) == guards.key(l2["i"]):
                    continue
                pairs += 1
                later = n2 if fin.pos_dominates((b1.id, i1), (b2.id, i2)) else n1
                if later["op"] != "|=":
                    ok7, msg7 = False, "line %d: padding byte stored with '%s' at index %s may be the same byte as index %s written before (when only one byte of the block is free): the earlier padding bits are overwritten" % (
                        line(later), later["op"], show(strip_casts(later["l"])["i"]), show((l1 if later is n2 else l2)["i"]))
        if pairs or un == "pcryptohash-sha3.c":
            rep.ob("C11.7", fin, "pad-alias", ok7 and pairs > 0, "%d pair(s) of padding stores with possibly equal indices: the later one ORs its bits in" % pairs if (ok7 and pairs) else
                   (msg7 or "no padding store pair found"), fin.loc[0])
    # the input cursor of update (sibling agreement over the six algorithm units: complete the partial block, whole blocks, tail):
    # between two reads of the input pointer on a path the pointer is advanced (how the remaining length is kept is free: a block counter does as well; else the same bytes
    # are hashed twice when an update completes a partially filled block), and the tail copy lands at offset 0 of the buffer on every
    # path on which a block was processed in this call (else the tail of a split update is stored behind stale bytes)
    ncur = 0
    for un in ALGO_UNITS:
        au = prog.unit(un)
        for fr_ in sorted(au.functions.values(), key=lambda f__: f__.loc[0]):
            if not fr_.name.endswith("_update") or len(fr_.param_names()) < 3:
                continue
            big = tuple(g_.name for g_ in au.functions.values() if g_.static and sum(len(b_.stmts) for b_ in g_.blocks.values()) > 40)     # the block function stays a call
            fu = fr_.inlined(skip=big)
            cp_, dp_, lp_ = fu.param_names()[:3]
            dal = fu.copies_of(dp_)
            curbad = []

            def us(st, b, i, stmt, curbad=curbad, dal=dal, dp_=dp_, lp_=lp_, cp_=cp_, au=au, fr_=fr_):
                facts, pend_d, pend_l, processed = st
                for n_ in walk(stmt):
                    if n_["k"] == "call":
                        cn_ = n_.get("callee")
                        reads = [a for a in n_.get("args", ()) if root_var(a) in dal and strip_casts(a) is not None and not (strip_casts(a)["k"] == "un" and strip_casts(a).get("op") == "&")]
                        if reads and cn_ not in ("__builtin_expect",):
                            if pend_d:
                                curbad.append((line(n_), "the input pointer is read again without having been advanced past the bytes consumed at line %d" % pend_d))
                            pend_d = pend_l = line(n_)
                            if cn_ in ("memcpy", "__builtin_memcpy", "__builtin___memcpy_chk"):
                                d_ = strip_casts(n_["args"][0])
                                if d_ is not None and d_["k"] == "bin" and d_["op"] == "+" and cv(d_["r"]) is None:
                                    # a copy to `buffer + fill level`: the first one on a path completes the partial block; after it
                                    # the block has been processed and the buffer is empty, so a second one starts at offset 0
                                    off_ = guards.eval_const(d_["r"], facts)
                                    if processed and off_ != 0:
                                        curbad.append((line(n_), "the tail is copied to offset %s of the block buffer although the partial block was completed and processed earlier in this call: "
                                                       "the buffer is empty then and the tail belongs at offset 0" % show(d_["r"])))
                                    processed = True
                    if n_["k"] == "asg" and strip_casts(n_["l"])["k"] == "ref":
                        tv = strip_casts(n_["l"])["name"]
                        if tv == dp_ and (n_["op"] == "+=" or (n_["op"] == "=" and root_var(n_["r"]) == dp_)):
                            pend_d = 0
                        if tv == lp_ and (n_["op"] == "-=" or (n_["op"] == "=" and root_var(n_["r"]) == lp_)):
                            pend_l = 0
                    if n_["k"] == "un" and "++" in n_.get("op", "") and root_var(n_["e"]) == dp_:
                        pend_d = 0
                return [(guards.transfer(facts, stmt), pend_d, pend_l, processed)]

            def ue(st, b, to, on):
                f2 = guards.edge_assume(st[0], b, on)
                return None if f2 is None else (f2, st[1], st[2], st[3])
            try:
                Flow(fu, [(guards.EMPTY, 0, 0, False)], us, ue, max_states=20000).run()
            except AnalysisBroken:
                continue
            ncur += 1
            rep.ob("C11.4", fr_, "cursor", not curbad, "the input pointer moves past every chunk before the next one is read; the tail lands at the start of an emptied buffer" if not curbad else
                   "line %d: %s" % curbad[0], curbad[0][0] if curbad else fr_.loc[0])
    # the byte counter is two words: where update adds the length into the low word, the wrap-around test `low < addend` follows and
    # its true branch increments the high word (sibling agreement md5 / sha1 / sha2-256 / sha2-512).  Without the carry the bit
    # length in the padding is wrong for every message that crosses 2^32 bytes (512 MiB for the 32-bit counters' bit form)
    ncar = 0
    for un in ALGO_UNITS:
        au = prog.unit(un)
        for fr_ in sorted(au.functions.values(), key=lambda f__: f__.loc[0]):
            if not fr_.name.endswith("_update") or len(fr_.param_names()) < 3:
                continue
            big = tuple(g_.name for g_ in au.functions.values() if g_.static and sum(len(b_.stmts) for b_ in g_.blocks.values()) > 40)
            fu = fr_.inlined(skip=big)
            lp_ = fu.param_names()[2]
            adds = [n_ for (b_, i_, n_) in fu.nodes(elsewhere=True) if n_["k"] == "asg" and n_["op"] == "+=" and strip_casts(n_["l"])["k"] == "member"
                    and root_var(n_["r"]) == lp_ and not any(x_["k"] == "bin" and x_["op"] == ">>" for x_ in walk(n_["r"]))]
            if len(adds) != 1:
                continue
            lowf = strip_casts(adds[0]["l"])["field"]
            lost = []

            def cs_(st, b, i, stmt, lost=lost, lowf=lowf):
                facts, phase = st          # 0 before the add, 1 added (test pending), 2 carry taken (increment pending), 3 settled
                for n_ in walk(stmt):
                    if n_ is adds[0]:
                        phase = 1
                    elif phase == 2 and ((n_["k"] == "un" and "++" in n_.get("op", "")) or (n_["k"] == "asg" and n_["op"] == "+=" and cv(n_["r"]) == 1)) \
                            and strip_casts(n_["e"] if n_["k"] == "un" else n_["l"])["k"] == "member" and strip_casts(n_["e"] if n_["k"] == "un" else n_["l"])["field"] != lowf:
                        phase = 3
                    elif n_["k"] == "call" and n_.get("callee") in ("memcpy", "__builtin_memcpy", "__builtin___memcpy_chk") and phase in (1, 2):
                        lost.append((line(n_), "no wrap-around test of the low word follows the addition" if phase == 1 else "the wrap-around branch does not increment the high word"))
                        phase = 3
                if stmt["k"] == "ret" and phase in (1, 2):
                    lost.append((line(stmt), "no wrap-around test of the low word follows the addition" if phase == 1 else "the wrap-around branch does not increment the high word"))
                return [(guards.transfer(facts, stmt), phase)]

            def ce_(st, b, to, on, lowf=lowf):
                f2 = guards.edge_assume(st[0], b, on)
                if f2 is None:
                    return None
                phase = st[1]
                c_ = strip_casts(b.cond) if b.cond is not None else None
                while c_ is not None and c_["k"] == "call" and c_.get("callee") == "__builtin_expect":
                    c_ = strip_casts(c_["args"][0])
                while c_ is not None and c_["k"] == "un" and c_.get("op") == "!" and strip_casts(c_["e"])["k"] == "un" and strip_casts(c_["e"]).get("op") == "!":
                    c_ = strip_casts(strip_casts(c_["e"])["e"])
                if phase == 1 and c_ is not None and c_["k"] == "bin" and c_["op"] in ("<", ">"):
                    lo_ = strip_casts(c_["l"] if c_["op"] == "<" else c_["r"])
                    if lo_ is not None and lo_["k"] == "member" and lo_["field"] == lowf:
                        phase = 2 if on == "true" else 3
                return (f2, phase)
            try:
                Flow(fu, [(guards.EMPTY, 0)], cs_, ce_, max_states=20000).run()
            except AnalysisBroken:
                continue
            ncar += 1
            rep.ob("C11.4", fr_, "carry", not lost, "the addition into %s is followed by the wrap-around test whose true branch increments the high word" % lowf if not lost else
                   "line %d: %s (%s += length in %s): the byte count loses 2^32 (2^64) every time the low word wraps, and the length field of the padding with it" % (
                       lost[0][0], lost[0][1], lowf, fr_.name), lost[0][0] if lost else fr_.loc[0])
    rep.floor("C11.4", 6 + 6 + 4)
    # fixed-size state, schedule and constant arrays: every subscript whose index is a constant, or a loop counter for which the path
    # carries an upper bound, stays inside the array - with the loop's stride taken into account (`for (i = 0; i < 64; i += 8) ... W[i + 7]`).
    # One step too far (`i <= 8` over `A[8]`) writes next to the array on the stack; the digest can still come out right.
    from plint.wiring import array_bounds
    nj = 0
    for un in ALGO_UNITS:
        au = prog.unit(un)
        j_, bad_ = 0, []
        for f_ in sorted(au.functions.values(), key=lambda f__: f__.loc[0]):
            a_, b_ = array_bounds(f_)
            j_ += a_
            bad_ += [(f_,) + x for x in b_]
        nj += j_
        rep.ob("C11.5", bad_[0][0] if bad_ else sorted(au.functions.values(), key=lambda f__: f__.loc[0])[0], "bounds", not bad_,
               "%d subscripts of fixed-size arrays with a known largest index stay inside their arrays" % j_ if not bad_ else
               "line %d: %s has %d elements and is subscripted with an index that reaches %d in %s" % (line(bad_[0][1]), bad_[0][2], bad_[0][3], bad_[0][4], bad_[0][0].name),
               bad_[0][1] if bad_ else sorted(au.functions.values(), key=lambda f__: f__.loc[0])[0].loc[0])
    if nj < 300:
        raise AnalysisBroken("C11.5 bounds: only %d subscripts judged in the algorithm units (expected several thousand)" % nj)
    rep.floor("C11.5", 14 + 6)
    rep.floor("C11.6", 6)
    rep.floor("C11.7", 1)
    check_adders(prog, rep)


# ---- C11.8 multi-word addition ------------------------------------------------------------------
def _adder_domain(nops):
    """The abstract domain of the rule: every feasible combination of (carry-in, carry-out, ordering of the
    sum against each operand, ordering of the operands) for s = x (+ y) + cin in W-bit modular arithmetic.
    The set of ordering classes does not depend on W (it is the same for W = 3 and W = 4, asserted below),
    so a carry predicate built from comparisons of s, x, y and cin is decided exactly by evaluating it on
    these classes."""
    def classes(W):
        M = 1 << W
        out = set()
        sg = lambda a, b: (a > b) - (a < b)
        for x in range(M):
            for y in (range(M) if nops == 2 else (0,)):
                for cin in (0, 1):
                    t = x + y + cin
                    s = t % M
                    out.add((cin, int(t >= M), sg(s, x), sg(s, y) if nops == 2 else None, sg(x, y) if nops == 2 else None))
        return out
    c3, c4 = classes(3), classes(4)
    if c3 != c4:
        raise AnalysisBroken("C11.8: ordering classes of the adder domain did not stabilise")
    return sorted(c3, key=str)


def _ev3(e, cls, env):
    """three-valued evaluation of a carry predicate on one ordering class: int, or None when undecided"""
    e = strip_casts(e)
    if e is None:
        return None
    if cv(e) is not None:
        return cv(e)
    k = e["k"]
    if k == "ref" and e["name"] == env["cin"]:
        return cls[0]
    if k == "cond":
        c = _ev3(e["c"], cls, env)
        a, b = _ev3(e["a"], cls, env), _ev3(e["b"], cls, env)
        if c is None:
            return a if a is not None and a == b else None
        return a if c else b
    if k == "un" and e["op"] == "!":
        v = _ev3(e["e"], cls, env)
        return None if v is None else int(not v)
    if k == "bin" and e["op"] in ("||", "&&"):
        l, r = _ev3(e["l"], cls, env), _ev3(e["r"], cls, env)
        if e["op"] == "||":
            if l or r:
                return 1
            return 0 if (l == 0 and r == 0) else None
        if l == 0 or r == 0:
            return 0
        return 1 if (l and r) else None
    if k == "bin" and e["op"] in ("<", ">", "<=", ">=", "==", "!="):
        cl, cr = env["cls"](e["l"]), env["cls"](e["r"])
        sgn = None
        if cl and cr:
            if cl == cr:
                sgn = 0
            else:
                table = {("s", "x"): cls[2], ("s", "y"): cls[3], ("x", "y"): cls[4]}
                sgn = table.get((cl, cr))
                if sgn is None and (cr, cl) in table and table[(cr, cl)] is not None:
                    sgn = -table[(cr, cl)]
        else:
            l, r = _ev3(e["l"], cls, env), _ev3(e["r"], cls, env)
            if l is not None and r is not None and not cl and not cr:
                sgn = (l > r) - (l < r)
        if sgn is None:
            return None
        return int({"<": sgn < 0, ">": sgn > 0, "<=": sgn <= 0, ">=": sgn >= 0, "==": sgn == 0, "!=": sgn != 0}[e["op"]])
    return None


def _addends(e):
    e = strip_casts(e)
    if e is not None and e["k"] == "bin" and e["op"] == "+":
        return _addends(e["l"]) + _addends(e["r"])
    return [e]


def check_adders(prog, rep):
    rep.rule("C11.8", "multi-word addition: where a word sum takes a loop-carried carry-in (s = x + y + cin), the carry-out predicate "
                      "is decided on every feasible ordering class of (s, x, y, cin) and must equal the true carry on each")
    n = 0
    for un in ALGO_UNITS:
        au = prog.unit(un)
        for fn in au.functions.values():
            for hdr, body in fn.loops():
                asgs = [(b, i, s) for (b, i, s) in fn.stmts() if b.id in body and s["k"] == "asg"]
                # loop-carried 0/1 variables: locals assigned in the loop from a comparison / logical / 0-1 conditional
                def boolish(e):
                    e = strip_casts(e)
                    if e is None:
                        return False
                    if e["k"] == "bin" and e["op"] in ("<", ">", "<=", ">=", "==", "!=", "||", "&&"):
                        return True
                    if e["k"] == "cond":
                        return all(cv(x) in (0, 1) or boolish(x) for x in (e["a"], e["b"])) and (cv(e["a"]) is None or cv(e["a"]) != cv(e["b"]))
                    return False
                carries = {}
                for (b, i, s) in asgs:
                    l = strip_casts(s["l"])
                    if s["op"] == "=" and l["k"] == "ref" and l.get("decl") == "local" and boolish(s["r"]):
                        carries.setdefault(l["name"], []).append((b, i, s))
                for (b, i, s) in asgs:
                    if s["op"] not in ("=", "+="):
                        continue
                    adds = _addends(s["r"])
                    if s["op"] == "+=":
                        adds = [strip_casts(s["l"])] + adds
                    cin = None
                    words = []
                    for a in adds:
                        v = None
                        if a["k"] == "ref" and a["name"] in carries:
                            v = a["name"]
                        elif a["k"] == "cond" and strip_casts(a["c"])["k"] == "ref" and strip_casts(a["c"])["name"] in carries \
                                and cv(a["a"]) == 1 and cv(a["b"]) == 0:
                            v = strip_casts(a["c"])["name"]
                        if v and cin is None:
                            cin = v
                        else:
                            words.append(a)
                    if cin is None or not words:
                        continue
                    n += 1
                    site = "adder:%s" % show(strip_casts(s["l"]))
                    if len(words) > 2 or len(carries[cin]) != 1:
                        raise AnalysisBroken("C11.8: %s:%d: unrecognised adder shape (%d word operands, %d carry assignments)" %
                                             (un, line(s), len(words), len(carries[cin])))
                    (cb, ci, cs) = carries[cin][0]
                    if not fn.pos_dominates((b.id, i), (cb.id, ci)):
                        raise AnalysisBroken("C11.8: %s:%d: the carry-out assignment does not follow the sum" % (un, line(s)))
                    tkey = guards.key(strip_casts(s["l"]))
                    wkeys = [guards.key(w) for w in words]
                    tw = (au.type_of(strip_casts(s["l"])) or {}).get("w", 0)
                    sw = (au.type_of(strip_casts(s["r"])) or {}).get("w", 0) if s["op"] == "=" else tw
                    if any(((au.type_of(w) or {}).get("w", 0)) < sw for w in words) and sw > 32:
                        raise AnalysisBroken("C11.8: %s:%d: sum computed in a wider type than its operands: idiom not modelled" % (un, line(s)))
                    # saved copies of the old target value: `v = T` before the sum, v assigned once
                    saved = set()
                    for (b2, i2, s2) in asgs:
                        l2 = strip_casts(s2["l"])
                        if s2["op"] == "=" and l2["k"] == "ref" and guards.key(strip_casts(s2["r"])) == tkey \
                                and fn.pos_dominates((b2.id, i2), (b.id, i)) \
                                and sum(1 for (_, _, s3) in fn.stmts() if s3["k"] == "asg" and guards.key(strip_casts(s3["l"])) == guards.key(l2)) == 1:
                            saved.add(guards.key(l2))
                    names = {}
                    for idx, wk in enumerate(wkeys):
                        names["xy"[idx]] = wk

                    def cls_of(e, tkey=tkey, names=names, saved=saved):
                        e = strip_casts(e)
                        if e is None:
                            return None
                        kk = guards.key(e)
                        if kk == tkey:
                            return "s"
                        for nm, wk in names.items():
                            if wk == tkey:
                                if kk in saved:
                                    return nm
                            elif kk == wk:
                                return nm
                        return None
                    env = {"cin": cin, "cls": cls_of}
                    dom = _adder_domain(len(words))
                    wrong, undec = None, None
                    for c in dom:
                        v = _ev3(cs["r"], c, env)
                        if v is None:
                            undec = undec or c
                        elif bool(v) != bool(c[1]):
                            wrong = wrong or c
                    def descr(c):
                        rel = {-1: "<", 0: "==", 1: ">"}
                        ops = [show(w) for w in words]
                        t = "carry-in %d, sum %s %s" % (c[0], rel[c[2]], "old " + ops[0] if wkeys[0] == tkey else ops[0])
                        if len(words) == 2:
                            t += ", sum %s %s" % (rel[c[3]], "old " + ops[1] if wkeys[1] == tkey else ops[1])
                        return t
                    if wrong is None and undec is not None:
                        raise AnalysisBroken("C11.8: %s:%d: carry-out predicate %s is not decided on the class (%s): idiom not modelled" %
                                             (un, line(cs), show(cs["r"]), descr(undec)))
                    rep.ob("C11.8", fn, site, wrong is None,
                           "carry-out %s equals the true carry of %s on all %d ordering classes" % (show(cs["r"]), show(s), len(dom)) if wrong is None else
                           "line %d: carry-out %s is %s on the feasible class (%s) where the true carry is %d: the carry is lost (e.g. operand 0xFFFFFFFF with carry-in set)" %
                           (line(cs), show(cs["r"]), "FALSE" if wrong[1] else "TRUE", descr(wrong), wrong[1]), cs)
    rep.floor("C11.8", 1)


def parent_of(root, node):
    for n in walk(root, elsewhere=True):
        for k in ("l", "r", "e", "base", "i", "c", "a", "b", "init"):
            ch = n.get(k)
            if ch is node:
                return n
            # look through implicit casts / parens between parent and node
            c2 = ch
            while isinstance(c2, dict) and c2.get("k") == "cast" and not c2.get("explicit"):
                c2 = c2.get("e")
                if c2 is node:
                    return n
        for a in n.get("args", []) or []:
            if a is node:
                return n
    return None


def top_field(e, p0):
    """For an lvalue/pointer expression rooted at ctx->F..., return F."""
    e = strip_casts(e)
    last = None
    while e is not None:
        k = e["k"]
        if k == "member":
            last = e
            base = strip_casts(e["base"])
            if e["arrow"] and base is not None and base["k"] == "ref" and (p0 is None or base["name"] == p0):
                return e["field"]
            e = base
        elif k == "idx":
            e = strip_casts(e["base"])
        elif k == "un" and e["op"] in ("*", "&"):
            e = strip_casts(e["e"])
        elif k == "bin" and e["op"] in ("+", "-"):
            e = strip_casts(e["l"])
        else:
            return None
    return None


def writes_through_param(fn, idx):
    if idx >= len(fn.params):
        return False
    pn = fn.params[idx]["name"]
    t = fn.unit.types[fn.params[idx]["t"]]
    if t.get("k") != "ptr":
        return False
    for b, i, s in fn.stmts():
        for n in walk(s):
            if n["k"] == "asg" or (n["k"] == "un" and ("++" in n["op"] or "--" in n["op"])):
                tgt = strip_casts(n["l"] if n["k"] == "asg" else n["e"])
                if tgt is not None and tgt["k"] in ("un", "idx") and root_var(tgt) == pn:
                    return True
            if n["k"] == "call" and n.get("callee") in MEMFUNCS and root_var(n["args"][0]) == pn:
                return True
    # big-endian-only byte swaps compile to nothing here; treat a (data, words) helper as a writer of its data
    return fn.name.endswith("swap_bytes")


def buffer_bytes(au, rec):
    f = rec.field("buf")
    if f is None:
        raise AnalysisBroken("%s has no buf field" % rec.name)
    return f["bits"] // 8


# objects are zero-filled at birth: the functions of these units rely on it for every field their constructors do not store
_run_clauses = run


def run(prog, rep):
    _run_clauses(prog, rep)
    from plint.wiring import check_zero_init
    check_zero_init(rep, "C11.6", prog, ['pcryptohash.c', 'pcryptohash-md5.c', 'pcryptohash-sha1.c', 'pcryptohash-sha2-256.c', 'pcryptohash-sha2-512.c', 'pcryptohash-sha3.c', 'pcryptohash-gost3411.c'], 1)

# generic robustness battery: renaming every local/parameter in these files must not change any verdict
RENAME_LOCALS = ['src/pcryptohash.c', 'src/pcryptohash-sha3.c']   # md5/sha1 use unhygienic round macros that name the locals

SELFTEST = [
    dict(id="sha1-update-carry-dropped", file="src/pcryptohash-sha1.c", expect="C11.4",
         old="\tif (ctx->len_low < (puint32) len)\n\t\t++ctx->len_high;", new="\tif (ctx->len_low < (puint32) len)\n\t\t;"),
    dict(id="sha3-update-input-not-advanced", file="src/pcryptohash-sha3.c", expect="C11.4",
         old="\t\tdata += to_fill;\n\t\tlen -= to_fill;\n\t\tleft = 0;", new="\t\tlen -= to_fill;\n\t\tleft = 0;"),
    dict(id="sha512-update-fill-level-kept", file="src/pcryptohash-sha2-512.c", expect="C11.4",
         old="\t\tdata += to_fill;\n\t\tlen -= to_fill;\n\t\tleft = 0;", new="\t\tdata += to_fill;\n\t\tlen -= to_fill;"),
    dict(id="reset-only-when-closed", file="src/pcryptohash.c", expect="C11.2",
         old="\thash->reset (hash->context);\n\thash->closed = FALSE;", new="\tif (!hash->closed)\n\t\treturn;\n\n\thash->reset (hash->context);\n\thash->closed = FALSE;"),
    dict(id="sha256-working-copy-one-too-far", file="src/pcryptohash-sha2-256.c", expect="C11.5",
         old="\tfor (i = 0; i < 8; i++)\n\t\tA[i] = ctx->hash[i];", new="\tfor (i = 0; i <= 8; i++)\n\t\tA[i] = ctx->hash[i];"),
    dict(id="sha3-theta-column-one-too-far", file="src/pcryptohash-sha3.c", expect="C11.5",
         old="\tfor (i = 0; i < 5; ++i)\n\t\tC[i] = ctx->hash[i] ^", new="\tfor (i = 0; i <= 5; ++i)\n\t\tC[i] = ctx->hash[i] ^"),
    dict(id="gost-carry-equal-case-dropped", file="src/pcryptohash-gost3411.c", expect="C11.8",
         old="carry = (a[i] < old || (carry && a[i] == old)) ? TRUE : FALSE;", new="carry = (a[i] < old) ? TRUE : FALSE;"),
    dict(id="gost-carry-two-strict-compares", file="src/pcryptohash-gost3411.c", expect="C11.8",
         old="carry = (a[i] < old || (carry && a[i] == old)) ? TRUE : FALSE;", new="carry = (a[i] < old || a[i] < b[i]) ? TRUE : FALSE;"),
    dict(id="gost-carry-always-le", file="src/pcryptohash-gost3411.c", expect="C11.8",
         old="carry = (a[i] < old || (carry && a[i] == old)) ? TRUE : FALSE;", new="carry = (a[i] <= old) ? TRUE : FALSE;"),
    dict(id="gost-carry-inverted", file="src/pcryptohash-gost3411.c", expect="C11.8",
         old="carry = (a[i] < old || (carry && a[i] == old)) ? TRUE : FALSE;", new="carry = (a[i] < old || (carry && a[i] == old)) ? FALSE : TRUE;"),
    dict(id="gost-carry-select-form-neutral", file="src/pcryptohash-gost3411.c", expect=None,
         old="carry = (a[i] < old || (carry && a[i] == old)) ? TRUE : FALSE;", new="carry = carry ? (a[i] <= old) : (a[i] < old);"),
    dict(id="gost-carry-other-operand-neutral", file="src/pcryptohash-gost3411.c", expect=None,
         old="carry = (a[i] < old || (carry && a[i] == old)) ? TRUE : FALSE;", new="carry = (b[i] > a[i] || (a[i] == b[i] && carry != 0)) ? TRUE : FALSE;"),
    dict(id="gost-carry-plus-equals-neutral", file="src/pcryptohash-gost3411.c", expect=None,
         old="a[i] = a[i] + b[i] + (carry ? 1 : 0);", new="a[i] += b[i] + (carry ? 1 : 0);"),
    dict(id="sha224-hash-len-24", file="src/pcryptohash.c", expect="C11.1",
         old="\t\tP_HASH_FUNCS (ret, sha2_224)\n\t\tret->hash_len = 28;", new="\t\tP_HASH_FUNCS (ret, sha2_224)\n\t\tret->hash_len = 24;"),
    dict(id="sha384-uses-sha256-slots", file="src/pcryptohash.c", expect="C11.1",
         old="\t\tP_HASH_FUNCS (ret, sha2_384)", new="\t\tP_HASH_FUNCS (ret, sha2_256)"),
    dict(id="gost-case-missing", file="src/pcryptohash.c", expect="C11.1",
         old="\tcase P_CRYPTO_HASH_TYPE_GOST:\n\t\tP_HASH_FUNCS (ret, gost3411)\n\t\tret->hash_len = 32;\n\t\tbreak;\n", new=""),
    dict(id="update-ignores-closed", file="src/pcryptohash.c", expect="C11.2",
         old="\tif (P_UNLIKELY (hash->closed))\n\t\treturn;\n\n\thash->update (hash->context, data, len);", new="\thash->update (hash->context, data, len);"),
    dict(id="get-string-finishes-again", file="src/pcryptohash.c", expect="C11.2",
         old="\tif (!hash->closed) {\n\t\thash->finish (hash->context);\n\t\thash->closed = TRUE;\n\t}\n\n\tif (P_UNLIKELY ((digest = hash->digest (hash->context)) == NULL))\n\t\treturn NULL;",
         new="\thash->finish (hash->context);\n\thash->closed = TRUE;\n\n\tif (P_UNLIKELY ((digest = hash->digest (hash->context)) == NULL))\n\t\treturn NULL;"),
    dict(id="get-digest-not-closed", file="src/pcryptohash.c", expect="C11.2",
         old="\tif (!hash->closed) {\n\t\thash->finish (hash->context);\n\t\thash->closed = TRUE;\n\t}\n\n\tif (P_UNLIKELY ((digest = hash->digest (hash->context)) == NULL)) {\n\t\t*len = 0;",
         new="\tif (!hash->closed) {\n\t\thash->finish (hash->context);\n\t}\n\n\tif (P_UNLIKELY ((digest = hash->digest (hash->context)) == NULL)) {\n\t\t*len = 0;"),
    dict(id="hex-upper", file="src/pcryptohash.c", expect="C11.3",
         old="\"0123456789abcdef\"", new="\"0123456789ABCDEF\""),
    dict(id="sha512-byte-swap-in-digest", expect="C11.2", edits=[
        dict(file="src/pcryptohash-sha2-512.c", old="\treturn (const puchar *) ctx->hash;", new="\tpp_crypto_hash_sha2_512_swap_bytes (ctx->hash, ctx->is384 == FALSE ? 8 : 6);\n\treturn (const puchar *) ctx->hash;")]),
    dict(id="hex-buffer-without-terminator", file="src/pcryptohash.c", expect="C11.3",
         old="p_malloc0 (hash->hash_len * 2 + 1)", new="p_malloc0 (hash->hash_len * 2)"),
    dict(id="hex-loop-stops-one-early", file="src/pcryptohash.c", expect="C11.3",
         old="\tfor (i = 0; i < len; ++i) {\n\t\t*(out + (i << 1)    )", new="\tfor (i = 0; i + 1 < len; ++i) {\n\t\t*(out + (i << 1)    )"),
    dict(id="hex-cursor-form-neutral", file="src/pcryptohash.c", expect=None,
         old="\t\t*(out + (i << 1)    ) = pp_crypto_hash_hex_str[(digest[i] >> 4) & 0x0F];\n\t\t*(out + (i << 1) + 1) = pp_crypto_hash_hex_str[(digest[i]     ) & 0x0F];",
         new="\t\t*out++ = pp_crypto_hash_hex_str[(digest[i] >> 4) & 0x0F];\n\t\t*out++ = pp_crypto_hash_hex_str[(digest[i]     ) & 0x0F];"),
    dict(id="hex-cursor-low-first", file="src/pcryptohash.c", expect="C11.3",
         old="\t\t*(out + (i << 1)    ) = pp_crypto_hash_hex_str[(digest[i] >> 4) & 0x0F];\n\t\t*(out + (i << 1) + 1) = pp_crypto_hash_hex_str[(digest[i]     ) & 0x0F];",
         new="\t\t*out++ = pp_crypto_hash_hex_str[(digest[i]     ) & 0x0F];\n\t\t*out++ = pp_crypto_hash_hex_str[(digest[i] >> 4) & 0x0F];"),
    dict(id="hex-nibbles-swapped", file="src/pcryptohash.c", expect="C11.3",
         old="[(digest[i] >> 4) & 0x0F];\n\t\t*(out + (i << 1) + 1) = pp_crypto_hash_hex_str[(digest[i]     ) & 0x0F];",
         new="[(digest[i]     ) & 0x0F];\n\t\t*(out + (i << 1) + 1) = pp_crypto_hash_hex_str[(digest[i] >> 4) & 0x0F];"),
    dict(id="md5-compare-narrow-again", file="src/pcryptohash-md5.c", expect="C11.4",
         old="\tif (left && len >= to_fill) {", new="\tif (left && (puint32) len >= to_fill) {"),
    dict(id="sha1-high-part-dropped", file="src/pcryptohash-sha1.c", expect="C11.4",
         old="\t/* A single update can be longer than 2^32 bytes */\n\tctx->len_high += (puint32) ((puint64) len >> 32);\n", new=""),
    dict(id="sha256-loop-block-32", file="src/pcryptohash-sha2-256.c", expect="C11.5",
         old="\twhile (len >= 64) {", new="\twhile (len >= 32) {"),
    dict(id="sha512-pad-112-to-120", file="src/pcryptohash-sha2-512.c", expect="C11.5",
         old="(left < 112) ? (112 - left) : (240 - left)", new="(left < 120) ? (120 - left) : (248 - left)"),
    dict(id="md5-bitlength-carry-shift", file="src/pcryptohash-md5.c", expect="C11.5",
         old="\t     | ctx->len_low >> 29;", new="\t     | ctx->len_low >> 28;"),
    dict(id="sha512-bitlength-carry-shift", file="src/pcryptohash-sha2-512.c", expect="C11.5",
         old="\t     | ctx->len_low >> 61;", new="\t     | ctx->len_low >> 29;"),
    dict(id="md5-reset-forgets-len-high", file="src/pcryptohash-md5.c", expect="C11.6",
         old="\tctx->len_low = 0;\n\tctx->len_high = 0;\n\n\tctx->hash[0] = 0x67452301;", new="\tctx->len_low = 0;\n\n\tctx->hash[0] = 0x67452301;"),
    dict(id="sha3-pad-plain-stores", file="src/pcryptohash-sha3.c", expect="C11.7",
         old="\tctx->buf.buf[ctx->len]            |= 0x06;\n\tctx->buf.buf[ctx->block_size - 1] |= 0x80;", new="\tctx->buf.buf[ctx->len]             = 0x06;\n\tctx->buf.buf[ctx->block_size - 1]  = 0x80;"),
    dict(id="sha3-first-pad-plain-neutral", file="src/pcryptohash-sha3.c", expect=None,
         old="\tctx->buf.buf[ctx->len]            |= 0x06;", new="\tctx->buf.buf[ctx->len]             = 0x06;"),
]
