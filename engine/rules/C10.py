"""C10 Socket modes and lifecycle: structural clauses."""
from plint import guards, symx
from plint.flow import Flow
from plint.ir import calls, strip_casts, cv, line, show, root_var, walk, ap
from plint.retry import SPEC, run_scenario
from plint.units import AnalysisBroken
from plint.wiring import wrapper_paths
from rules.C09 import install_errno_table, io_sites, IO_NATIVES, WAIT, EAGAIN, EINPROGRESS

FD_CLOEXEC = 1
F_SETFD = 2
F_SETFL = 4
O_NONBLOCK = 0o4000
SOCK_CLOEXEC = 0o2000000

# functions that read socket->fd without a preceding closed test, one reason each
FD_EXCEPTIONS = {
    "p_socket_get_fd": "accessor: returns the number, touches no descriptor",
    "p_socket_close": "has its own closed test before the close (checked by C10.2)",
    "p_socket_new": "constructor: operates on the descriptor it has just created",
    "p_socket_new_from_fd": "constructor: operates on the descriptor handed in",
    "pp_socket_set_details_from_fd": "constructor helper",
    "p_socket_get_local_address": "non-I/O accessor; after close fd is -1 (C10.2) and the call fails with EBADF without touching a live descriptor",
    "p_socket_get_remote_address": "non-I/O accessor; same as get_local_address",
    "p_socket_check_connect_result": "non-I/O accessor used by connect after its own closed test",
    "p_socket_set_keepalive": "option setter; after close fd is -1 (C10.2)",
}


def run(prog, rep):
    rep.rule("C10.1", "closed-check dominance: in every I/O operation each read of socket->fd is reached only with the closed test passed "
                      "(pp_socket_check, summarised: FALSE + NOT_AVAILABLE exactly when closed)")
    rep.rule("C10.2", "close protocol: on success fd=-1, closed=TRUE, connected=FALSE, listening=FALSE; a second close returns TRUE before any libc call; free closes through p_socket_close")
    rep.rule("C10.3", "non-blocking never waits: in the would-block scenario on a non-blocking socket no path reaches the condition wait or re-issues the call; every wait call in an I/O operation is reached only with socket->blocking true")
    rep.rule("C10.4", "timeout plumbing: poll gets the socket's timeout when positive and a negative constant otherwise; 0 -> TIMED_OUT, 1 -> TRUE, other -> system error; the timeout variable is not modified inside the retry loop")
    rep.rule("C10.5", "getters return the field their setter writes; the backlog setter refuses while listening")
    rep.rule("C10.6", "close-on-exec: descriptors from socket() and accept() carry SOCK_CLOEXEC at creation or get FD_CLOEXEC through fcntl(F_SETFD) on the success path")
    u = prog.unit("psocket.c")
    pe, pfn, table, default = install_errno_table(prog)
    NOT_AVAILABLE = pe.enum_value("P_ERROR_IO_NOT_AVAILABLE")
    TIMED_OUT = pe.enum_value("P_ERROR_IO_TIMED_OUT")
    WOULD_BLOCK = pe.enum_value("P_ERROR_IO_WOULD_BLOCK")

    # ---- summary of pp_socket_check ---------------------------------------
    cands = []
    for f_ in u.functions.values():
        if not f_.static or not f_.params:
            continue
        tests = [n for (b, i, n) in f_.nodes(elsewhere=True) if n["k"] == "member" and n["field"] == "closed" and root_var(n) == f_.param_names()[0]]
        sets = [c for (b, i, c) in f_.calls() if c.get("callee") == "p_error_set_error_p"]
        # role: reads the flag, reports an error, changes nothing and calls nothing else (a static close helper also reads the flag and sets an error)
        writes = [n for (b, i, n) in f_.nodes(elsewhere=True) if n["k"] == "asg" and strip_casts(n["l"])["k"] == "member" and root_var(n["l"]) == f_.param_names()[0]]
        others = [c for (b, i, c) in f_.calls() if c.get("callee") not in ("p_error_set_error_p", "__builtin_expect")]
        if tests and sets and len(f_.blocks) <= 8 and not writes and not others:
            cands.append(f_)
    if len(cands) != 1:
        raise AnalysisBroken("psocket.c: expected one static closed-check helper, found %s" % [f_.name for f_ in cands])
    chk = cands[0]
    CHK = chk.name
    results, fl = wrapper_paths(chk, [])
    ok = True
    msg = ""
    for (facts, k, ret, blk, cur) in results:
        rv = guards.eval_const(ret.get("e"), facts)
        closed = guards.known_nonzero({"k": "member", "arrow": True, "field": "closed", "base": {"k": "ref", "name": chk.param_names()[0], "decl": "param"}}, facts)
        open_ = guards.lookup(facts, "%s->closed" % chk.param_names()[0]) == 0
        if rv == 0 and not closed:
            ok, msg = False, "returns FALSE on a path where the socket is not known closed"
        if rv == 1 and not open_:
            ok, msg = False, "returns TRUE on a path where closed was not tested false"
        if rv is None:
            ok, msg = False, "returns a non-constant"
    errs = [c for (b, i, c) in chk.calls() if c.get("callee") == "p_error_set_error_p"]
    code_ok = len(errs) == 1 and cv(errs[0]["args"][1]) == NOT_AVAILABLE
    rep.ob("C10.1", chk, "summary", ok and code_ok,
           "%s returns FALSE exactly when socket->closed and reports P_ERROR_IO_NOT_AVAILABLE" % CHK if ok and code_ok else
           (msg or "the closed check does not report P_ERROR_IO_NOT_AVAILABLE"), chk.loc[0])

    # ---- C10.1 dominance ----------------------------------------------------
    nops = 0
    for fn in sorted(u.roots(), key=lambda f: f.loc[0]):
        params = fn.param_names()
        if not params:
            continue
        sp = params[0]
        reads = []
        for b, i, s in fn.stmts():
            for n in walk(s):
                if n["k"] == "member" and n["field"] == "fd" and root_var(n) == sp and n.get("rec") == "PSocket_":
                    reads.append((b, i, n))
        # exclude pure stores to fd
        stores = set()
        for b, i, n in fn.nodes():
            if n["k"] == "asg":
                l = strip_casts(n["l"])
                if l is not None and l["k"] == "member" and l["field"] == "fd":
                    stores.add(id(l))
        reads = [(b, i, n) for (b, i, n) in reads if id(n) not in stores]
        if not reads:
            continue
        if fn.name in FD_EXCEPTIONS:
            rep.note("C10.1 exception %s: %s" % (fn.name, FD_EXCEPTIONS[fn.name]))
            continue
        nops += 1
        bad = []
        seen_ok = [0]

        def on_stmt(st, b, i, stmt, fn=fn, sp=sp, bad=bad, seen_ok=seen_ok):
            facts = st
            for n in walk(stmt):
                if n["k"] == "member" and n["field"] == "fd" and root_var(n) == sp and id(n) not in stores:
                    passed = False
                    for (fk, fop, fv) in facts:
                        if fk.startswith("%s(%s," % (CHK, sp)) and ((fop == "==" and fv == 1) or (fop == "!=" and fv == 0)):
                            passed = True
                        if fk == "%s->closed" % sp and fop == "==" and fv == 0:
                            passed = True
                    if passed:
                        seen_ok[0] += 1
                    else:
                        bad.append((line(n), flow.witness_lines(*flow.cur)))
            f2 = guards.transfer(facts, stmt, stable=("%s(%s,error)" % (CHK, sp),))
            return [f2]

        def on_edge(st, b, to, on):
            return guards.edge_assume(st, b, on)
        flow = Flow(fn, [guards.EMPTY], on_stmt, on_edge)
        flow.run()
        rep.ob("C10.1", fn, "fd-use", not bad,
               "every read of %s->fd is reached only after the closed test passed" % sp if not bad else
               "%s->fd is used at line %d on a path that did not pass the closed test (after p_socket_close the operation would touch descriptor -1 "
               "or a descriptor number reused by someone else)" % (sp, bad[0][0]), bad[0][0] if bad else fn.loc[0], bad[0][1] if bad else None)
    rep.floor("C10.1", 11, "summary + 10 operations that use the descriptor")

    # ---- C10.2 close protocol ---------------------------------------------
    cl = u.fn("p_socket_close").inlined()
    sp = cl.param_names()[0]
    okc = True
    cmsg = ""
    rets = []
    ccalls = [c for (b, i, c) in cl.calls() if c.get("callee") in ("p_sys_close", "close")]
    if len(ccalls) != 1:
        raise AnalysisBroken("p_socket_close: expected one close call")
    ck = guards.key(ccalls[0])

    def cs_stmt(st, b, i, stmt):
        facts, outcome, closedseen = st
        if any(x is ccalls[0] for x in calls(stmt)):
            outcome = "called"
            if guards.lookup(facts, "%s->closed" % sp) != 0:
                closedseen = False
        facts = guards.transfer(facts, stmt)
        if stmt["k"] == "ret":
            rets.append((facts, outcome, stmt, closedseen))
        return [(facts, outcome, closedseen)]

    def cs_edge(st, b, to, on):
        facts, outcome, closedseen = st
        f2 = guards.edge_assume(facts, b, on)
        if f2 is None:
            return None
        if outcome == "called":
            if guards.lookup(f2, ck) == 0:
                outcome = "ok"
            elif guards.contradicts(f2, ck, "==", 0):
                outcome = "fail"
        return (f2, outcome, closedseen)
    Flow(cl, [(guards.EMPTY, None, True)], cs_stmt, cs_edge).run()
    results = rets
    for (facts, outcome, ret, closedseen) in rets:
        rv = guards.eval_const(ret.get("e"), facts)
        if outcome is None:
            closed = any(fk == "%s->closed" % sp and fop == "!=" and fv == 0 for (fk, fop, fv) in facts)
            if closed and rv != 1:
                okc, cmsg = False, "closing an already closed socket returns %s, expected TRUE (idempotent)" % rv
            if not closed and rv != 0:
                okc, cmsg = False, "a path returns %s without closing and without the closed test" % rv
        else:
            if not closedseen:
                okc, cmsg = False, "the descriptor is closed on a path where the closed flag was not tested false (a second close touches the descriptor again)"
            if outcome == "ok":
                want = {"%s->fd" % sp: -1, "%s->closed" % sp: 1, "%s->connected" % sp: 0, "%s->listening" % sp: 0}
                for kx, vx in want.items():
                    if guards.lookup(facts, kx) != vx:
                        okc, cmsg = False, "after a successful close %s is %s, expected %d" % (kx, guards.lookup(facts, kx), vx)
                if rv != 1:
                    okc, cmsg = False, "successful close returns %s" % rv
            elif outcome == "fail":
                if rv != 0:
                    okc, cmsg = False, "failed close returns %s" % rv
            else:
                okc, cmsg = False, "the result of the close call is not tested"
    # the closed test precedes p_sys_close
    rep.ob("C10.2", cl, "protocol", okc and bool(results), "fd=-1, closed, !connected, !listening on success; second close returns TRUE without a libc call"
           if okc else cmsg, cl.loc[0])
    fr = u.fn("p_socket_free").inlined()
    cs = [c for (b, i, c) in fr.calls() if c.get("callee") in ("p_socket_close", "p_sys_close", "close")]
    okf = len(cs) == 1 and cs[0].get("callee") == "p_socket_close" and root_var(cs[0]["args"][0]) == fr.param_names()[0]
    if not okf and len(cs) == 1 and cs[0].get("callee") != "p_socket_close" and root_var(cs[0]["args"][0]) == fr.param_names()[0]:
        # the same through a static helper that holds the protocol (inlined here): the one native close is reached only with the
        # closed flag tested false
        fsp = fr.param_names()[0]
        untested = []

        def fs(st, b, i, stmt):
            if any(x is cs[0] for x in calls(stmt)) and guards.lookup(st, "%s->closed" % fsp) != 0:
                untested.append(line(stmt))
            return [guards.transfer(st, stmt)]
        Flow(fr, [guards.EMPTY], fs, lambda st, b, to, on: guards.edge_assume(st, b, on)).run()
        okf = not untested
    rep.ob("C10.2", fr, "free", okf, "p_socket_free closes once, behind the closed test of the close protocol (so an already closed socket is not closed twice)" if okf else
           "p_socket_free does not close exactly once behind the closed test of p_socket_close", fr.loc[0])
    # shutdown wiring: the direction handed to shutdown() is the one asked for - both -> SHUT_RDWR, read -> SHUT_RD, write -> SHUT_WR,
    # neither -> TRUE without a system call - evaluated path by path under each argument pair; after a successful shutdown of both
    # directions the socket reports itself not connected
    sh = u.fn("p_socket_shutdown")
    spn = sh.param_names()
    shc = [c for (b, i, c) in sh.calls() if c.get("callee") == "shutdown"]
    SHUT = {(1, 1): 2, (1, 0): 0, (0, 1): 1}
    shbad = []
    if len(spn) >= 3 and shc:
        for (rd, wr) in ((1, 1), (1, 0), (0, 1), (0, 0)):
            seenhow = []

            def ss(st, b, i, stmt, seenhow=seenhow, rd=rd, wr=wr):
                for c in calls(stmt):
                    if c.get("callee") == "shutdown" and len(c["args"]) >= 2:
                        seenhow.append((guards.eval_const(c["args"][1], st), line(c)))
                if stmt["k"] == "ret":
                    rv = guards.eval_const(stmt.get("e"), st)
                    if (rd, wr) == (0, 0) and guards.lookup(st, "%s->closed" % spn[0]) == 0 and rv != 1:
                        shbad.append((line(stmt), "shutdown of neither direction returns %s, expected TRUE" % rv))
                    if (rd, wr) == (1, 1) and rv == 1 and guards.lookup(st, "%s->connected" % spn[0]) != 0:
                        shbad.append((line(stmt), "after both directions were shut down successfully the socket still reports itself connected"))
                    return []
                return [guards.transfer(st, stmt)]
            f0 = guards.add_fact(guards.add_fact(guards.EMPTY, spn[1], "==", rd), spn[2], "==", wr)
            Flow(sh, [f0], ss, lambda st, b, to, on: guards.edge_assume(st, b, on)).run()
            if (rd, wr) == (0, 0):
                if seenhow:
                    shbad.append((seenhow[0][1], "shutdown () is called although neither direction was asked for"))
            else:
                if not seenhow:
                    shbad.append((sh.loc[0], "shutdown () is not called for read=%d write=%d" % (rd, wr)))
                for (hw, ln_) in seenhow:
                    if hw != SHUT[(rd, wr)]:
                        shbad.append((ln_, "read=%d write=%d reaches shutdown () with direction %s instead of %d (%s): %s" % (
                            rd, wr, hw, SHUT[(rd, wr)], {2: "SHUT_RDWR", 0: "SHUT_RD", 1: "SHUT_WR"}[SHUT[(rd, wr)]],
                            "a direction the caller wanted to keep is closed" if hw in (0, 1, 2) else "the direction is not a constant on this path")))
    rep.ob("C10.2", sh, "shutdown", bool(shc) and not shbad, "shutdown () gets SHUT_RDWR / SHUT_RD / SHUT_WR exactly for both / read / write, nothing for neither, and clears connected after both" if (shc and not shbad)
           else ("line %d: %s" % shbad[0] if shbad else "the shutdown () call was not found"), shbad[0][0] if shbad else sh.loc[0])
    rep.floor("C10.2", 3)

    # ---- C10.3 non-blocking never waits -------------------------------------
    n3 = 0
    for (fn, b, i, c, site) in io_sites(u):
        name = c.get("callee")
        if name in IO_NATIVES or name == "connect":
            err = EAGAIN if name != "connect" else EINPROGRESS
            res = run_scenario(fn, b, i, c, -1, err, extra_facts=[("%s->blocking" % fn.param_names()[0], "==", 0)], watch=[WAIT], excuse_other_calls=False)
            bad = res["retried"] > 0 or WAIT in res["reached"]
            n3 += 1
            rep.ob("C10.3", fn, site + ":nonblocking", not bad,
                   "non-blocking socket: %s reporting would-block/in-progress leads to an error return without waiting or retrying" % name if not bad else
                   "non-blocking socket: after %s reports would-block a path %s" % (name, "re-issues the call (busy loop)" if res["retried"] else "waits in " + WAIT), c)
    # blocking mode: a would-block result goes back to the wait ("waits until it can proceed / until T elapsed"),
    # it is never reported as WOULD_BLOCK before the timeout
    for (fn, b, i, c, site) in io_sites(u):
        name = c.get("callee")
        if name in IO_NATIVES:
            res = run_scenario(fn, b, i, c, -1, EAGAIN, extra_facts=[("%s->blocking" % fn.param_names()[0], "!=", 0)], watch=[WAIT])
            okb = not res["escapes"] and res["retried"] > 0 and WAIT in res["reached"]
            e = res["escapes"][0] if res["escapes"] else None
            rep.ob("C10.3", fn, site + ":blocking", okb,
                   "blocking socket: %s reporting would-block leads back to the condition wait (which enforces the timeout) and the call" % name if okb else
                   "blocking socket: after %s reports would-block a path %s without waiting: the call fails at once with a would-block error instead of waiting for the timeout"
                   % (name, ("%s at line %d" % (e[0], e[1])) if e else "does not re-issue the call"), c, e[2] if e else None)
    # every WAIT call inside an I/O operation is guarded by socket->blocking
    for fn in u.roots():
        if fn.name == WAIT:
            continue
        waits = [(b, i, c) for (b, i, c) in fn.calls() if c.get("callee") == WAIT]
        if not waits:
            continue
        unguarded = []

        def on_stmt(st, b, i, stmt, unguarded=unguarded):
            for c in calls(stmt):
                if c.get("callee") == WAIT:
                    sp = root_var(c["args"][0])
                    if not any(fk == "%s->blocking" % sp and ((fop == "!=" and fv == 0) or (fop == "==" and fv != 0)) for (fk, fop, fv) in st):
                        unguarded.append(line(c))
            return [guards.transfer(st, stmt)]
        flow = Flow(fn, [guards.EMPTY], on_stmt, lambda st, b, to, on: guards.edge_assume(st, b, on))
        flow.run()
        rep.ob("C10.3", fn, "wait:guard", not unguarded,
               "every condition wait is reached only with socket->blocking true" if not unguarded else
               "line %d: the condition wait is reached without socket->blocking being tested true (a non-blocking socket would block)" % unguarded[0],
               unguarded[0] if unguarded else fn.loc[0])
    # the whole mode emulation stands on one fact: the descriptor inside a PSocket is *always* non-blocking (the wait, with the
    # timeout, is done by poll; the native call then never sleeps).  (a) the mode setter - by role: the unit function that issues
    # fcntl(F_SETFL) - ORs O_NONBLOCK into the flags on every path on which its boolean parameter is false; (b) every constructor
    # that installs a descriptor into a fresh object passes through that setter with FALSE before it can return the object
    setters = [f for f in u.functions.values() if any(c.get("callee") == "fcntl" and len(c["args"]) >= 3 and cv(c["args"][1]) == F_SETFL for (b, i, c) in f.calls())]
    if len(setters) > 1:
        # another function that happens to use F_SETFL (for something else, rightly or wrongly - C10.6 judges that) is not the mode setter:
        # the setter is the one that computes with O_NONBLOCK
        setters = [f for f in setters if any(n["k"] in ("bin", "asg") and O_NONBLOCK in (cv(n.get("l")), cv(n.get("r")), ~(cv(n.get("r")) or 0) & 0xffffffff, ~(cv(n.get("l")) or 0) & 0xffffffff)
                                             for (b, i, n) in f.nodes(elsewhere=True) if n["k"] in ("bin", "asg"))]
    if len(setters) != 1 or len(setters[0].param_names()) < 2:
        raise AnalysisBroken("psocket.c: expected exactly one function that sets the descriptor status flags (fcntl F_SETFL)")
    S = setters[0]
    bpar = S.param_names()[1]
    wrong = []

    def s_stmt(st, b, i, stmt, wrong=wrong):
        facts, mode = st
        for n in walk(stmt):
            if n["k"] in ("bin", "asg") and n.get("op") in ("|", "|=") and O_NONBLOCK in (cv(n["l"]), cv(n["r"])):
                mode = "set"
            elif n["k"] in ("bin", "asg") and n.get("op") in ("&", "&=") and any(m is not None and m & O_NONBLOCK == 0 and m & 0xffff == 0xffff & ~O_NONBLOCK for m in (cv(n["l"]), cv(n["r"]))):
                mode = "cleared"
            elif n["k"] == "call" and n.get("callee") == "fcntl" and len(n["args"]) >= 3 and cv(n["args"][1]) == F_SETFL and mode != "set":
                wrong.append((line(n), mode))
        return [(guards.transfer(facts, stmt), mode)]

    def s_edge(st, b, to, on):
        f2 = guards.edge_assume(st[0], b, on)
        return None if f2 is None else (f2, st[1])
    Flow(S, [(guards.add_fact(guards.EMPTY, bpar, "==", 0), "none")], s_stmt, s_edge).run()
    rep.ob("C10.3", S, "mode:nonblocking", not wrong, "asked for blocking=FALSE, %s ORs O_NONBLOCK into the status flags before fcntl(F_SETFL) on every path" % S.name if not wrong else
           "line %d: with blocking=FALSE the flags handed to fcntl(F_SETFL) %s: the descriptor stays blocking, a non-blocking socket sleeps in the native call and a timeout is never honoured" % (
               wrong[0][0], "have O_NONBLOCK cleared" if wrong[0][1] == "cleared" else "were never ORed with O_NONBLOCK"), wrong[0][0] if wrong else S.loc[0])
    nctor = 0
    for fr in sorted(u.functions.values(), key=lambda f: f.loc[0]):
        if not any(c.get("callee") in ("p_malloc0", "p_malloc") for (b, i, c) in fr.calls()):
            continue
        fn = fr.inlined(skip=(S.name,))
        objs = set()
        for (b, i, n) in fn.nodes():
            if n["k"] == "asg" and strip_casts(n["r"]) is not None and strip_casts(n["r"])["k"] == "call" and strip_casts(n["r"]).get("callee") in ("p_malloc0", "p_malloc") \
                    and strip_casts(n["l"]) is not None and strip_casts(n["l"])["k"] == "ref":
                objs.add(strip_casts(n["l"])["name"])
        inst = [n for (b, i, n) in fn.nodes() if n["k"] == "asg" and strip_casts(n["l"])["k"] == "member" and strip_casts(n["l"])["field"] == "fd" and root_var(n["l"]) in objs and cv(n["r"]) != -1]
        if not inst:
            continue
        nctor += 1
        obj = root_var(inst[0]["l"])
        blocking_exit = []

        def c_stmt(st, b, i, stmt, blocking_exit=blocking_exit, obj=obj, fn=fn):
            facts, done = st
            for n in walk(stmt):
                if n["k"] == "call" and n.get("callee") == S.name and len(n["args"]) >= 2 and (cv(n["args"][1]) == 0 or guards.lookup(facts, guards.key(n["args"][1])) == 0):
                    done = True
                if n["k"] == "asg" and strip_casts(n["l"])["k"] == "member" and strip_casts(n["l"])["field"] == "fd" and root_var(n["l"]) == obj:
                    done = False
            if stmt["k"] == "ret" and stmt.get("e") is not None and not done:
                e = fn.resolve(stmt["e"]) or strip_casts(stmt["e"])
                if (root_var(stmt["e"]) == obj or root_var(e) == obj) and guards.lookup(facts, obj) != 0:
                    blocking_exit.append(line(stmt))
            return [(guards.transfer(facts, stmt), done)]
        Flow(fn, [(guards.EMPTY, False)], c_stmt, s_edge, max_states=20000).run()
        rep.ob("C10.3", fr, "descriptor:nonblocking", not blocking_exit, "the descriptor installed in the new socket goes through %s (…, FALSE) on every path that returns the object" % S.name if not blocking_exit else
               "line %d: %s returns the new socket without having put its descriptor into non-blocking mode (%s with FALSE is not on this path): a descriptor that arrives blocking makes a "
               "non-blocking PSocket sleep inside recv/send/accept, and a timeout T is never enforced" % (blocking_exit[0], fr.name, S.name), blocking_exit[0] if blocking_exit else fr.loc[0])
    if nctor < 2:
        raise AnalysisBroken("psocket.c: expected two constructors that install a descriptor (p_socket_new, p_socket_new_from_fd), found %d" % nctor)
    rep.floor("C10.3", 16 + 3)

    # ---- C10.4 timeout plumbing ----------------------------------------------
    w = u.fn(WAIT).inlined()
    polls = [(b, i, c) for (b, i, c) in w.calls() if c.get("callee") in ("poll", "select")]
    if len(polls) != 1 or polls[0][2].get("callee") != "poll":
        raise AnalysisBroken("p_socket_io_condition_wait: expected exactly one poll call")
    pb, pi, pc = polls[0]
    sp = w.param_names()[0]
    T = ("m0", ("fld", ("p", sp), "timeout"))
    seen_t = []

    def on_poll(name, args, node, st, sx):
        if name == "poll" and node is pc:
            seen_t.append((symx.norm(args[2]), st.copy()))
        return None
    sfw = symx.SymFlow(w, on_call=on_poll, widen=True)
    sfw.run()
    okt = bool(seen_t)
    tmsg = "cannot identify the value passed to poll as timeout"
    first = None
    for (term, st_) in seen_t:
        if term[0] == "hv" or term[0] == "lv":
            okt, tmsg = False, "the timeout value is modified inside the retry loop"
            break
        alts = []
        if term[0] == "sel":
            alts = [(term[1], True, term[2]), (term[1], False, term[3])]
        else:
            alts = [(None, None, term)]
        for (c_, truth, v) in alts:
            if v == T:
                # must be reached only with timeout > 0 (or != 0 when the setter clamps negatives)
                pos = symx.norm(("cmp", ">", T, symx.C(0)))
                nz = symx.norm(("cmp", "!=", T, symx.C(0)))
                ge1 = symx.norm(("cmp", ">=", T, symx.C(1)))
                known_pos = (c_ == pos and truth) or st_.cond_known(pos) is True or (c_ == ge1 and truth) or st_.cond_known(ge1) is True
                known_nz = (c_ == nz and truth) or st_.cond_known(nz) is True
                if known_pos:
                    continue
                if known_nz:
                    if not setter_clamps(u):
                        okt, tmsg = False, "poll timeout selects on timeout != 0 but the setter does not clamp negative values"
                    continue
                okt, tmsg = False, "poll is given socket->timeout on a path where it may be 0: 0 (no timeout) makes poll return at once instead of waiting"
            elif v[0] == "c":
                if v[1] >= 0:
                    okt, tmsg = False, "poll is given the constant timeout %d: the call cannot wait without a limit" % v[1]
                else:
                    # negative constant: only when the socket timeout is not positive
                    pos = symx.norm(("cmp", ">", T, symx.C(0)))
                    if (c_ == pos and truth is False) or st_.cond_known(pos) is False or c_ is not None and c_ != pos and truth is False \
                            or st_.cond_known(symx.norm(("cmp", "!=", T, symx.C(0)))) is False:
                        continue
                    if c_ is None and st_.cond_known(pos) is None:
                        okt, tmsg = False, "poll waits without a limit although the socket timeout may be positive"
            else:
                okt, tmsg = False, "poll timeout is %s" % symx.show(term)
    rep.ob("C10.4", w, "timeout:value", okt, "poll waits socket->timeout ms when positive, forever (negative) otherwise; the value is fixed before the retry loop" if okt else tmsg, pc)
    # result mapping
    evk = guards.key(pc)
    results, fl = wrapper_paths(w, ["poll"])
    okm = True
    mmsg = ""
    seen = set()
    errs = {}

    def on_stmt2(st, b, i, stmt):
        for c in calls(stmt):
            if c.get("callee") == "p_error_set_error_p":
                errs[line(c)] = (st, c)
        return [guards.transfer(st, stmt)]
    f2 = Flow(w, [guards.EMPTY], on_stmt2, lambda st, b, to, on: guards.edge_assume(st, b, on))
    f2.run()
    for (facts, k, ret, blk, cur) in results:
        if k == 0:
            continue
        rv = guards.eval_const(ret.get("e"), facts)
        ev = guards.lookup(facts, evk)
        if ev == 1:
            seen.add(1)
            if rv != 1:
                okm, mmsg = False, "poll returned 1 (ready) but the wait returns %s" % rv
        elif ev == 0:
            seen.add(0)
            if rv != 0:
                okm, mmsg = False, "poll returned 0 (timed out) but the wait returns %s" % rv
        else:
            if rv != 0:
                okm, mmsg = False, "poll failed but the wait returns %s" % rv
    for ln, (facts, c) in errs.items():
        ev = guards.lookup(facts, evk)
        code = cv(c["args"][1])
        if ev == 0 and code != TIMED_OUT:
            okm, mmsg = False, "line %d: poll returning 0 is reported with error code %s, expected P_ERROR_IO_TIMED_OUT" % (ln, code)
        if ev == 0:
            seen.add("err0")
    if not {0, 1, "err0"} <= seen:
        okm, mmsg = False, mmsg or "result mapping incomplete: cases seen %s" % sorted(map(str, seen))
    rep.ob("C10.4", w, "timeout:result", okm, "poll 1 -> TRUE, 0 -> FALSE with P_ERROR_IO_TIMED_OUT, failure -> FALSE" if okm else mmsg, pc)
    # a poll that came back with a verdict - a ready descriptor (1, whatever revents says: POLLERR/POLLHUP alone wake it too and the
    # native call then reports the reason) or the timeout (0) - ends the wait; only an interrupted one is re-entered.  Going round
    # again on a level-triggered poll spins forever.  errno is whatever an earlier call left (EINTR included): it means nothing here
    from plint.retry import facts_before
    before = facts_before(w, pb, pi)         # e.g. the reset of a loop flag in front of the call
    for pv in (1, 0):
        for ev_ in (0, 4):
            res = run_scenario(w, pb, pi, pc, pv, ev_, extra_facts=before, excuse_other_calls=False)
            again = res["retried"] > 0
            rep.ob("C10.4", w, "timeout:verdict=%d,errno=%d" % (pv, ev_), not again, "poll returning %d ends the wait on every path" % pv if not again else
                   "poll returned %d (%s) and a path goes back into poll instead of returning: for a condition that stays raised (an error or hang-up on the descriptor) "
                   "the wait spins forever and the blocking call neither completes nor fails" % (pv, "a descriptor is ready" if pv else "timed out"), pc)
    # an interrupted poll is re-entered with the full timeout: it never turns into "timed out" before T elapsed
    from plint.retry import check_retry
    check_retry(rep, "C10.4", w, pb, pi, pc, "timeout:eintr")
    rep.floor("C10.4", 3 + 4)

    # ---- C10.5 getters / setters ---------------------------------------------
    pairs = [("p_socket_get_keepalive", "p_socket_set_keepalive", "keepalive"),
             ("p_socket_get_blocking", "p_socket_set_blocking", "blocking"),
             ("p_socket_get_listen_backlog", "p_socket_set_listen_backlog", "listen_backlog"),
             ("p_socket_get_timeout", "p_socket_set_timeout", "timeout")]
    for g, s, fld in pairs:
        gf, sf = u.fn(g).inlined(), u.fn(s).inlined()
        rets = [r for (b, i, r) in gf.returns()]
        gfields = set()
        for r in rets:
            e = strip_casts(r.get("e"))
            if e is not None and e["k"] == "member":
                gfields.add(e["field"])
        sfields = set()
        for b, i, n in sf.nodes():
            if n["k"] == "asg":
                l = strip_casts(n["l"])
                if l is not None and l["k"] == "member":
                    sfields.add(l["field"])
        ok5 = gfields == sfields and len(gfields) == 1
        rep.ob("C10.5", gf, "field", ok5, "%s returns %s, the field %s writes" % (g, sorted(gfields), s) if ok5 else
               "%s returns %s but %s writes %s" % (g, sorted(gfields), s, sorted(sfields)), gf.loc[0])
    for g, fld in (("p_socket_is_connected", "connected"), ("p_socket_is_closed", "closed")):
        gf = u.fn(g).inlined()
        gfields = set()
        for (b, i, r) in gf.returns():
            e = strip_casts(r.get("e"))
            if e is not None and e["k"] == "member":
                gfields.add(e["field"])
        rep.ob("C10.5", gf, "field", gfields == {fld}, "%s returns the %s flag" % (g, fld) if gfields == {fld} else "%s returns %s" % (g, sorted(gfields)), gf.loc[0])
    sb = u.fn("p_socket_set_listen_backlog").inlined()
    bad = []

    def on_stmt3(st, b, i, stmt):
        for n in walk(stmt):
            if n["k"] == "asg":
                l = strip_casts(n["l"])
                if l is not None and l["k"] == "member" and l["field"] == "listen_backlog":
                    spn = sb.param_names()[0]
                    if guards.lookup(st, "%s->listening" % spn) != 0:
                        bad.append(line(n))
        return [guards.transfer(st, stmt)]
    Flow(sb, [guards.EMPTY], on_stmt3, lambda st, b, to, on: guards.edge_assume(st, b, on)).run()
    rep.ob("C10.5", sb, "backlog:listening", not bad, "the backlog is changed only while not listening" if not bad else
           "line %d: the backlog is changed while the socket may be listening" % bad[0], sb.loc[0])
    # flag fields are 1-bit bit-fields: a store keeps only the lowest bit, so every value stored into one must
    # already be 0/1 (comparison, logical negation, !!x, a constant, another flag) - otherwise set_x (s, 2) reads back FALSE
    rec = u.records.get("PSocket_")
    if rec is None:
        raise AnalysisBroken("struct PSocket_ not found")
    bitfields = {f["name"]: f["bw"] for f in rec.fields if f.get("bw")}
    nbf = 0
    for fn in sorted(u.functions.values(), key=lambda f: f.loc[0]):
        for b, i, n in fn.nodes():
            if n["k"] != "asg":
                continue
            l = strip_casts(n["l"])
            if l is None or l["k"] != "member" or l.get("rec") != "PSocket_" or l["field"] not in bitfields:
                continue
            nbf += 1
            okn = boolean_valued(n["r"], fn, bitfields) and n["op"] == "="
            rep.ob("C10.5", fn, "flag:%s@%s" % (l["field"], fn.name), okn,
                   "%s (1-bit flag) receives a 0/1 value" % l["field"] if okn else
                   "line %d: %s is a %d-bit bit-field but receives %s, which is not normalised to 0/1: only the lowest bit survives, so a true value such as 2 "
                   "is stored as FALSE and the getter (and the blocking/closed logic) disagrees with the call" % (line(n), l["field"], bitfields[l["field"]], show(n["r"])), n)
    rep.floor("C10.5", 7 + 8)

    # ---- C10.6 close-on-exec -----------------------------------------------
    for fname, creator, typearg in (("p_socket_new", "socket", 1), ("p_socket_accept", "accept", None)):
        fn = u.fn(fname).inlined()
        cs = [(b, i, c) for (b, i, c) in fn.calls() if c.get("callee") == creator]
        if len(cs) != 1:
            raise AnalysisBroken("%s: expected one %s() call" % (fname, creator))
        b, i, c = cs[0]
        at_creation = False
        if typearg is not None:
            ta = strip_casts(c["args"][typearg])

            def has_flag(e):
                e = strip_casts(e)
                if e is None:
                    return False
                if cv(e) is not None:
                    return bool(cv(e) & SOCK_CLOEXEC)
                return e["k"] == "bin" and e["op"] == "|" and (has_flag(e["l"]) or has_flag(e["r"]))
            if has_flag(ta):
                at_creation = True              # `socket (family, native_type | SOCK_CLOEXEC, protocol)`
            elif ta is not None and ta["k"] == "ref":
                # `native_type |= SOCK_CLOEXEC` (or `native_type = ... | SOCK_CLOEXEC`) dominating the call, no plain assignment without the
                # flag in between
                for bb, ii, n in fn.nodes():
                    if n["k"] == "asg" and n["op"] in ("|=", "=") and strip_casts(n["l"])["k"] == "ref" and root_var(n["l"]) == ta["name"] and has_flag(n["r"]) \
                            and fn.pos_dominates((bb.id, ii), (b.id, i)):
                        later = [(b2, i2) for b2, i2, n2 in fn.nodes() if n2["k"] == "asg" and n2["op"] == "=" and root_var(n2["l"]) == ta["name"] and not has_flag(n2["r"])
                                 and fn.pos_dominates((bb.id, ii), (b2.id, i2)) and (b2.id, i2) != (bb.id, ii)]
                        if not later:
                            at_creation = True
        # fcntl route: in the scenario "creation succeeded, F_GETFD reported no FD_CLOEXEC" every path to any
        # return passes fcntl(fdvar, F_SETFD, x) where FD_CLOEXEC was or-ed into x
        fdvar = None
        for bb, ii, s_ in fn.stmts():
            for n in walk(s_):
                if n["k"] == "asg" and any(x is c for x in calls(n["r"])):
                    fdvar = root_var(n["l"])
        via_fcntl = False
        fmsg = ""
        setfd = []
        fdvars = fn.copies_of(fdvar) if fdvar else set()
        for bb, ii, c2 in fn.calls():
            if c2.get("callee") == "fcntl" and cv(c2["args"][1]) == F_SETFD and root_var(c2["args"][0]) in fdvars and len(c2["args"]) > 2:
                flagv = root_var(c2["args"][2])
                a2 = strip_casts(c2["args"][2])
                ored = a2 is not None and a2["k"] == "bin" and a2["op"] == "|" and ((cv(a2["r"]) or 0) & FD_CLOEXEC or (cv(a2["l"]) or 0) & FD_CLOEXEC)
                for b3, i3, n3 in fn.nodes():
                    if n3["k"] == "asg" and n3["op"] == "|=" and root_var(n3["l"]) == flagv and (cv(n3["r"]) or 0) & FD_CLOEXEC \
                            and fn.pos_dominates((b3.id, i3), (bb.id, ii)):
                        ored = True
                if ored:
                    setfd.append(c2)
        if setfd and fdvar:
            getfd_keys = [guards.key(c3) for (b3, i3, c3) in fn.calls() if c3.get("callee") == "fcntl" and cv(c3["args"][1]) == 1]

            def mark(stmt, facts, setfd=setfd):
                return any(x is y for x in calls(stmt) for y in setfd)
            res = run_scenario(fn, b, i, c, 7, 0, extra_facts=[(k, "==", 0) for k in getfd_keys], excuse_other_calls=False, mark=mark)
            via_fcntl = not res["escapes"]
            if res["escapes"]:
                fmsg = "a path from the successful %s() returns at line %d without fcntl(F_SETFD, ... | FD_CLOEXEC)" % (creator, res["escapes"][0][1])
        rep.ob("C10.6", fn, "cloexec:" + creator, at_creation or via_fcntl,
               "%s() descriptor: %s" % (creator, " and ".join(x for x in ("SOCK_CLOEXEC at creation" if at_creation else "",
                                                                      "FD_CLOEXEC via fcntl(F_SETFD) on the success path" if via_fcntl else "") if x))
               if (at_creation or via_fcntl) else
               "the descriptor returned by %s() gets close-on-exec neither at creation nor through fcntl(F_SETFD, ... | FD_CLOEXEC)%s" % (creator, ": " + fmsg if fmsg else ""), c)
        if typearg is not None:
            # a descriptor that socket() can create with the flag set is created with it: the fcntl route leaves a window between the
            # two system calls in which a fork + exec in another thread inherits the socket (fork copies the flag per descriptor)
            rep.ob("C10.6", fn, "cloexec:atomic", at_creation,
                   "socket() is given SOCK_CLOEXEC: the descriptor never exists without close-on-exec" if at_creation else
                   "line %d: socket() is called without SOCK_CLOEXEC although the platform provides it; close-on-exec arrives only with a later fcntl, and a "
                   "fork + exec of another thread between the two calls inherits the socket" % line(c), c)
    rep.floor("C10.6", 3)


def boolean_valued(e, fn, bitfields, _depth=0):
    """Is the expression certainly 0 or 1?"""
    while e is not None and e["k"] == "cast":     # peel casts only: strip_casts would also fold `!!x` into x
        e = e["e"]
    if e is None:
        return False
    v = cv(e)
    if v is not None:
        return v in (0, 1)
    k = e["k"]
    if k == "un" and e["op"] == "!":
        return True
    if k == "bin" and e["op"] in ("==", "!=", "<", ">", "<=", ">=", "&&", "||"):
        return True
    if k == "member" and e["field"] in bitfields and bitfields[e["field"]] == 1:
        return True
    if k == "cond":
        return boolean_valued(e["a"], fn, bitfields, _depth) and boolean_valued(e["b"], fn, bitfields, _depth)
    if k == "call" and e.get("callee") == "__builtin_expect":
        return boolean_valued(e["args"][0], fn, bitfields, _depth)
    if k == "ref" and e.get("decl") == "param" and _depth < 4 and fn.d.get("static"):
        # the parameter of a static helper (`pp_socket_mark_connected (sock, val == 0)`): 0/1 when every caller in the unit passes a
        # 0/1 value and nothing in the helper assigns it
        base = getattr(fn, "inlined_from", None) or fn
        names = [p_["name"] for p_ in base.d.get("params", [])]
        if e["name"] in names:
            idx = names.index(e["name"])
            assigned = any(n["k"] == "asg" and root_var(n["l"]) == e["name"] and strip_casts(n["l"])["k"] == "ref" for b, i, n in base.nodes(elsewhere=True))
            sites = [(f2, c) for f2 in base.unit.functions.values() for (b, i, c) in f2.calls() if c.get("callee") == base.name and len(c.get("args", ())) > idx]
            return bool(sites) and not assigned and all(boolean_valued(c["args"][idx], f2, bitfields, _depth + 1) for (f2, c) in sites)
        return False
    if k == "ref" and e.get("decl") == "local" and _depth < 4:
        # a local every definition of which is 0/1 (`is_connected = TRUE; ... else is_connected = FALSE;`)
        defs = []
        for b, i, n in fn.nodes(elsewhere=True):
            if n["k"] == "asg" and strip_casts(n["l"]) is not None and strip_casts(n["l"])["k"] == "ref" and strip_casts(n["l"])["name"] == e["name"]:
                defs.append(n["r"] if n["op"] == "=" else None)
            elif n["k"] == "decl" and n.get("name") == e["name"] and n.get("init") is not None:
                defs.append(n["init"])
            elif n["k"] == "un" and ("++" in n.get("op", "") or "--" in n.get("op", "")) and root_var(n["e"]) == e["name"]:
                defs.append(None)
            elif n["k"] == "un" and n.get("op") == "&" and strip_casts(n["e"]) is not None and strip_casts(n["e"])["k"] == "ref" and strip_casts(n["e"])["name"] == e["name"]:
                defs.append(None)          # its address escapes: anything may be stored
        return bool(defs) and all(d is not None and boolean_valued(d, fn, bitfields, _depth + 1) for d in defs)
    return False


def setter_clamps(u):
    sf = u.fn("p_socket_set_timeout").inlined()
    for b, i, n in sf.nodes():
        if n["k"] == "asg" and cv(n["r"]) == 0:
            return True
    return False


def controlling_conditions(fn, bid):
    """[(block, cond_expr)] of branches the block `bid` is control dependent on (transitively)."""
    out = []
    seen = set()
    work = [bid]
    while work:
        x = work.pop()
        for a in fn.reachable_blocks():
            blk = fn.blocks[a]
            if len(blk.succs) < 2:
                continue
            # x is control dependent on a if x postdominates some successor of a but not a itself
            pd = [fn.postdominates(x, s) or x == s for (s, on) in blk.succs]
            if any(pd) and not all(pd) and not (fn.postdominates(x, a) and x != a):
                if a not in seen:
                    seen.add(a)
                    if blk.cond is not None:
                        out.append((a, blk.cond))
                    work.append(a)
    return out


# objects are zero-filled at birth: the functions of these units rely on it for every field their constructors do not store
_run_clauses = run


def run(prog, rep):
    _run_clauses(prog, rep)
    from plint.wiring import check_zero_init, check_error_contract
    from plint.wiring import result_tests
    _ru = prog.unit("psocket.c")
    _nrt, _brt = result_tests(_ru)
    if _nrt < 3:
        raise AnalysisBroken("result tests: only %d comparisons of system call results found in %s" % (_nrt, _ru.name))
    rep.ob("C10.5", _brt[0][0] if _brt else sorted(_ru.functions.values(), key=lambda f_: f_.loc[0])[0], "result-tests", not _brt,
           "%d tests of system call results put 0 (or a valid descriptor) on the success side" % _nrt if not _brt else
           ("line %d: `%s` in %s counts a successful call as failed (or descriptor 0 as no descriptor): what the call did in the kernel is not recorded in the object, or a valid "
            "descriptor is dropped" % (line(_brt[0][1]), _brt[0][2], _brt[0][0].name) if _brt else "fewer result tests than expected (%d)" % _nrt), _brt[0][1] if _brt else _ru.functions[sorted(_ru.functions)[0]].loc[0])
    check_error_contract(rep, "C10.1", prog, ['psocket.c'], 50)
    check_zero_init(rep, "C10.5", prog, ['psocket.c'], 1)
    # the connected getter after a completed non-blocking connect: p_socket_check_connect_result records the verdict it returns -
    # once SO_ERROR was read, `connected` is stored on every path and holds exactly (SO_ERROR == 0), so a refused attempt on a
    # socket that was marked connected before does not leave the getter saying TRUE
    _cr = _ru.fn("p_socket_check_connect_result").inlined()
    _gs = [c_ for (b_, i_, c_) in _cr.calls() if c_.get("callee") == "getsockopt"]
    if len(_gs) != 1:
        raise AnalysisBroken("p_socket_check_connect_result: expected one getsockopt call, found %d" % len(_gs))
    _val = root_var(_gs[0]["args"][3])
    _gk = guards.key(_gs[0])
    _bad = []
    _nret = [0]
    _exprs = []

    def _cs(st, b_, i_, stmt):
        facts, seen, stored = st
        if any(x is _gs[0] for x in calls(stmt)):
            seen = True
        for n_ in walk(stmt):
            if n_["k"] == "asg":
                l_ = strip_casts(n_["l"])
                if l_ is not None and l_["k"] == "member" and l_["field"] == "connected":
                    v_ = guards.eval_const(n_["r"], facts)
                    if v_ is None:
                        _exprs.append(n_["r"])
                        stored = ("e", len(_exprs) - 1)
                    else:
                        stored = ("c", 1 if v_ else 0)
        if stmt["k"] == "ret" and seen and not guards.contradicts(facts, _gk, ">=", 0) and guards.lookup(facts, _gk) != -1:
            for (sv, want) in ((0, 1), (111, 0)):
                f_ = guards.add_fact(facts, _val, "==", sv)
                if f_ is None:
                    continue
                _nret[0] += 1
                if stored is None:
                    got = None
                elif stored[0] == "c":
                    got = stored[1]
                else:
                    got = guards.eval_const(_exprs[stored[1]], f_)
                    got = None if got is None else (1 if got else 0)
                if got != want:
                    _bad.append((line(stmt), sv, got))
        return [(guards.transfer(facts, stmt), seen, stored)]

    def _ce(st, b_, to, on):
        f2 = guards.edge_assume(st[0], b_, on)
        return None if f2 is None else (f2, st[1], st[2])
    Flow(_cr, [(guards.EMPTY, False, None)], _cs, _ce).run()
    if not _nret[0]:
        raise AnalysisBroken("p_socket_check_connect_result: no return after a successful getsockopt found")
    rep.ob("C10.5", _cr, "connected:so_error", not _bad,
           "on each of the %d (return, SO_ERROR) cases after a successful getsockopt `connected` was stored as (SO_ERROR == 0)" % _nret[0] if not _bad else
           "line %d: returns with SO_ERROR == %d read but `connected` %s: the connected getter does not reflect the outcome of the attempt"
           % (_bad[0][0], _bad[0][1], "not stored on this path (it keeps its earlier value)" if _bad[0][2] is None else "stored as %d" % _bad[0][2]), _cr.loc[0])

# generic robustness battery: renaming every local/parameter in these files must not change any verdict
RENAME_LOCALS = ['src/psocket.c']

SELFTEST = [
    dict(id="socket-cloexec-flag-in-the-call-neutral", file="src/psocket.c", expect=None, edits=[
        dict(file="src/psocket.c", old="#ifdef SOCK_CLOEXEC\n\tnative_type |= SOCK_CLOEXEC;\n#endif\n", new=""),
        dict(file="src/psocket.c", old="socket (family, native_type, protocol)", new="socket (family, native_type | SOCK_CLOEXEC, protocol)")]),
    dict(id="socket-created-without-cloexec-flag", file="src/psocket.c", expect="C10.6",
         old="#ifdef SOCK_CLOEXEC\n\tnative_type |= SOCK_CLOEXEC;\n#endif\n", new=""),
    dict(id="check-connect-result-through-helper-neutral", expect=None, edits=[
        dict(file="src/psocket.c", old="\tsocket->connected = (val == 0);\n\n\treturn (val == 0);", new="\treturn pp_socket_mark_connected (socket, val == 0);"),
        dict(file="src/psocket.c", old="P_LIB_API pboolean\np_socket_check_connect_result",
             new="static pboolean\npp_socket_mark_connected (PSocket *sock, pboolean established)\n{\n\tsock->connected = established;\n\treturn established;\n}\n\nP_LIB_API pboolean\np_socket_check_connect_result")]),
    dict(id="set-blocking-helper-stores-raw-flag", expect="C10.5", edits=[
        dict(file="src/psocket.c", old="\tsocket->blocking = !! blocking;", new="\tpp_socket_store_blocking (socket, blocking);"),
        dict(file="src/psocket.c", old="P_LIB_API void\np_socket_set_blocking",
             new="static void\npp_socket_store_blocking (PSocket *sock, pboolean flag)\n{\n\tsock->blocking = flag;\n}\n\nP_LIB_API void\np_socket_set_blocking")]),
    dict(id="check-connect-result-keeps-connected", file="src/psocket.c", expect="C10.5",
         old="\t\t\t\t     \"Error in socket layer\");\n\n\tsocket->connected = (val == 0);\n\n\treturn (val == 0);",
         new="\t\t\t\t     \"Error in socket layer\");\n\n\tif (val != 0)\n\t\treturn FALSE;\n\n\tsocket->connected = TRUE;\n\n\treturn TRUE;"),
    dict(id="check-connect-result-store-split-neutral", file="src/psocket.c", expect=None,
         old="\t\t\t\t     \"Error in socket layer\");\n\n\tsocket->connected = (val == 0);\n\n\treturn (val == 0);",
         new="\t\t\t\t     \"Error in socket layer\");\n\n\tif (val != 0) {\n\t\tsocket->connected = FALSE;\n\t\treturn FALSE;\n\t}\n\n\tsocket->connected = TRUE;\n\n\treturn TRUE;"),
    dict(id="keepalive-success-read-as-failure", file="src/psocket.c", expect="C10.5",
         old="SO_KEEPALIVE, &value, sizeof (value)) < 0) {", new="SO_KEEPALIVE, &value, sizeof (value)) <= 0) {"),
    dict(id="shutdown-read-only-closes-both", file="src/psocket.c", expect="C10.2", count=1,
         old="#ifndef P_OS_WIN\n\tif (shutdown_read == TRUE && shutdown_write == TRUE)\n\t\thow = SHUT_RDWR;", new="#ifndef P_OS_WIN\n\tif (shutdown_read == TRUE || shutdown_write == TRUE)\n\t\thow = SHUT_RDWR;"),
    dict(id="shutdown-both-stays-connected", file="src/psocket.c", expect="C10.2",
         old="\tif (shutdown_read == TRUE && shutdown_write == TRUE)\n\t\tsocket->connected = FALSE;\n", new=""),
    dict(id="wait-ignores-foreign-wakeup", file="src/psocket.c", expect="C10.4",
         old="\t\tif (evret == 1)\n\t\t\treturn TRUE;\n\t\telse if (evret == 0) {", new="\t\tif (evret == 1 && (pfd.revents & pfd.events) == 0)\n\t\t\tcontinue;\n\n\t\tif (evret == 1)\n\t\t\treturn TRUE;\n\t\telse if (evret == 0) {", count=2),
    dict(id="new-from-fd-keeps-mode", file="src/psocket.c", expect="C10.3",
         old="\tif (P_UNLIKELY (pp_socket_set_fd_blocking (ret->fd, FALSE, error) == FALSE)) {\n\t\tp_free (ret);\n\t\treturn NULL;\n\t}\n", new=""),
    dict(id="new-sets-blocking-true", file="src/psocket.c", expect="C10.3",
         old="\tif (P_UNLIKELY (pp_socket_set_fd_blocking (ret->fd, FALSE, error) == FALSE)) {\n\t\tp_socket_free (ret);", new="\tif (P_UNLIKELY (pp_socket_set_fd_blocking (ret->fd, TRUE, error) == FALSE)) {\n\t\tp_socket_free (ret);"),
    dict(id="fd-blocking-polarity", file="src/psocket.c", expect="C10.3",
         old="\targ = (!blocking) ? (arg | O_NONBLOCK) : (arg & ~O_NONBLOCK);", new="\targ = (blocking) ? (arg | O_NONBLOCK) : (arg & ~O_NONBLOCK);"),
    dict(id="fd-blocking-ifelse-neutral", file="src/psocket.c", expect=None,
         old="\targ = (!blocking) ? (arg | O_NONBLOCK) : (arg & ~O_NONBLOCK);", new="\tif (blocking)\n\t\targ &= ~O_NONBLOCK;\n\telse\n\t\targ |= O_NONBLOCK;"),
    dict(id="send-no-closed-check", file="src/psocket.c", expect="C10.1",
         old="\t\treturn -1;\n\t}\n\n\tif (P_UNLIKELY (pp_socket_check (socket, error) == FALSE))\n\t\treturn -1;\n\n\tfor (;;) {\n\t\tif (socket->blocking &&\n\t\t    p_socket_io_condition_wait (socket,\n\t\t\t\t\t\tP_SOCKET_IO_CONDITION_POLLOUT,",
         new="\t\treturn -1;\n\t}\n\n\tfor (;;) {\n\t\tif (socket->blocking &&\n\t\t    p_socket_io_condition_wait (socket,\n\t\t\t\t\t\tP_SOCKET_IO_CONDITION_POLLOUT,"),
    dict(id="check-wrong-code", file="src/psocket.c", expect="C10.1",
         old="\t\t\t\t     (pint) P_ERROR_IO_NOT_AVAILABLE,\n\t\t\t\t     0,\n\t\t\t\t     \"Socket is already closed\");",
         new="\t\t\t\t     (pint) P_ERROR_IO_FAILED,\n\t\t\t\t     0,\n\t\t\t\t     \"Socket is already closed\");"),
    dict(id="close-keeps-fd", file="src/psocket.c", expect="C10.2",
         old="\t\tsocket->listening = FALSE;\n\t\tsocket->fd        = -1;\n", new="\t\tsocket->listening = FALSE;\n"),
    dict(id="close-not-idempotent", file="src/psocket.c", expect="C10.2",
         old="\tif (socket->closed)\n\t\treturn TRUE;\n\n\tif (P_LIKELY (p_sys_close (socket->fd) == 0)) {", new="\tif (P_LIKELY (p_sys_close (socket->fd) == 0)) {"),
    dict(id="free-closes-raw", file="src/psocket.c", expect="C10.2",
         old="\tp_socket_close (socket, NULL);\n\n#ifdef P_OS_SCO", new="\tp_sys_close (socket->fd);\n\n#ifdef P_OS_SCO"),
    dict(id="recv-waits-unconditionally", file="src/psocket.c", expect="C10.3",
         old="\t\tif (socket->blocking &&\n\t\t    p_socket_io_condition_wait (socket,\n\t\t\t\t\t\tP_SOCKET_IO_CONDITION_POLLIN,\n\t\t\t\t\t\terror) == FALSE)\n\t\t\treturn -1;\n\n\t\tif ((ret = recv (",
         new="\t\tif (p_socket_io_condition_wait (socket,\n\t\t\t\t\t\tP_SOCKET_IO_CONDITION_POLLIN,\n\t\t\t\t\t\terror) == FALSE)\n\t\t\treturn -1;\n\n\t\tif ((ret = recv ("),
    dict(id="send-retries-nonblocking", file="src/psocket.c", expect="C10.3",
         old="\t\t\tif (socket->blocking && sock_err == P_ERROR_IO_WOULD_BLOCK)\n\t\t\t\tcontinue;\n\n\t\t\tp_error_set_error_p (error,\n\t\t\t\t\t     (pint) sock_err,\n\t\t\t\t\t     err_code,\n\t\t\t\t\t     \"Failed to call send() on socket\");",
         new="\t\t\tif (sock_err == P_ERROR_IO_WOULD_BLOCK)\n\t\t\t\tcontinue;\n\n\t\t\tp_error_set_error_p (error,\n\t\t\t\t\t     (pint) sock_err,\n\t\t\t\t\t     err_code,\n\t\t\t\t\t     \"Failed to call send() on socket\");"),
    dict(id="timeout-zero-passed", file="src/psocket.c", expect="C10.4", count=1,
         old="\ttimeout = socket->timeout > 0 ? socket->timeout : -1;", new="\ttimeout = socket->timeout;"),
    dict(id="timeout-result-swapped", file="src/psocket.c", expect="C10.4",
         old="\t\tif (evret == 1)\n\t\t\treturn TRUE;\n\t\telse if (evret == 0) {\n\t\t\tp_error_set_error_p (error,\n\t\t\t\t\t     (pint) P_ERROR_IO_TIMED_OUT,\n\t\t\t\t\t     (pint) p_error_get_last_net (),\n\t\t\t\t\t     \"Timed out while waiting socket condition\");\n\t\t\treturn FALSE;\n\t\t} else {\n\t\t\tp_error_set_error_p (error,\n\t\t\t\t\t     (pint) p_error_get_io_from_system (p_error_get_last_net ()),\n\t\t\t\t\t     (pint) p_error_get_last_net (),\n\t\t\t\t\t     \"Failed to call poll() on socket\");",
         new="\t\tif (evret == 1)\n\t\t\treturn TRUE;\n\t\telse if (evret == 0) {\n\t\t\tp_error_set_error_p (error,\n\t\t\t\t\t     (pint) P_ERROR_IO_WOULD_BLOCK,\n\t\t\t\t\t     (pint) p_error_get_last_net (),\n\t\t\t\t\t     \"Timed out while waiting socket condition\");\n\t\t\treturn FALSE;\n\t\t} else {\n\t\t\tp_error_set_error_p (error,\n\t\t\t\t\t     (pint) p_error_get_io_from_system (p_error_get_last_net ()),\n\t\t\t\t\t     (pint) p_error_get_last_net (),\n\t\t\t\t\t     \"Failed to call poll() on socket\");"),
    dict(id="timeout-ne-zero-neutral", file="src/psocket.c", expect=None, count=1,
         old="\ttimeout = socket->timeout > 0 ? socket->timeout : -1;", new="\ttimeout = socket->timeout != 0 ? socket->timeout : -1;"),
    dict(id="getter-wrong-field", file="src/psocket.c", expect="C10.5",
         old="\treturn socket->listen_backlog;", new="\treturn socket->timeout;"),
    dict(id="set-blocking-unnormalised", file="src/psocket.c", expect="C10.5",
         old="\tsocket->blocking = !! blocking;", new="\tsocket->blocking = (puint) blocking;"),
    dict(id="set-keepalive-unnormalised", file="src/psocket.c", expect="C10.5",
         old="\tsocket->keepalive = !! (pint) keepalive;", new="\tsocket->keepalive = (puint) keepalive;"),
    dict(id="backlog-while-listening", file="src/psocket.c", expect="C10.5",
         old="\tif (P_UNLIKELY (socket == NULL || socket->listening))\n\t\treturn;", new="\tif (P_UNLIKELY (socket == NULL))\n\t\treturn;"),
    dict(id="accept-no-cloexec", file="src/psocket.c", expect="C10.6",
         old="\tflags = fcntl (res, F_GETFD, 0);\n\n\tif (P_LIKELY (flags != -1 && (flags & FD_CLOEXEC) == 0)) {\n\t\tflags |= FD_CLOEXEC;\n\n\t\tif (P_UNLIKELY (fcntl (res, F_SETFD, flags) < 0))\n\t\t\tP_WARNING (\"PSocket::p_socket_accept: fcntl() with FD_CLOEXEC failed\");\n\t}",
         new="\tflags = fcntl (res, F_GETFD, 0);\n\t(void) flags;"),
]
