"""C06 Named semaphore (POSIX model): structural clauses."""
from plint import guards
from plint.flow import Flow
from plint.ir import calls, strip_casts, cv, line, show, root_var, walk, ap
from plint.units import AnalysisBroken
from plint.wiring import wrapper_paths

O_CREAT, O_EXCL = 0o100, 0o200
EEXIST = 17
CREATE = 1


def run(prog, rep):
    rep.rule("C06.1", "name typestate in the create path: never open without O_CREAT a name just unlinked; every creating open passes the requested initial "
                      "value and usable permissions; CREATE mode on an existing name removes and re-creates it, OPEN mode neither unlinks nor creates")
    rep.rule("C06.2", "ownership: sem_created is set only where this handle created the name or in take_ownership; clean-up closes every valid handle and "
                      "unlinks exactly when owner; free releases key string and object")
    rep.rule("C06.3", "wiring: acquire -> sem_wait, release -> sem_post on sem->sem_hdl, TRUE exactly when the native returned 0")
    rep.rule("C06.4", "identity: every sem_open/sem_unlink names sem->platform_key, written only by the constructor from p_ipc_get_platform_key (name + fixed suffix)")
    u = prog.unit("psemaphore-posix.c")
    ch = u.fn("pp_semaphore_create_handle").inlined()
    sp = ch.param_names()[0]
    KEY = "%s->platform_key" % sp
    opens = [(b, i, c) for (b, i, c) in ch.calls() if c.get("callee") == "sem_open"]
    if len(opens) < 2:
        raise AnalysisBroken("pp_semaphore_create_handle: expected an exclusive create and a fallback open")

    problems = []
    seen = {"create_excl": 0, "reopen_create_mode": 0, "reopen_open_mode": 0, "owner_sets": 0}

    def on_stmt(st, b, i, stmt):
        facts, name_state, opened = st
        # name_state: unknown | exists | absent ; opened: None | 'excl' | 'create' | 'plain'
        for c in calls(stmt):
            cn = c.get("callee")
            if cn == "sem_open":
                fl = guards.eval_const(c["args"][1], facts)
                if fl is None:
                    problems.append(("open:flags", "the flags of sem_open are not a constant on this path", line(c), flow.witness_lines(*flow.cur)))
                    continue
                mode_known = guards.lookup(facts, "%s->mode" % sp)
                is_create_mode = mode_known == CREATE
                is_open_mode = any(fk == "%s->mode" % sp and ((fop == "!=" and fv == CREATE) or (fop == "==" and fv != CREATE)) for (fk, fop, fv) in facts)
                if fl & O_CREAT:
                    # a creating open: requested initial value, usable permissions
                    val = c["args"][3] if len(c["args"]) > 3 else None
                    perm = guards.eval_const(c["args"][2], facts) if len(c["args"]) > 2 else None
                    vk = guards.key(val) if val is not None else None
                    requested = False
                    if vk is not None:
                        if vk == "%s->init_val" % sp:
                            requested = True
                        for (fk, fop, fv) in facts:
                            if fop == "=:" and fk == vk and fv == "%s->init_val" % sp:
                                requested = True
                    if not requested:
                        problems.append(("open:value", "a sem_open that can create the semaphore passes %s%s as initial value, not the requested %s->init_val "
                                         "(a counter created here starts with the wrong number of units)" %
                                         (show(val), "" if guards.eval_const(val, facts) is None else " (= %s)" % guards.eval_const(val, facts), sp),
                                         line(c), flow.witness_lines(*flow.cur)))
                    if perm is None or (perm & 0o600) != 0o600:
                        problems.append(("open:perm", "a creating sem_open passes permissions %s" % (oct(perm) if perm is not None else "?"), line(c),
                                         flow.witness_lines(*flow.cur)))
                    if name_state == "exists" and not (fl & O_EXCL) and is_open_mode:
                        problems.append(("open:mode", "OPEN mode re-opens an existing name with O_CREAT: if the owner removes the name in between, a fresh counter "
                                         "is created behind the caller's back", line(c), flow.witness_lines(*flow.cur)))
                    if name_state == "absent":
                        seen["reopen_create_mode"] += 1
                    elif fl & O_EXCL:
                        seen["create_excl"] += 1
                else:
                    if name_state == "absent":
                        problems.append(("open:absent", "sem_open without O_CREAT on a name that was just removed by sem_unlink: certain failure (ENOENT), "
                                         "CREATE mode on an existing name can never succeed", line(c), flow.witness_lines(*flow.cur)))
                    if name_state == "exists" and is_create_mode:
                        problems.append(("open:noreset", "CREATE mode opens the existing semaphore without resetting it", line(c), flow.witness_lines(*flow.cur)))
                    if name_state == "exists":
                        seen["reopen_open_mode"] += 1
                if guards.key(c["args"][0]) != KEY:
                    problems.append(("name", "sem_open names %s, not %s" % (show(c["args"][0]), KEY), line(c), None))
            elif cn == "sem_unlink":
                is_create_mode = guards.lookup(facts, "%s->mode" % sp) == CREATE
                if not is_create_mode:
                    problems.append(("unlink:mode", "sem_unlink in the create path outside CREATE mode: an OPEN-mode open destroys the shared counter", line(c),
                                     flow.witness_lines(*flow.cur)))
                if name_state != "exists":
                    problems.append(("unlink:state", "sem_unlink on a name not known to exist", line(c), flow.witness_lines(*flow.cur)))
                if guards.key(c["args"][0]) != KEY:
                    problems.append(("name", "sem_unlink names %s, not %s" % (show(c["args"][0]), KEY), line(c), None))
                name_state = "absent"
        # ownership stores
        for n in walk(stmt):
            if n["k"] == "asg":
                l = strip_casts(n["l"])
                if l is not None and l["k"] == "member" and l["field"] == "sem_created" and cv(n["r"]) != 0:
                    seen["owner_sets"] += 1
                    valid = any(fk == "%s->sem_hdl" % sp and ((fop == "!=" and fv == 0)) for (fk, fop, fv) in facts)
                    if not valid or opened not in ("excl", "create"):
                        problems.append(("owner", "sem_created is set on a path where this handle did not create the name (last open: %s, handle valid: %s)" % (opened, valid),
                                         line(n), flow.witness_lines(*flow.cur)))
        facts2 = guards.transfer(facts, stmt, stable=("p_error_get_last_system()",))
        for c in calls(stmt):
            if c.get("callee") == "sem_open":
                fl = guards.eval_const(c["args"][1], facts)
                if fl is not None:
                    opened = "excl" if (fl & O_CREAT and fl & O_EXCL) else ("create" if fl & O_CREAT else "plain")
        return [(facts2, name_state, opened)]

    def on_edge(st, b, to, on):
        facts, name_state, opened = st
        f2 = guards.edge_assume(facts, b, on)
        if f2 is None:
            return None
        if guards.lookup(f2, "p_error_get_last_system()") == EEXIST and name_state == "unknown" and opened == "excl":
            name_state = "exists"
        return (f2, name_state, opened)

    flow = Flow(ch, [(guards.EMPTY, "unknown", None)], on_stmt, on_edge)
    flow.run()
    done = set()
    for (site, msg, ln, path) in problems:
        if (site, ln) in done:
            continue
        done.add((site, ln))
        rep.ob("C06.1" if not site.startswith("owner") else "C06.2", ch, site, False, msg, ln, path)
    if not any(s.startswith("open") or s.startswith("unlink") for (s, m, l, p) in problems):
        rep.ob("C06.1", ch, "typestate", True,
               "exclusive create first; on EEXIST: CREATE mode unlinks and re-creates with the requested value, OPEN mode re-opens without O_CREAT; "
               "no open without O_CREAT after an unlink", ch.loc[0])
    for k, what in (("create_excl", "an exclusive creating open"), ("reopen_create_mode", "a creating re-open after the unlink (CREATE mode on an existing name)"),
                    ("reopen_open_mode", "a plain re-open of the existing name (OPEN mode)")):
        rep.ob("C06.1", ch, "reach:" + k, seen[k] > 0, "%s is reachable" % what if seen[k] else "no path performs %s" % what, ch.loc[0])
    if not any(s == "owner" for (s, m, l, p) in problems):
        rep.ob("C06.2", ch, "owner", seen["owner_sets"] > 0, "sem_created is set only after this handle created the name (%d store state(s))" % seen["owner_sets"], ch.loc[0])
    # failure exit: FALSE exactly when the handle is invalid
    results, fl2 = wrapper_paths(ch, [])
    okr = True
    for (facts, k, ret, blk, cur) in results:
        rv = guards.eval_const(ret.get("e"), facts)
        hv = guards.lookup(facts, "%s->sem_hdl" % sp)
        valid = any(fk == "%s->sem_hdl" % sp and fop == "!=" and fv == 0 for (fk, fop, fv) in facts)
        if rv == 1 and not valid:
            okr = False
        if rv is None:
            okr = False
    rep.ob("C06.1", ch, "result", okr, "returns TRUE only with a valid handle" if okr else "returns TRUE on a path where the handle is not known valid", ch.loc[0])
    rep.floor("C06.1", 5)

    # ---- C06.2 clean-up ------------------------------------------------------
    cl = u.fn("pp_semaphore_clean_handle").inlined()
    csp = cl.param_names()[0]
    closes, unlinks = [], []

    def cl_stmt(st, b, i, stmt):
        for c in calls(stmt):
            if c.get("callee") == "sem_close":
                closes.append((st, c))
            if c.get("callee") == "sem_unlink":
                unlinks.append((st, c))
        return [guards.transfer(st, stmt)]
    f3 = Flow(cl, [guards.EMPTY], cl_stmt, lambda st, b, to, on: guards.edge_assume(st, b, on))
    f3.run()

    def known(facts, k, op, v):
        return any(fk == k and fop == op and fv == v for (fk, fop, fv) in facts)
    okc = bool(closes) and all(known(f, "%s->sem_hdl" % csp, "!=", 0) and not any(fk == "%s->sem_created" % csp for (fk, fop, fv) in f) for (f, c) in closes)
    rep.ob("C06.2", cl, "close", okc, "sem_close runs for every valid handle, whoever owns the name" if okc else
           "sem_close is missing or depends on ownership", cl.loc[0])
    oku = bool(unlinks) and all((guards.lookup(f, "%s->sem_created" % csp) == 1 or known(f, "%s->sem_created" % csp, "!=", 0)) for (f, c) in unlinks)
    rep.ob("C06.2", cl, "unlink", oku, "sem_unlink is reached only with sem_created true" if oku else
           "sem_unlink is missing or not guarded by ownership: a non-owner handle removes the shared name", cl.loc[0])
    # a path with valid handle and owner must reach unlink: the guards of unlink mention only hdl and sem_created
    okg = True
    for (f, c) in unlinks:
        for (fk, fop, fv) in f:
            if fk.startswith(csp + "->") and fk not in ("%s->sem_hdl" % csp, "%s->sem_created" % csp) and "sem_close" not in fk:
                okg = False
    rep.ob("C06.2", cl, "unlink:guards", okg, "the unlink depends only on handle validity and ownership", cl.loc[0])
    for (f, c) in closes + unlinks:
        want = "%s->sem_hdl" % csp if c.get("callee") == "sem_close" else "%s->platform_key" % csp
        if guards.key(c["args"][0]) != want:
            rep.ob("C06.2", cl, "arg:" + c.get("callee"), False, "%s is called on %s" % (c.get("callee"), show(c["args"][0])), c)
    to = u.fn("p_semaphore_take_ownership").inlined()
    st_ = [n for (b, i, n) in to.nodes() if n["k"] == "asg" and strip_casts(n["l"])["k"] == "member" and strip_casts(n["l"])["field"] == "sem_created" and cv(n["r"]) == 1]
    rep.ob("C06.2", to, "take_ownership", len(st_) == 1, "take_ownership sets sem_created" if len(st_) == 1 else "take_ownership does not set sem_created", to.loc[0])
    # writers of sem_created across the unit
    writers = set()
    for f in u.roots():                    # a static helper only ever called by the create path belongs to the create path
        for b, i, n in f.nodes():
            if n["k"] == "asg":
                l = strip_casts(n["l"])
                if l is not None and l["k"] == "member" and l["field"] == "sem_created" and cv(n["r"]) != 0:
                    creator = any(c.get("callee") == "sem_open" and (cv(c["args"][1]) or 0) & 0o300 == 0o300 for (b2, i2, c) in f.calls())
                    writers.add("the creation path" if creator else f.name)
    okw = writers <= {"the creation path", "p_semaphore_take_ownership"}
    rep.ob("C06.2", ch, "owner:writers", okw, "sem_created is set TRUE only in the create path and take_ownership" if okw else "sem_created is also set in %s" % sorted(writers), ch.loc[0])
    fr = u.fn("p_semaphore_free").inlined()
    cs = [c.get("callee") for (b, i, c) in fr.calls()]
    frees = [c for (b, i, c) in fr.calls() if c.get("callee") == "p_free"]
    fkeys = set(guards.key(c["args"][0]) for c in frees)
    fp = fr.param_names()[0]
    okf = ("pp_semaphore_clean_handle" in cs or "sem_close" in cs) and {"%s->platform_key" % fp, fp} <= fkeys
    rep.ob("C06.2", fr, "free", okf, "free cleans the handle and releases the key string and the object" if okf else
           "p_semaphore_free misses clean-up steps (calls: %s, frees: %s)" % (sorted(set(cs)), sorted(fkeys)), fr.loc[0])
    rep.floor("C06.2", 7)

    # ---- C06.3 wiring --------------------------------------------------------
    for fname, native in (("p_semaphore_acquire", "sem_wait"), ("p_semaphore_release", "sem_post")):
        fn = u.fn(fname).inlined()
        p0 = fn.param_names()[0]
        cs = [c for (b, i, c) in fn.calls() if c.get("callee") == native]
        okh = len(cs) == 1 and guards.key(cs[0]["args"][0]) == "%s->sem_hdl" % p0
        rep.ob("C06.3", fn, "wire:" + native, okh, "%s (%s->sem_hdl)" % (native, p0) if okh else "%s does not call %s exactly once on its own handle" % (fname, native), fn.loc[0])
        other = [c for (b, i, c) in fn.calls() if c.get("callee") in ("sem_wait", "sem_post", "sem_trywait", "sem_timedwait") and c.get("callee") != native]
        rep.ob("C06.3", fn, "wire:only", not other, "no other semaphore primitive is called" if not other else "%s also calls %s" % (fname, other[0].get("callee")), fn.loc[0])
        if not cs:
            continue
        results, flw = wrapper_paths(fn, [native])
        okr, msg = True, ""
        for (facts, k, ret, blk, cur) in results:
            rv = guards.eval_const(ret.get("e"), facts)
            if k == 0:
                if rv != 0:
                    okr, msg = False, "returns %s without calling %s" % (rv, native)
                continue
            ck = guards.key(cs[0])
            if guards.lookup(facts, ck) == 0:
                if rv != 1:
                    okr, msg = False, "%s returned 0 but %s returns %s" % (native, fname, rv)
            elif guards.contradicts(facts, ck, "==", 0):
                if rv != 0:
                    okr, msg = False, "%s failed but %s returns %s" % (native, fname, rv)
            else:
                f1 = guards.add_fact(facts, ck, "==", 0)
                f2 = guards.add_fact(facts, ck, "==", -1)
                v1 = guards.eval_const(ret.get("e"), f1) if f1 is not None else 1
                v2 = guards.eval_const(ret.get("e"), f2) if f2 is not None else 0
                if v1 != 1 or v2 != 0:
                    okr, msg = False, "result is not TRUE exactly when %s returned 0 (success -> %s, failure -> %s)" % (native, v1, v2)
        rep.ob("C06.3", fn, "result", okr, "TRUE exactly when %s returned 0" % native if okr else msg, fn.loc[0])
    # the wait is transparent to signals: an interrupted sem_wait is re-issued (same engine as C19.1)
    from plint.retry import check_retry
    aq = u.fn("p_semaphore_acquire").inlined()
    for b, i, s_ in aq.stmts():
        for c in calls(s_):
            if c.get("callee") == "sem_wait":
                check_retry(rep, "C06.3", aq, b, i, c, "call:sem_wait:eintr")
    for b, i, s_ in ch.stmts():
        k = 0
        for c in calls(s_):
            if c.get("callee") == "sem_open":
                k += 1
                check_retry(rep, "C06.3", ch, b, i, c, "call:sem_open@%d:eintr" % line(c))
    rep.floor("C06.3", 9)

    # ---- C06.4 identity --------------------------------------------------------
    nw = u.fn("p_semaphore_new").inlined()
    writers = []
    for f in u.roots():
        for b, i, n in f.nodes():
            if n["k"] == "asg":
                l = strip_casts(n["l"])
                if l is not None and l["k"] == "member" and l["field"] == "platform_key":
                    writers.append((f, n))
    okk = len(writers) == 1 and writers[0][0].name == "p_semaphore_new" and strip_casts(writers[0][1]["r"])["k"] == "call" \
        and strip_casts(writers[0][1]["r"]).get("callee") == "p_ipc_get_platform_key"
    msg = "platform_key is written once, in the constructor, from p_ipc_get_platform_key"
    if okk:
        kc = strip_casts(writers[0][1]["r"])
        nv = root_var(kc["args"][0])
        # new_name = name + suffix : strcpy(new_name, name); strcat(new_name, <string literal>)
        cp = [c for (b, i, c) in nw.calls() if c.get("callee") in ("strcpy", "__builtin_strcpy", "__builtin___strcpy_chk") and root_var(c["args"][0]) == nv]
        ct = [c for (b, i, c) in nw.calls() if c.get("callee") in ("strcat", "__builtin_strcat", "__builtin___strcat_chk") and root_var(c["args"][0]) == nv]
        namep = nw.param_names()[0]
        okk = len(cp) == 1 and root_var(cp[0]["args"][1]) == namep and len(ct) == 1 and strip_casts(ct[0]["args"][1])["k"] == "str"
        if okk:
            msg += " of (%s + %s)" % (namep, show(ct[0]["args"][1]))
        else:
            msg = "the platform key is not derived from the name parameter plus a fixed suffix"
    else:
        msg = "platform_key has %d writer(s): %s" % (len(writers), sorted(set(f.name for f, n in writers)))
    rep.ob("C06.4", nw, "key", okk, msg, nw.loc[0])
    # the constructor records what it was asked for: the create path decides by sem->mode and passes sem->init_val, so both are the
    # caller's arguments, stored before the create path runs (a lost `ret->mode = mode` leaves OPEN, the zero of the allocation: CREATE
    # on an existing name silently keeps the old counter)
    raw_nw = u.fn("p_semaphore_new", raw=True)
    pnames = raw_nw.param_names()
    # the view: static helpers folded in (the recording may live in a `setup` helper), except the ones that reach sem_open - their
    # call is the create path
    creators = sorted(f_.name for f_ in u.functions.values() if f_.name != raw_nw.name and any(cc.get("callee") == "sem_open" for (b2, i2, cc) in f_.inlined().calls()))
    view = raw_nw.inlined(skip=tuple(creators))
    crt = [(b, i, c) for (b, i, c) in view.calls() if c.get("callee") in creators]
    if len(crt) != 1:
        raise AnalysisBroken("p_semaphore_new: expected one call into the create path (a static function reaching sem_open), found %d" % len(crt))
    for fld, pidx in (("mode", 2), ("init_val", 1)):
        sts_ = [(b, i, n) for (b, i, n) in view.nodes(elsewhere=True) if n["k"] == "asg" and strip_casts(n["l"])["k"] == "member" and strip_casts(n["l"])["field"] == fld]
        wide = True
        if len(sts_) == 1:
            tl_, tr_ = u.type_of(strip_casts(sts_[0][2]["l"])), u.type_of(strip_casts(sts_[0][2]["r"]))
            wide = not (tl_ and tr_ and tl_.get("w") and tr_.get("w") and tl_["w"] < tr_["w"])
        okp = wide and len(sts_) == 1 and len(pnames) > pidx and root_var(sts_[0][2]["r"]) in view.copies_of(pnames[pidx]) and strip_casts(sts_[0][2]["r"])["k"] == "ref" \
            and view.pos_dominates((sts_[0][0].id, sts_[0][1]), (crt[0][0].id, crt[0][1]))
        rep.ob("C06.4", raw_nw, "records:" + fld, okp, "the handle's %s is the caller's argument, stored before the create path runs" % fld if okp else
               ("line %d: the handle keeps the %s argument in a field narrower than the argument: values above the field's range are stored modulo its width and the semaphore "
                "is created with another count than the caller gave" % (line(sts_[0][2]), fld)) if not wide else
               "p_semaphore_new does not store its %s argument into the handle before creating the native semaphore: the create path sees %s" % (
                   pnames[pidx] if len(pnames) > pidx else fld, "mode 0 (OPEN) whatever was asked for" if fld == "mode" else "the initial value 0"), sts_[0][2] if sts_ else raw_nw.loc[0])
    # the name buffer holds name + suffix + NUL
    if okk:
        al = [n for (b, i, n) in nw.nodes(elsewhere=True) if n["k"] == "asg" and root_var(n["l"]) == nv and strip_casts(n["l"])["k"] == "ref" and strip_casts(n["r"]) is not None
              and strip_casts(n["r"])["k"] == "call" and strip_casts(n["r"]).get("callee") in ("p_malloc0", "p_malloc")]
        oksz, szmsg = False, "the allocation of the name buffer was not found"
        if len(al) == 1:
            terms, const, names = [], 0, 0
            stack = [strip_casts(al[0]["r"])["args"][0]]
            while stack:
                e = strip_casts(stack.pop())
                if e is None:
                    continue
                if e["k"] == "bin" and e["op"] == "+":
                    stack += [e["l"], e["r"]]
                elif cv(e) is not None:
                    const += cv(e)
                elif e["k"] == "call" and e.get("callee") in ("strlen", "__builtin_strlen") and strip_casts(e["args"][0])["k"] == "str":
                    const += len(strip_casts(e["args"][0]).get("v", "")) if strip_casts(e["args"][0]).get("v") is not None else 0
                elif e["k"] == "call" and e.get("callee") in ("strlen", "__builtin_strlen") and root_var(e["args"][0]) == namep:
                    names += 1
                else:
                    terms.append(e)
            suffix = strip_casts(ct[0]["args"][1])
            slen = len(suffix.get("v", "")) if suffix.get("v") is not None else None
            if terms or slen is None:
                oksz, szmsg = True, "size term not decomposable: not judged"
            else:
                oksz = names == 1 and const >= slen + 1
                szmsg = "the name buffer holds strlen (name) + %d bytes for the %d-byte suffix and the terminator" % (const, slen)
                if not oksz:
                    szmsg = "line %d: the buffer for name + suffix is strlen (name) x %d + %d bytes, but \"%s\" plus the terminating zero needs strlen (name) + %d: strcat writes past the block" % (
                        line(al[0]), names, const, suffix.get("v", ""), slen + 1)
        rep.ob("C06.4", nw, "key:buffer", oksz, szmsg, al[0] if al else nw.loc[0])
    # the key is a function of the name alone: two threads opening different names at the same moment must not meet in shared
    # state (one hash context behind a static pointer would be fed both names and hand each thread a digest of neither, so "one
    # counter per name" and "other names unaffected" fall together).  No function in the derivation's closure in pipc.c refers to
    # a variable with static storage
    pi = prog.unit("pipc.c")
    todo, clo = ["p_ipc_get_platform_key"], []
    while todo:
        fnm = todo.pop()
        if fnm in clo or fnm not in pi.functions:
            continue
        clo.append(fnm)
        todo.extend(c.get("callee") for (b, i, c) in pi.functions[fnm].calls() if c.get("callee"))
    stat = [(fnm, n) for fnm in clo for (b, i, n) in pi.functions[fnm].nodes() if n["k"] == "ref" and n.get("decl") in ("staticlocal", "global")]
    rep.ob("C06.4", pi.functions["p_ipc_get_platform_key"], "key:pure", not stat, "the key derivation (%s) keeps no state between calls: no static or global variable is referred to" % ", ".join(clo) if not stat else
           "line %d: %s uses the %s variable `%s` while deriving a key: concurrent opens of different names share it, and each can come back with a key computed from the other's name" % (
               line(stat[0][1]), stat[0][0], "static local" if stat[0][1].get("decl") == "staticlocal" else "global", stat[0][1]["name"]), stat[0][1] if stat else pi.functions["p_ipc_get_platform_key"].loc[0])
    rep.floor("C06.4", 5)
    sysv(prog, rep)


SEM_UNDO, IPC_NOWAIT, IPC_CREAT, IPC_EXCL, IPC_RMID, SETVAL, EINTR = 0x1000, 0x800, 0o1000, 0o2000, 0, 16, 4


def sysv(prog, rep):
    """The System V model (psemaphore-sysv.c; not selectable in the Linux build, analysed with the flags of the POSIX unit)."""
    rep.rule("C06.5", "System V model: acquire is semop -1 and release semop +1 on semaphore 0 of sem->sem_hdl, one operation, both blocking and with the SAME "
                      "undo flag (an undo recorded for one direction only makes the kernel shift the counter when a process exits); every semop is re-issued "
                      "on EINTR; the set is created exclusively first, marked owned only then, initialised exactly when owned or in CREATE mode, and removed "
                      "only by its owner")
    u = prog.units.get("psemaphore-sysv.c")
    if u is None:
        raise AnalysisBroken("psemaphore-sysv.c was not analysed")

    def op_of(fn, c):
        """(sem_num, sem_op, sem_flg) of the sembuf a semop call passes"""
        a = strip_casts(c["args"][1])
        if a is not None and a["k"] == "ref" and a.get("decl") == "local":
            a = fn.resolve(a)               # a helper's parameter / a pointer local: what it was given
        if a is not None and a["k"] == "un" and a.get("op") == "&":
            a = strip_casts(a["e"])
        if a is None or a["k"] != "ref":
            return None
        items = None
        if a.get("decl") == "local":
            # an automatic sembuf with a constant initialiser that nothing writes afterwards
            ds = [n for (b, i, n) in fn.nodes(elsewhere=True) if n["k"] == "decl" and n["name"] == a["name"] and n.get("init") is not None]
            wr = [n for (b, i, n) in fn.nodes(elsewhere=True) if n["k"] == "asg" and root_var(n["l"]) == a["name"]]
            if len(ds) == 1 and not wr:
                items = (ds[0]["init"] or {}).get("items")
        if a.get("decl") == "global":
            g = u.globals.get(a["name"])
            items = ((g or {}).get("init") or {}).get("items")
            # a global that some function writes is not a constant
            for f in u.functions.values():
                for (b, i, n) in f.nodes(elsewhere=True):
                    if n["k"] == "asg" and root_var(n["l"]) == a["name"]:
                        return None
        if not items or len(items) < 3:
            return None
        vals = tuple(cv(x) for x in items[:3])
        return None if None in vals else vals
    ops = {}
    for fname, want in (("p_semaphore_acquire", -1), ("p_semaphore_release", 1)):
        fn = u.fn(fname)
        sp = fn.param_names()[0]
        cs = [(b, i, c) for (b, i, c) in fn.calls() if c.get("callee") == "semop"]
        ok, msg = bool(cs), "%s never calls semop" % fname
        for (b, i, c) in cs:
            o = op_of(fn, c)
            if o is None:
                ok, msg = False, "line %d: the operation handed to semop is not a constant sembuf" % line(c)
            elif guards.key(c["args"][0]) != "%s->sem_hdl" % sp or cv(c["args"][2]) != 1:
                ok, msg = False, "line %d: semop is not called with one operation on %s->sem_hdl" % (line(c), sp)
            elif o[0] != 0 or o[1] != want:
                ok, msg = False, "line %d: %s performs semop %+d on semaphore %d, not %+d on semaphore 0" % (line(c), fname, o[1], o[0], want)
            elif o[2] & IPC_NOWAIT:
                ok, msg = False, "line %d: %s passes IPC_NOWAIT: it fails instead of blocking / completing" % (line(c), fname)
            else:
                ops.setdefault(fname, set()).add(o[2])
            # re-issued on EINTR: the call sits in a loop whose continuation compares the system error with EINTR
            inl = [body for (h, body) in fn.loops() if b.id in body]
            retry = False
            for body in inl:
                for bid in body:
                    blk = fn.blocks[bid]
                    for e_ in list(blk.stmts) + ([blk.cond] if blk.cond is not None else []):
                        if any(n["k"] == "bin" and n["op"] in ("==", "!=") and (cv(n["r"]) == EINTR or cv(n["l"]) == EINTR) for n in walk(e_)):
                            retry = True
            if ok and not retry:
                ok, msg = False, "line %d: semop in %s is not re-issued when it fails with EINTR" % (line(c), fname)
        rep.ob("C06.5", fn, "semop", ok, "%s: semop %+d on semaphore 0 of %s->sem_hdl, blocking, retried on EINTR (%d call site(s))" % (fname, want, sp, len(cs)) if ok else msg,
               cs[0][2] if cs else fn.loc[0])
    fa, fr = ops.get("p_semaphore_acquire"), ops.get("p_semaphore_release")
    oku = fa is not None and fr is not None and len(fa | fr) == 1
    rep.ob("C06.5", u.fn("p_semaphore_release"), "undo:symmetric", oku,
           "acquire and release use the same sem_flg (%s): an exiting process is undone to exactly what it held" % ("SEM_UNDO" if fa and (next(iter(fa)) & SEM_UNDO) else "no undo") if oku else
           "acquire uses sem_flg %s, release %s: with the undo recorded for one direction only, a process that made N balanced acquire/release pairs shifts the shared "
           "counter by N when it exits (and its per-process undo value overflows after 32767 pairs)" % (sorted(fa or ()), sorted(fr or ())), u.fn("p_semaphore_release").loc[0])
    # creation / initialisation / removal
    ch = u.fn("pp_semaphore_create_handle")
    sp = ch.param_names()[0]
    probs = []
    seen = {"excl": 0, "owned": 0, "setval": 0, "rmid": 0}

    def on_stmt(st, b, i, stmt):
        facts, gets, setv = st
        for c in calls(stmt):
            cn = c.get("callee")
            if cn == "semget":
                fl = guards.eval_const(c["args"][2], facts)
                if gets == 0:
                    seen["excl"] += 1
                    if fl is None or (fl & (IPC_CREAT | IPC_EXCL)) != (IPC_CREAT | IPC_EXCL):
                        probs.append("line %d: the first semget is not an exclusive create (IPC_CREAT | IPC_EXCL): the handle cannot know whether it created the set" % line(c))
                elif fl is None or fl & IPC_CREAT:
                    probs.append("line %d: the fallback semget may create the set" % line(c))
                gets += 1
            if cn == "semctl" and len(c["args"]) >= 3 and cv(c["args"][2]) == SETVAL:
                seen["setval"] += 1
                own = guards.lookup(facts, "%s->sem_created" % sp) == 1 or guards.lookup(facts, "%s->mode" % sp) == CREATE
                if not own:
                    probs.append("line %d: the counter is (re)initialised on a path where the handle neither created the set nor was opened in CREATE mode: "
                                 "an OPEN of an existing name resets a counter others are using" % line(c))
                v = strip_casts(c["args"][3]) if len(c["args"]) > 3 else None
                setv = True
        for n in walk(stmt):
            if n["k"] == "asg":
                l = strip_casts(n["l"])
                if l is not None and l["k"] == "member" and l["field"] == "sem_created" and cv(n["r"]) == 1:
                    seen["owned"] += 1
                    hk = "%s->sem_hdl" % sp
                    created = gets == 1 and any(fk == hk and fop == "!=" and fv == -1 for (fk, fop, fv) in facts)
                    if not created:
                        probs.append("line %d: sem_created is set on a path where the exclusive semget did not succeed: the handle would remove a set it does not own" % line(n))
        if stmt["k"] == "ret" and guards.eval_const(stmt.get("e"), facts) == 1:
            must = guards.lookup(facts, "%s->sem_created" % sp) == 1 or guards.lookup(facts, "%s->mode" % sp) == CREATE
            if must and not setv:
                probs.append("line %d: the handle is returned without the counter having been set to the requested initial value although it %s" % (
                    line(stmt), "created the set" if guards.lookup(facts, "%s->sem_created" % sp) == 1 else "was opened in CREATE mode"))
        return [(guards.transfer(facts, stmt, kill_calls=False), gets, setv)]

    def on_edge(st, b, to, on):
        f2 = guards.edge_assume(st[0], b, on)
        return None if f2 is None else (f2,) + st[1:]
    Flow(ch, [(guards.EMPTY, 0, False)], on_stmt, on_edge).run()
    okc = not probs and seen["excl"] >= 1 and seen["owned"] >= 1 and seen["setval"] >= 1
    rep.ob("C06.5", ch, "create", okc, "exclusive create first, ownership only on its success, SETVAL exactly when owned or CREATE mode" if okc else
           (probs[0] if probs else "creation protocol not recognised (exclusive semget %d, ownership stores %d, SETVAL %d)" % (seen["excl"], seen["owned"], seen["setval"])), ch.loc[0])
    cl = u.fn("pp_semaphore_clean_handle")
    cp = cl.param_names()[0]
    badr = []

    def on_stmt2(st, b, i, stmt):
        for c in calls(stmt):
            if c.get("callee") == "semctl" and len(c["args"]) >= 3 and cv(c["args"][2]) == IPC_RMID:
                seen["rmid"] += 1
                if guards.lookup(st, "%s->sem_created" % cp) != 1:
                    badr.append(line(c))
        return [guards.transfer(st, stmt, kill_calls=False)]
    Flow(cl, [guards.EMPTY], on_stmt2, lambda st, b, to, on: guards.edge_assume(st, b, on)).run()
    okr = not badr and seen["rmid"] >= 1
    rep.ob("C06.5", cl, "remove:owner", okr, "the set is removed (IPC_RMID) only with sem_created known TRUE" if okr else
           ("line %d: the set is removed without sem_created tested TRUE: a visitor's free destroys the counter others use" % badr[0] if badr else "no IPC_RMID found"), cl.loc[0])
    # 0 is a valid set id (the first set created in an IPC namespace gets it): the handle is invalid only when it is -1
    from plint.wiring import id_validity_tests
    nid, badid = id_validity_tests(u, "sem_hdl")
    rep.ob("C06.5", badid[0][0] if badid else u.fn("pp_semaphore_clean_handle", raw=True), "id:validity", nid >= 1 and not badid,
           "%d tests of sem_hdl separate exactly the failure value -1 from the valid ids" % nid if (nid >= 1 and not badid) else
           ("line %d: %s treats a valid set id as no handle (`%s`): for the set with that id the owner's free skips IPC_RMID, or the create path misjudges its result, and the "
            "next opener attaches to the stale counter" % (line(badid[0][1]), badid[0][0].name, badid[0][2]) if badid else "no validity test of sem_hdl found"),
           badid[0][1] if badid else u.fn("pp_semaphore_clean_handle", raw=True).loc[0])
    # the key file tells the creator from the joiner: p_ipc_unix_create_key_file answers 0 only when *this* call made the file, so
    # its open is exclusive (O_CREAT | O_EXCL) and an EEXIST failure is the answer 1.  Without O_EXCL every opener believes it made
    # the file, a non-owner's free unlinks it, and the next opener derives a different ftok key - a second counter under one name
    kfu = prog.unit("pipc.c")
    kf = kfu.functions.get("p_ipc_unix_create_key_file")
    opens = [c for (b, i, c) in kf.calls() if c.get("callee") in ("open", "open64")] if kf else []
    fl_ = guards.eval_const(opens[0]["args"][1], guards.EMPTY) if len(opens) == 1 and len(opens[0]["args"]) > 1 else None
    okkf = fl_ is not None and (fl_ & 0o100) and (fl_ & 0o200)
    rep.ob("C06.5", kf if kf else u.fn("pp_semaphore_clean_handle", raw=True), "keyfile:exclusive", bool(okkf),
           "the key file is created exclusively (O_CREAT | O_EXCL): result 0 means this call made it" if okkf else
           ("line %d: the key file is opened with flags %s: without O_CREAT | O_EXCL the call reports `created` for a file that existed, the joiner takes itself for the owner "
            "of the key file and removes it on free" % (line(opens[0]), oct(fl_) if fl_ is not None else "that are not constant") if opens else "the open of the key file was not found"),
           opens[0] if opens else (kf.loc[0] if kf else 0))
    rep.floor("C06.5", 5 + 2)


# objects are zero-filled at birth: the functions of these units rely on it for every field their constructors do not store
_run_clauses = run


def run(prog, rep):
    _run_clauses(prog, rep)
    from plint.wiring import check_zero_init, check_error_contract
    from plint.wiring import result_tests
    _ru = prog.unit("psemaphore-posix.c")
    _nrt, _brt = result_tests(_ru)
    if _nrt < 1:
        raise AnalysisBroken("result tests: only %d comparisons of system call results found in %s" % (_nrt, _ru.name))
    rep.ob("C06.3", _brt[0][0] if _brt else sorted(_ru.functions.values(), key=lambda f_: f_.loc[0])[0], "result-tests", not _brt,
           "%d tests of system call results put 0 (or a valid descriptor) on the success side" % _nrt if not _brt else
           ("line %d: `%s` in %s counts a successful call as failed (or descriptor 0 as no descriptor): what the call did in the kernel is not recorded in the object, or a valid "
            "descriptor is dropped" % (line(_brt[0][1]), _brt[0][2], _brt[0][0].name) if _brt else "fewer result tests than expected (%d)" % _nrt), _brt[0][1] if _brt else _ru.functions[sorted(_ru.functions)[0]].loc[0])
    check_error_contract(rep, "C06.2", prog, ['psemaphore-posix.c', 'psemaphore-sysv.c'], 10)
    check_zero_init(rep, "C06.2", prog, ['psemaphore-posix.c', 'psemaphore-sysv.c'], 1)
    from plint.wiring import clean_covers_create
    for (_un, _rule, _cr, _cl) in [('psemaphore-posix.c', 'C06.2', 'pp_semaphore_create_handle', 'pp_semaphore_clean_handle'), ('psemaphore-sysv.c', 'C06.5', 'pp_semaphore_create_handle', 'pp_semaphore_clean_handle')]:
        _u = prog.units.get(_un)
        if _u is None:
            continue
        _nf, _miss = clean_covers_create(_u, _cr, _cl)
        if _nf < 1:
            raise AnalysisBroken("%s: %s stores no field of the handle" % (_un, _cr))
        rep.ob(_rule, _u.fn(_cl, raw=True), "clean:covers-create", not _miss,
               "%s resets each of the %d fields %s stores" % (_cl, _nf, _cr) if not _miss else
               "%s no longer resets %s, which %s stores and tests: the recovery path (clean-up, then create again on the same object) finds the old value - "
               "a handle that once owned the object re-initialises the shared state it merely re-joined and removes it at free" % (_cl, ", ".join(_miss), _cr), _u.fn(_cl, raw=True).loc[0])

# generic robustness battery: renaming every local/parameter in these files must not change any verdict
RENAME_LOCALS = ['src/psemaphore-posix.c']

SELFTEST = [
    dict(id="sysv-clean-keeps-ownership-flag", file="src/psemaphore-sysv.c", expect="C06.5",
         old="\tsem->file_created = FALSE;\n\tsem->sem_created  = FALSE;", new="\tsem->file_created = FALSE;"),
    dict(id="init-val-field-sixteen-bits", file="src/psemaphore-posix.c", expect="C06.4",
         old="\tpint\t\t\tinit_val;", new="\tpushort\t\t\tinit_val;"),
    dict(id="key-file-not-exclusive", file="src/pipc.c", expect="C06.5",
         old="open (file_name, O_CREAT | O_EXCL | O_RDONLY, 0640)", new="open (file_name, O_CREAT | O_RDONLY, 0640)"),
    dict(id="new-forgets-mode", file="src/psemaphore-posix.c", expect="C06.4",
         old="\tret->init_val = init_val;\n\tret->mode = mode;\n", new="\tret->init_val = init_val;\n"),
    dict(id="name-buffer-without-terminator", file="src/psemaphore-posix.c", expect="C06.4",
         old="p_malloc0 (strlen (name) + strlen (P_SEM_SUFFIX) + 1)", new="p_malloc0 (strlen (name) + strlen (P_SEM_SUFFIX))"),
    dict(id="sysv-clean-handle-id-zero-invalid", file="src/psemaphore-sysv.c", expect="C06.5",
         old="\tif (sem->sem_hdl != P_SEM_INVALID_HDL &&\n\t    sem->sem_created == TRUE &&", new="\tif (sem->sem_hdl > 0 &&\n\t    sem->sem_created == TRUE &&"),
    dict(id="platform-key-static-context", file="src/pipc.c", expect="C06.4",
         old="\tPCryptoHash\t*sha1;\n\tpchar\t\t*hash_str;", new="\tstatic PCryptoHash\t*sha1;\n\tpchar\t\t*hash_str;"),
    dict(id="sysv-release-without-undo", file="src/psemaphore-sysv.c", expect="C06.5",
         old="struct sembuf sem_unlock = {0, 1, SEM_UNDO};", new="struct sembuf sem_unlock = {0, 1, 0};"),
    dict(id="sysv-both-without-undo-neutral", expect=None, edits=[
        dict(file="src/psemaphore-sysv.c", old="struct sembuf sem_unlock = {0, 1, SEM_UNDO};", new="struct sembuf sem_unlock = {0, 1, 0};"),
        dict(file="src/psemaphore-sysv.c", old="struct sembuf sem_lock = {0, -1, SEM_UNDO};", new="struct sembuf sem_lock = {0, -1, 0};")]),
    dict(id="sysv-acquire-nowait", file="src/psemaphore-sysv.c", expect="C06.5",
         old="struct sembuf sem_lock = {0, -1, SEM_UNDO};", new="struct sembuf sem_lock = {0, -1, SEM_UNDO | IPC_NOWAIT};"),
    dict(id="sysv-release-adds-two", file="src/psemaphore-sysv.c", expect="C06.5",
         old="struct sembuf sem_unlock = {0, 1, SEM_UNDO};", new="struct sembuf sem_unlock = {0, 2, SEM_UNDO};"),
    dict(id="sysv-acquire-no-eintr-retry", file="src/psemaphore-sysv.c", expect="C06.5", count=1,
         old="\twhile ((res = semop (sem->sem_hdl, &sem_lock, 1)) == -1 &&\n\t\tp_error_get_last_system () == EINTR)\n\t\t;\n\n\tret = (res == 0);\n\n\tif (P_UNLIKELY (ret == FALSE &&",
         new="\tres = semop (sem->sem_hdl, &sem_lock, 1);\n\n\tret = (res == 0);\n\n\tif (P_UNLIKELY (ret == FALSE &&"),
    dict(id="sysv-setval-on-every-open", file="src/psemaphore-sysv.c", expect="C06.5",
         old="\tif (sem->sem_created == TRUE || sem->mode == P_SEM_ACCESS_CREATE) {\n\t\tsemun_op.val", new="\tif (TRUE) {\n\t\tsemun_op.val"),
    dict(id="sysv-owned-after-fallback-open", file="src/psemaphore-sysv.c", expect="C06.5",
         old="\t\tif (p_error_get_last_system () == EEXIST)\n\t\t\tsem->sem_hdl = semget (sem->unix_key, 1, 0660);\n\t} else {\n\t\tsem->sem_created = TRUE;",
         new="\t\tif (p_error_get_last_system () == EEXIST) {\n\t\t\tsem->sem_hdl = semget (sem->unix_key, 1, 0660);\n\t\t\tsem->sem_created = TRUE;\n\t\t}\n\t} else {\n\t\tsem->sem_created = TRUE;"),
    dict(id="sysv-rmid-by-anyone", file="src/psemaphore-sysv.c", expect="C06.5",
         old="\tif (sem->sem_hdl != P_SEM_INVALID_HDL &&\n\t    sem->sem_created == TRUE &&\n\t    semctl", new="\tif (sem->sem_hdl != P_SEM_INVALID_HDL &&\n\t    semctl"),
    dict(id="create-reopen-without-ocreat", file="src/psemaphore-posix.c", expect="C06.1",
         old="\t\t\t\topen_flags = O_CREAT;", new="\t\t\t\topen_flags = 0;"),
    dict(id="open-mode-fallback-creates", file="src/psemaphore-posix.c", expect="C06.1",
         old="\t\t\t\tinit_val   = 0;\n\t\t\t\topen_flags = 0;", new="\t\t\t\tinit_val   = 0;\n\t\t\t\topen_flags = O_CREAT;"),
    dict(id="unlink-in-open-mode", file="src/psemaphore-posix.c", expect="C06.1",
         old="\t\t\tif (sem->mode == P_SEM_ACCESS_CREATE) {\n\t\t\t\t/* Reset the semaphore", new="\t\t\tif (sem->mode != P_SEM_ACCESS_CREATE) {\n\t\t\t\t/* Reset the semaphore"),
    dict(id="excl-create-zero-value", file="src/psemaphore-posix.c", expect="C06.1",
         old="\t\t\t\t\t O_CREAT | O_EXCL,\n\t\t\t\t\t 0660,\n\t\t\t\t\t init_val)) == P_SEM_INVALID_HDL", new="\t\t\t\t\t O_CREAT | O_EXCL,\n\t\t\t\t\t 0660,\n\t\t\t\t\t 0)) == P_SEM_INVALID_HDL"),
    dict(id="unlink-unconditional", file="src/psemaphore-posix.c", expect="C06.2",
         old="\tif (sem->sem_hdl != P_SEM_INVALID_HDL &&\n\t    sem->sem_created == TRUE &&\n\t    sem_unlink (sem->platform_key) == -1)",
         new="\tif (sem->sem_hdl != P_SEM_INVALID_HDL &&\n\t    sem_unlink (sem->platform_key) == -1)"),
    dict(id="close-only-owner", file="src/psemaphore-posix.c", expect="C06.2",
         old="\tif (P_UNLIKELY (sem->sem_hdl != P_SEM_INVALID_HDL &&\n\t\t\tsem_close (sem->sem_hdl) == -1))",
         new="\tif (P_UNLIKELY (sem->sem_hdl != P_SEM_INVALID_HDL && sem->sem_created == TRUE &&\n\t\t\tsem_close (sem->sem_hdl) == -1))"),
    dict(id="owner-on-open-mode", file="src/psemaphore-posix.c", expect="C06.2",
         old="\t\t\tif (sem->mode == P_SEM_ACCESS_CREATE && sem->sem_hdl != P_SEM_INVALID_HDL)\n\t\t\t\tsem->sem_created = TRUE;",
         new="\t\t\tif (sem->sem_hdl != P_SEM_INVALID_HDL)\n\t\t\t\tsem->sem_created = TRUE;"),
    dict(id="free-leaks-key", file="src/psemaphore-posix.c", expect="C06.2",
         old="\tif (P_LIKELY (sem->platform_key != NULL))\n\t\tp_free (sem->platform_key);\n\n\tp_free (sem);", new="\tp_free (sem);"),
    dict(id="release-calls-wait", file="src/psemaphore-posix.c", expect="C06.3",
         old="\tret = (sem_post (sem->sem_hdl) == 0);", new="\tret = (sem_wait (sem->sem_hdl) == 0);"),
    dict(id="acquire-eintr-not-retried", file="src/psemaphore-posix.c", expect="C06.3",
         old="\twhile ((res = sem_wait (sem->sem_hdl)) == -1 && p_error_get_last_system () == EINTR)\n\t\t;", new="\tres = sem_wait (sem->sem_hdl);"),
    dict(id="acquire-inverted", file="src/psemaphore-posix.c", expect="C06.3",
         old="\tret = (res == 0);", new="\tret = (res != 0);"),
    dict(id="key-from-other-string", file="src/psemaphore-posix.c", expect="C06.4",
         old="\tstrcpy (new_name, name);\n\tstrcat (new_name, P_SEM_SUFFIX);\n\n#if defined (P_OS_IRIX)", new="\tstrcpy (new_name, P_SEM_SUFFIX);\n\tstrcat (new_name, P_SEM_SUFFIX);\n\n#if defined (P_OS_IRIX)"),
    dict(id="acquire-do-while-neutral", file="src/psemaphore-posix.c", expect=None,
         old="\twhile ((res = sem_wait (sem->sem_hdl)) == -1 && p_error_get_last_system () == EINTR)\n\t\t;",
         new="\tdo {\n\t\tres = sem_wait (sem->sem_hdl);\n\t} while (res == -1 && p_error_get_last_system () == EINTR);"),
    dict(id="create-reopen-excl-neutral", file="src/psemaphore-posix.c", expect=None,
         old="\t\t\t\topen_flags = O_CREAT;", new="\t\t\t\topen_flags = O_CREAT | O_EXCL;"),
]
