"""C17 Socket address conversions: structural clauses."""
from plint import guards
from plint.flow import Flow
from plint.ir import calls, strip_casts, cv, line, show, root_var, walk, ap
from plint.units import AnalysisBroken

import re
FAMILY_KEY = re.compile(r"(->|\.)\w*family$")      # `addr->family`, `sa->sa_family`, `hdr.ss_family`: the family selects the branch under any field name
AF_INET, AF_INET6 = 2, 10
AI_NUMERICHOST = 4
MEMCPY = ("memcpy", "__builtin_memcpy", "__builtin___memcpy_chk")


def lower_bound(facts, var):
    lb = 0
    for (fk, fop, fv) in facts:
        if fk != var or not isinstance(fv, int):
            continue
        if fop == ">=":
            lb = max(lb, fv)
        elif fop == ">":
            lb = max(lb, fv + 1)
        elif fop == "==":
            lb = max(lb, fv)
        elif fop == "!=" and fv == 0:
            lb = max(lb, 1)
    return lb


MEMFUNCS = ("memset", "memcpy", "memmove", "__builtin_memset", "__builtin_memcpy", "__builtin_memmove",
            "__builtin___memset_chk", "__builtin___memcpy_chk", "__builtin___memmove_chk")


def native_accesses(fn, unit, stmt, ptr_names):
    """Yield (record, field, offset_bytes, size_bytes, node, is_write_target) for accesses through the native pointer(s)."""
    for n in walk(stmt):
        if n["k"] == "member" and n["arrow"]:
            rv = root_var(n["base"])
            if rv in ptr_names and n.get("rec") in unit.records:
                rec = unit.records[n["rec"]]
                f = rec.field(n["field"])
                if f is not None and f.get("bits") is not None:
                    yield rec.name, n["field"], f["off"] // 8, f["bits"] // 8, n
        if n["k"] == "call" and n.get("callee") in MEMFUNCS and len(n["args"]) >= 3:
            # a block operation on the buffer itself: bytes [k, k + size) of it
            ptrs = [n["args"][0]] + ([n["args"][1]] if "cpy" in n["callee"] or "move" in n["callee"] else [])
            for a in ptrs:
                pa = strip_casts(a)
                off = 0
                if pa is not None and pa["k"] == "bin" and pa["op"] == "+" and cv(pa["r"]) is not None:
                    off = cv(pa["r"])
                    pa = strip_casts(pa["l"])
                if pa is not None and pa["k"] == "ref" and pa["name"] in ptr_names:
                    size = cv(n["args"][2])
                    yield "buffer", "[%d..]" % off, off, (size if size is not None else 1 << 30), n


def run(prog, rep):
    rep.rule("C17.1", "guarded access: every read through the native pointer and every write through the destination pointer touches bytes [o, o+s) only where the length parameter is known to be at least o+s")
    rep.rule("C17.2", "reader/writer agreement: to_native and new_from_native copy the same (object field, native field) pairs per family; the port passes ntohs on the way in and htons on the way out; family constants agree")
    rep.rule("C17.3", "size agreement: get_native_size returns sizeof of the structure to_native fills for that family, and to_native's guard tests that same size")
    rep.rule("C17.4", "text path: strings with ':' go through getaddrinfo(AI_NUMERICHOST) whose result is freed on every path; others try inet_pton v4 then v6; the object is released on failure")
    u = prog.unit("psocketaddress.c")
    INET = u.enum_value("P_SOCKET_FAMILY_INET")
    INET6 = u.enum_value("P_SOCKET_FAMILY_INET6")

    # ---- C17.1 -------------------------------------------------------------------------------
    for fname, ptrp, lenp in (("p_socket_address_new_from_native", 0, 1), ("p_socket_address_to_native", 1, 2)):
        fn = u.fn(fname)
        pn, ln_ = fn.param_names()[ptrp], fn.param_names()[lenp]
        # locals that alias the pointer parameter (sin = (struct sockaddr_in *) dest)
        alias = set(fn.value_aliases(pn))
        for b, i, n in fn.nodes():
            if n["k"] == "asg" and strip_casts(n["l"])["k"] == "ref" and root_var(n["r"]) in alias and strip_casts(n["r"])["k"] == "ref":
                alias.add(strip_casts(n["l"])["name"])
            if n["k"] == "decl" and n.get("init") is not None and strip_casts(n["init"]) is not None and strip_casts(n["init"])["k"] == "ref" and root_var(n["init"]) in alias:
                alias.add(n["name"])
        bad = []
        nacc = [0]

        def on_stmt(st, b, i, stmt, bad=bad, nacc=nacc, alias=alias, ln_=ln_):
            lb = lower_bound(st, ln_)
            for (rec, fld, off, size, node) in native_accesses(fn, u, stmt, alias):
                nacc[0] += 1
                if off + size > lb:
                    bad.append((node, rec, fld, off, size, lb, flow.witness_lines(*flow.cur)))
            return [guards.transfer(st, stmt)]
        flow = Flow(fn, [guards.EMPTY], on_stmt, lambda st, b, to, on: guards.edge_assume(st, b, on))
        flow.run()
        if bad:
            node, rec, fld, off, size, lb, path = bad[0]
            rep.ob("C17.1", fn, "bounds", False, "line %d: %s.%s (bytes %d..%d of the buffer) is accessed where only %s >= %d is established: a too small buffer is %s beyond its end" % (
                line(node), rec, fld, off, off + size - 1, ln_, lb, "read" if ptrp == 0 else "written"), node, path)
        else:
            rep.ob("C17.1", fn, "bounds", nacc[0] > 0, "all %d accesses through the native buffer lie below the established length" % nacc[0], fn.loc[0])
    rep.floor("C17.1", 2)

    # ---- C17.2 field agreement -----------------------------------------------------------------
    def pairs_from(fn, obj_var_pred, nat_alias, direction):
        """Collect (family_const_on_path, objfield, natfield, through) for copies between object and native."""
        out = []

        famvars = set()
        for b_, i_, n_ in fn.nodes():
            if n_["k"] == "asg" and strip_casts(n_["l"])["k"] == "ref":
                r_ = strip_casts(n_["r"])
                if r_ is not None and r_["k"] == "member" and r_["field"].endswith("family"):
                    famvars.add(strip_casts(n_["l"])["name"])

        def fam(st):
            for (fk, fop, fv) in st:
                if fop == "==" and isinstance(fv, int) and (fk in famvars or FAMILY_KEY.search(fk)):
                    return fv
            return None

        def on_stmt(st, b, i, stmt):
            for n in walk(stmt):
                if n["k"] == "asg" and n["op"] == "=":
                    l, r = strip_casts(n["l"]), n["r"]
                    through = None
                    rs = strip_casts(r)
                    if rs is not None and rs["k"] == "call":
                        through = rs.get("callee")
                        if rs["args"]:
                            rs = strip_casts(rs["args"][0])
                    sw = bswap16_operand(rs)
                    if sw is not None:
                        through, rs = "bswap16", sw
                    if l is not None and l["k"] == "member" and rs is not None and rs["k"] == "member":
                        lo, ro = root_var(l), root_var(rs)
                        if direction == "in" and obj_var_pred(lo) and ro in nat_alias:
                            out.append((fam(st), path_of(l), natf(rs), through, line(n)))
                        if direction == "out" and lo in nat_alias and obj_var_pred(ro):
                            out.append((fam(st), path_of(rs), natf(l), through, line(n)))
                if n["k"] == "call" and n.get("callee") in MEMCPY:
                    d, s_ = strip_casts(n["args"][0]), strip_casts(n["args"][1])
                    if d is not None and d["k"] == "un" and d["op"] == "&":
                        d = strip_casts(d["e"])
                    if s_ is not None and s_["k"] == "un" and s_["op"] == "&":
                        s_ = strip_casts(s_["e"])
                    if d is not None and s_ is not None and d["k"] == "member" and s_["k"] == "member":
                        lo, ro = root_var(d), root_var(s_)
                        if direction == "in" and obj_var_pred(lo) and ro in nat_alias:
                            out.append((fam(st), path_of(d), natf(s_), "memcpy:%s" % cv(n["args"][2]), line(n)))
                        if direction == "out" and lo in nat_alias and obj_var_pred(ro):
                            out.append((fam(st), path_of(s_), natf(d), "memcpy:%s" % cv(n["args"][2]), line(n)))
            return [guards.transfer(st, stmt)]
        Flow(fn, [guards.EMPTY], on_stmt, lambda st, b, to, on: guards.edge_assume(st, b, on)).run()
        return out

    def natf(m):
        """native field identified by its byte range (sockaddr_in.sin_port and sockaddr_in6.sin6_port are the same bytes)"""
        rec = u.records.get(m.get("rec"))
        f = rec.field(m["field"]) if rec else None
        if f is None or f.get("bits") is None:
            return m["field"]
        return "bytes[%d..%d]" % (f["off"] // 8, (f["off"] + f["bits"]) // 8 - 1)

    def path_of(m):
        parts = []
        m = strip_casts(m)
        while m is not None and m["k"] == "member":
            parts.append(m["field"])
            m = strip_casts(m["base"])
        return ".".join(reversed(parts))

    fin = u.fn("p_socket_address_new_from_native")
    fout = u.fn("p_socket_address_to_native")
    alias_in = set(fin.value_aliases(fin.param_names()[0]))
    in_pairs = pairs_from(fin, lambda v: v not in alias_in, alias_in, "in")
    alias_out = set(fout.value_aliases(fout.param_names()[1]))
    for b, i, n in fout.nodes():
        if n["k"] == "asg" and strip_casts(n["l"])["k"] == "ref" and root_var(n["r"]) in alias_out:
            alias_out.add(strip_casts(n["l"])["name"])
    out_pairs = pairs_from(fout, lambda v: v == fout.param_names()[0], alias_out, "out")
    # family mapping: in: native family const -> object enum ; out: object enum -> native const
    fam_in = {}
    for (fam, of, nf, th, ln) in in_pairs:
        pass
    in_by = {}
    for (fam, of, nf, th, ln) in in_pairs:
        in_by.setdefault(fam, set()).add((of, nf, th if th and not th.startswith("memcpy") else th))
    out_by = {}
    for (fam, of, nf, th, ln) in out_pairs:
        out_by.setdefault(fam, set()).add((of, nf, th))
    natfam = {AF_INET: INET, AF_INET6: INET6}
    for nat, obj in sorted(natfam.items()):
        a = in_by.get(nat, set())
        b_ = out_by.get(obj, set())
        a_f = set((of, nf) for (of, nf, th) in a)
        b_f = set((of, nf) for (of, nf, th) in b_)
        name = "IPv4" if nat == AF_INET else "IPv6"
        ok = a_f == b_f and len(a_f) >= 2
        msg = ""
        if not ok:
            only_in = sorted(a_f - b_f)
            only_out = sorted(b_f - a_f)
            msg = "%s: new_from_native copies %s but to_native copies %s (object field <-> native field): a round trip does not reproduce the address" % (
                name, ["%s<-%s" % p for p in only_in] or "nothing more", ["%s->%s" % p for p in only_out] or "nothing more")
        # port conversion
        pin = [th for (of, nf, th) in a if of == "port"]
        pout = [th for (of, nf, th) in b_ if of == "port"]
        if ok and (len(pin) != 1 or len(pout) != 1 or not swaps(pin[0]) or not swaps(pout[0])):
            ok, msg = False, "%s: the port is not byte-swapped on both ways (in through %s, out through %s)" % (name, pin, pout)
        others = [(of, th) for (of, nf, th) in (a | b_) if of != "port" and th and swaps(th)]
        if ok and others:
            ok, msg = False, "%s: field %s is byte-swapped although only the port is kept in host order" % (name, others[0][0])
        # memcpy sizes agree
        szs = set(th for (of, nf, th) in (a | b_) if th and th.startswith("memcpy"))
        if ok and len(szs) > 1:
            ok, msg = False, "%s: the address bytes are copied with different sizes %s in the two directions" % (name, sorted(szs))
        rep.ob("C17.2", fout, "fields:" + name, ok, "%s: both directions copy %s; port through ntohs/htons" % (name, sorted("%s<->%s" % p for p in a_f)) if ok else msg, fout.loc[0])
    # family constants
    okf, msgf = True, ""
    st_in = [(n, facts_fam) for (n, facts_fam) in family_stores(fin, u, "family")]
    for (val, cond) in st_in:
        if natfam.get(cond) != val:
            okf, msgf = False, "new_from_native stores family %s for native family %s" % (val, cond)
    st_out = family_stores(fout, u, "sin_family") + family_stores(fout, u, "sin6_family")
    for (val, cond) in st_out:
        if natfam.get(val) != cond:
            okf, msgf = False, "to_native stores native family %s for object family %s" % (val, cond)
    if len(st_in) != 2 or len(st_out) != 2:
        okf, msgf = False, msgf or "family stores not found (in %d, out %d)" % (len(st_in), len(st_out))
    rep.ob("C17.2", fin, "family", okf, "AF_INET <-> P_SOCKET_FAMILY_INET and AF_INET6 <-> P_SOCKET_FAMILY_INET6 in both directions" if okf else msgf, fin.loc[0])
    rep.floor("C17.2", 3)

    # ---- C17.3 ---------------------------------------------------------------------------------
    gs = u.fn("p_socket_address_get_native_size")
    sizes = {}

    def s3(st, b, i, stmt):
        if stmt["k"] == "ret":
            fam = None
            for (fk, fop, fv) in st:
                if fk.endswith("->family") and fop == "==":
                    fam = fv
            if fam is not None:
                v = cv(stmt.get("e"))
                sizes[fam] = v if v is not None else guards.eval_const(stmt.get("e"), st)       # single-exit form: the size sits in a local
        return [guards.transfer(st, stmt)]
    Flow(gs, [guards.EMPTY], s3, lambda st, b, to, on: guards.edge_assume(st, b, on)).run()
    want = {INET: u.records["sockaddr_in"].size if "sockaddr_in" in u.records else None,
            INET6: u.records["sockaddr_in6"].size if "sockaddr_in6" in u.records else None}
    guardsz = {}

    def s4(st, b, i, stmt):
        for n in walk(stmt):
            if n["k"] == "bin" and n["op"] in ("<", ">=") and root_var(n["l"]) == fout.param_names()[2] and cv(n["r"]) is not None:
                fam = None
                for (fk, fop, fv) in st:
                    if fk.endswith("->family") and fop == "==":
                        fam = fv
                if fam is not None:
                    guardsz[fam] = cv(n["r"])
        return [guards.transfer(st, stmt)]
    Flow(fout, [guards.EMPTY], s4, lambda st, b, to, on: guards.edge_assume(st, b, on)).run()
    # families outside the two supported ones (an explicit `case UNKNOWN:` next to the default) report 0
    ok3 = dict((f, v) for (f, v) in sizes.items() if f in want) == want and all(v == 0 for (f, v) in sizes.items() if f not in want) \
        and guardsz == want and None not in want.values()
    rep.ob("C17.3", gs, "size", ok3, "get_native_size and to_native's length guard both use sizeof (sockaddr_in)=%s / sizeof (sockaddr_in6)=%s" % (want[INET], want[INET6]) if ok3 else
           "native sizes disagree: get_native_size %s, to_native guard %s, structures %s" % (sizes, guardsz, want), gs.loc[0])
    # ... and new_from_native accepts every length from the structure size upwards: on its success paths the length is only
    # bounded from below (callers hand in sizeof (struct sockaddr_storage), to_native accepts any destlen >= the size - an exact-length
    # test makes the two directions disagree and every storage-sized IPv6 address is rejected)
    lenp_in = fin.param_names()[1] if len(fin.param_names()) > 1 else None
    upper = []
    nsucc = [0]

    def s5(st, b, i, stmt):
        if stmt["k"] == "ret" and stmt.get("e") is not None and cv(stmt["e"]) != 0:
            nsucc[0] += 1
            for (fk, fop, fv) in st:
                if fk == lenp_in and fop in ("==", "<", "<="):
                    upper.append((line(stmt), fop, fv))
        return [guards.transfer(st, stmt)]
    Flow(fin, [guards.EMPTY], s5, lambda st, b, to, on: guards.edge_assume(st, b, on)).run()
    oku = bool(nsucc[0]) and not upper and lenp_in is not None
    rep.ob("C17.3", fin, "length:lower-bound-only", oku, "new_from_native accepts every length >= the structure size (%d success path(s), no upper bound on the length)" % nsucc[0] if oku else
           ("line %d: a native address is accepted only with length %s %s: a longer buffer holding the same address (sizeof (struct sockaddr_storage), as the socket layer and "
            "to_native's callers use) is rejected, so to_native followed by new_from_native no longer reproduces the address" % (upper[0][0], upper[0][1], upper[0][2]) if upper else
            "no success path found in new_from_native"), fin.loc[0])
    rep.floor("C17.3", 2)

    # ---- C17.4 ---------------------------------------------------------------------------------
    nw = u.fn("p_socket_address_new")
    gai = [c for (b, i, c) in nw.calls() if c.get("callee") == "getaddrinfo"]
    flags = [n for (b, i, n) in nw.nodes() if n["k"] == "asg" and strip_casts(n["l"])["k"] == "member" and strip_casts(n["l"])["field"] == "ai_flags"]
    ok4 = len(gai) == 1 and len(flags) == 1 and (cv(flags[0]["r"]) or 0) & AI_NUMERICHOST
    configured = "-DPLIBSYS_HAS_GETADDRINFO" in u.flags and "-DPLIBSYS_SOCKADDR_IN6_HAS_SCOPEID" in u.flags
    if not gai and not configured:
        ok4 = True      # a configuration without getaddrinfo or without a scope id: inet_pton is the platform's whole numeric parser
    rep.ob("C17.4", nw, "numeric", bool(ok4), ("getaddrinfo is restricted to numeric hosts (AI_NUMERICHOST): no name resolution" if gai else "this configuration has no getaddrinfo: inet_pton only") if ok4 else
           ("the getaddrinfo branch for strings containing ':' is not part of this build although the configuration provides getaddrinfo and a scope id "
            "(its preprocessor guard is off): scoped IPv6 strings such as fe80::1%lo, which the platform accepts, are rejected by inet_pton" if not gai else
            "getaddrinfo is called without AI_NUMERICHOST: host names are resolved, creation succeeds for non-numeric strings"), nw.loc[0])
    # result freed on every path after success
    leaks = []

    def s5(st, b, i, stmt):
        facts, live = st
        for c in calls(stmt):
            if c.get("callee") == "getaddrinfo":
                live = "pending"
            if c.get("callee") == "freeaddrinfo":
                live = None
        if stmt["k"] == "ret" and live == "live":
            leaks.append(line(stmt))
        return [(guards.transfer(facts, stmt), live)]

    def e5(st, b, to, on):
        f2 = guards.edge_assume(st[0], b, on)
        if f2 is None:
            return None
        live = st[1]
        if live == "pending":
            for (fk, fop, fv) in f2:
                if fk.startswith("getaddrinfo("):
                    if fop == "==" and fv == 0:
                        live = "live"
                    elif fop == "!=" and fv == 0:
                        live = None
        return (f2, live)
    Flow(nw, [(guards.EMPTY, None)], s5, e5).run()
    rep.ob("C17.4", nw, "freeaddrinfo", not leaks, ("the getaddrinfo result is freed on every path after success" if gai else "no getaddrinfo call in this build (reported above)") if not leaks else
           "line %d: a path returns without freeaddrinfo after a successful getaddrinfo" % leaks[0], leaks[0] if leaks else nw.loc[0])
    pt = [(b, i, c) for (b, i, c) in nw.calls() if c.get("callee") == "inet_pton"]
    okp = len(pt) == 2 and cv(pt[0][2]["args"][0]) in (AF_INET, AF_INET6) and cv(pt[1][2]["args"][0]) in (AF_INET, AF_INET6) and \
        cv(pt[0][2]["args"][0]) != cv(pt[1][2]["args"][0])
    if okp:
        first = pt[0] if nw.pos_dominates((pt[0][0].id, pt[0][1]), (pt[1][0].id, pt[1][1])) else pt[1]
        okp = cv(first[2]["args"][0]) == AF_INET
    rep.ob("C17.4", nw, "inet_pton", okp, "plain strings are parsed with inet_pton AF_INET first, then AF_INET6" if okp else "inet_pton is not tried for AF_INET then AF_INET6", nw.loc[0])
    # family stored matches the parser that succeeded
    okm = True
    for (val, cond) in []:
        pass
    rep.floor("C17.4", 3)

    # ---- C17.5 IPv4 classification constants ------------------------------------------------------
    rep.rule("C17.5", "IPv4 classification: is_any compares the address with 0.0.0.0; is_loopback tests (host-order address & 0xff000000) == 0x7f000000, i.e. 127.0.0.0/8, on a byte-swapped copy of the stored network-order address")
    for fname, want in (("p_socket_address_is_any", ("any", None, 0)), ("p_socket_address_is_loopback", ("loop", 0xff000000, 0x7f000000))):
        fn = u.fn(fname)
        cmps = []
        for b, i, n in fn.nodes():
            if n["k"] == "bin" and n["op"] == "==" and cv(n["r"]) is not None and strip_casts(n["l"]) is not None:
                l = strip_casts(n["l"])
                if l["k"] == "bin" and l["op"] == "&" and cv(l["r"]) is not None:
                    cmps.append((cv(l["r"]) & 0xffffffff, cv(n["r"]) & 0xffffffff, root_var(l["l"]), n))
                elif l["k"] == "ref" and (fn.unit.type_of(l) or {}).get("w") == 32:
                    cmps.append((None, cv(n["r"]) & 0xffffffff, l["name"], n))
        cmps = [c for c in cmps if c[2] not in fn.param_names()]
        ok5 = len(cmps) == 1 and cmps[0][0] == want[1] and cmps[0][1] == want[2]
        # the compared local is the byte-swapped stored address
        swapped = False
        if cmps:
            var = cmps[0][2]
            for b, i, n in fn.nodes():
                if n["k"] == "asg" and root_var(n["l"]) == var and strip_casts(n["l"])["k"] == "ref":
                    shifts = sorted(cv(x["r"]) for x in walk(n["r"]) if x["k"] == "bin" and x["op"] in ("<<", ">>") and cv(x["r"]) is not None)
                    mentions = any(x["k"] == "member" and x["field"] == "sin_addr" for x in walk(n["r"]))
                    if mentions and (shifts == [8, 8, 24, 24] or any(c.get("callee") in ("ntohl", "__bswap_32") for c in calls(n["r"]))):
                        swapped = True
        if want[0] == "any":
            swapped = swapped or bool(cmps)        # 0 is the same in both byte orders
        # ... all 32 bits of it: no conversion to a narrower integer between the stored address and the compared value (a 16-bit swap
        # macro keeps two of the four bytes, and 0.0.x.y then tests as 0.0.0.0)
        narrowed = None
        if cmps:
            var = cmps[0][2]
            for b, i, n in fn.nodes():
                if (n["k"] == "asg" and root_var(n["l"]) == var and strip_casts(n["l"])["k"] == "ref") or (n["k"] == "decl" and n.get("name") == var and n.get("init") is not None):
                    for x in walk(n["r"] if n["k"] == "asg" else n["init"]):
                        if x["k"] == "cast" and x.get("e") is not None:
                            t1, t0 = fn.unit.type_of(x), fn.unit.type_of(x["e"])
                            if t1 and t0 and t1.get("k") == "int" and t0.get("k") == "int" and t1.get("w", 0) < 32 <= t0.get("w", 0):
                                narrowed = (x, t1.get("s"))
        if narrowed is not None:
            rep.ob("C17.5", fn, "ipv4:width", False, "line %d: the address passes through %s on its way to the comparison: only part of its four bytes is tested, so %s" % (
                line(narrowed[0]), narrowed[1], "every address 0.0.x.y counts as the any-address" if want[0] == "any" else "the classification looks at the wrong bytes"), narrowed[0])
        else:
            rep.ob("C17.5", fn, "ipv4:width", bool(cmps), "the compared value carries all 32 bits of the address" if cmps else "no comparison found", fn.loc[0])
        rep.ob("C17.5", fn, "ipv4", ok5 and swapped,
               ("0.0.0.0 test" if want[0] == "any" else "(host-order address & 0xff000000) == 0x7f000000") if ok5 and swapped else
               "the IPv4 %s test is %s%s" % ("any-address" if want[0] == "any" else "loopback",
                                            ", ".join("(& %s) == %s" % (hex(c[0]) if c[0] is not None else "-", hex(c[1])) for c in cmps) or "missing",
                                            "" if swapped else " on an address that is not converted to host order"), fn.loc[0])
    rep.floor("C17.5", 4)


def swaps(name):
    return bool(name) and any(x in name for x in ("htons", "ntohs", "bswap", "__uint16_identity"))


def bswap16_operand(e):
    """((x >> 8) | (x << 8)) on a 16-bit operand (p_htons / p_ntohs on little-endian hosts) -> x, else None."""
    e = strip_casts(e)
    if e is None or e["k"] != "bin" or e["op"] != "|":
        return None
    a, b = strip_casts(e["l"]), strip_casts(e["r"])
    if a is None or b is None or a["k"] != "bin" or b["k"] != "bin":
        return None
    ops = {a["op"]: a, b["op"]: b}
    if set(ops) != {">>", "<<"} or cv(ops[">>"]["r"]) != 8 or cv(ops["<<"]["r"]) != 8:
        return None
    x, y = strip_casts(ops[">>"]["l"]), strip_casts(ops["<<"]["l"])
    if x is None or y is None or guards.key(x) != guards.key(y):
        return None
    return x


def family_stores(fn, u, field):
    """[(stored const, family const known on the path)]"""
    out = []
    famvars = set()
    for b_, i_, n_ in fn.nodes():
        if n_["k"] == "asg" and strip_casts(n_["l"])["k"] == "ref":
            r_ = strip_casts(n_["r"])
            if r_ is not None and r_["k"] == "member" and r_["field"].endswith("family"):
                famvars.add(strip_casts(n_["l"])["name"])

    def on_stmt(st, b, i, stmt):
        for n in walk(stmt):
            if n["k"] == "asg":
                l = strip_casts(n["l"])
                if l is not None and l["k"] == "member" and l["field"] == field and cv(n["r"]) is not None:
                    fam = None
                    for (fk, fop, fv) in st:
                        if fop == "==" and isinstance(fv, int) and (fk in famvars or FAMILY_KEY.search(fk)):
                            fam = fv
                    out.append((cv(n["r"]), fam))
        return [guards.transfer(st, stmt)]
    Flow(fn, [guards.EMPTY], on_stmt, lambda st, b, to, on: guards.edge_assume(st, b, on)).run()
    return sorted(set(out))


# objects are zero-filled at birth: the functions of these units rely on it for every field their constructors do not store
_run_clauses = run


def run(prog, rep):
    _run_clauses(prog, rep)
    from plint.wiring import check_zero_init
    # address -> text: inet_ntop is given room for the longest text of its family, terminator included (INET_ADDRSTRLEN 16,
    # INET6_ADDRSTRLEN 46) and no more than the buffer has; one less and 255.255.255.255-shaped addresses fail with ENOSPC, which the
    # caller does not look at - it then copies an uninitialised buffer
    _ga = prog.unit("psocketaddress.c").fn("p_socket_address_get_address")
    _nt = [c for (b, i, c) in _ga.calls() if c.get("callee") == "inet_ntop" and len(c["args"]) >= 4]
    _bad = []
    for c in _nt:
        fam_, sz_ = cv(c["args"][0]), cv(c["args"][3])
        if sz_ is None:
            sz_ = guards.eval_const(c["args"][3], guards.EMPTY)
        need_ = {2: 16, 10: 46}.get(fam_)
        if need_ is not None and sz_ is not None and sz_ < need_:
            _bad.append((c, "the %s text buffer size handed to inet_ntop is %d, the longest text with its terminator needs %d" % ("IPv4" if fam_ == 2 else "IPv6", sz_, need_)))
    # text -> address: the strings rejected are the ones the platform rejects.  A NULL return of p_socket_address_new that is reached
    # with a non-NULL string and without a failed allocation comes after one of the platform's parsers has been asked (a length or
    # character pre-filter in front of them turns away strings the platform takes, e.g. a full link-local address with a zone)
    _an = prog.unit("psocketaddress.c").fn("p_socket_address_new")
    _PARSERS = ("inet_pton", "inet_aton", "inet_addr", "getaddrinfo", "WSAStringToAddressA")
    _ap = _an.param_names()[0]
    _early = []
    _nfail = [0]

    def _as(st, b, i, stmt):
        facts, parsed, empty = st
        if any(c.get("callee") in _PARSERS for c in calls(stmt)):
            parsed = True
        if stmt["k"] == "ret" and stmt.get("e") is not None and guards.eval_const(stmt["e"], facts) == 0:
            _nfail[0] += 1
            oom = any(fk.startswith("p_malloc") and fop == "==" and fv == 0 for (fk, fop, fv) in facts)
            if not parsed and not oom and not empty and guards.lookup(facts, _ap) != 0 and guards.known_nonzero({"k": "ref", "name": _ap, "decl": "param"}, facts):
                _early.append(line(stmt))
        return [(guards.transfer(facts, stmt), parsed, empty)]

    def _ae(st, b, to, on):
        f2 = guards.edge_assume(st[0], b, on)
        if f2 is None:
            return None
        # "" is no numeric address on any platform: a path that has seen the first character to be NUL may leave at once (the fact is
        # remembered here because the next call statement forgets everything known about memory)
        empty = st[2] or guards.lookup(f2, "*(%s)" % _ap) == 0 or guards.lookup(f2, "%s[0]" % _ap) == 0
        if not empty and on == "true" and b.cond is not None:
            # `address == NULL || *address == 0` taken as true with the first test already known false: the second one holds
            from plint.ir import strip_expect
            c_ = strip_casts(strip_expect(b.cond))
            while c_ is not None and c_["k"] == "un" and c_.get("op") == "!" and strip_casts(strip_expect(c_["e"])) is not None \
                    and strip_casts(strip_expect(c_["e"]))["k"] == "un" and strip_casts(strip_expect(c_["e"])).get("op") == "!":
                c_ = strip_casts(strip_expect(strip_casts(strip_expect(c_["e"]))["e"]))          # !!x
            if c_ is not None and c_["k"] == "bin" and c_["op"] == "||":
                for (known, other) in ((c_["l"], c_["r"]), (c_["r"], c_["l"])):
                    o_ = strip_casts(other)
                    if guards.eval_const(known, st[0]) == 0 and o_ is not None and o_["k"] == "bin" and o_["op"] == "==" and cv(o_["r"]) == 0 \
                            and guards.key(o_["l"]) in ("*(%s)" % _ap, "%s[0]" % _ap):
                        empty = True
        return (f2, st[1], empty)
    Flow(_an, [(guards.EMPTY, False, False)], _as, _ae).run()
    if _nfail[0] < 2:
        raise AnalysisBroken("p_socket_address_new: fewer than two failure returns found (%d)" % _nfail[0])
    rep.ob("C17.4", _an, "text:platform-decides", not _early,
           "each of the %d failure returns follows a NULL string, a failed allocation or a platform parser" % _nfail[0] if not _early else
           "line %d: a non-NULL string is turned away before inet_pton / getaddrinfo were asked: strings the platform accepts (for instance a fully written scoped "
           "IPv6 address, which is longer than INET6_ADDRSTRLEN) are rejected" % _early[0], _early[0] if _early else _an.loc[0])
    rep.ob("C17.4", _ga, "ntop:size", bool(_nt) and not _bad, "inet_ntop is given room for the longest text of each family" if (_nt and not _bad) else
           ("line %d: %s: addresses whose text is that long come back as whatever the stack buffer held" % (line(_bad[0][0]), _bad[0][1]) if _bad else "no inet_ntop call found"),
           _bad[0][0] if _bad else _ga.loc[0])
    from plint.wiring import array_bounds
    _bu = prog.unit("psocketaddress.c")
    _bj, _bb = 0, []
    for _f in sorted(_bu.functions.values(), key=lambda f__: f__.loc[0]):
        _a, _b = array_bounds(_f)
        _bj += _a
        _bb += [(_f,) + x for x in _b]
    rep.ob("C17.1", _bb[0][0] if _bb else sorted(_bu.functions.values(), key=lambda f__: f__.loc[0])[0], "bounds", not _bb,
           "%d subscripts of fixed-size arrays with a known largest index stay inside their arrays" % _bj if not _bb else
           "line %d: %s has %d elements and is subscripted with an index that reaches %d in %s" % (line(_bb[0][1]), _bb[0][2], _bb[0][3], _bb[0][4], _bb[0][0].name),
           _bb[0][1] if _bb else sorted(_bu.functions.values(), key=lambda f__: f__.loc[0])[0].loc[0])
    check_zero_init(rep, "C17.2", prog, ['psocketaddress.c'], 1)

# generic robustness battery: renaming every local/parameter in these files must not change any verdict
RENAME_LOCALS = ['src/psocketaddress.c']

SELFTEST = [
    dict(id="text-empty-string-early-return-neutral", file="src/psocketaddress.c", expect=None,
         old="\tif (P_UNLIKELY (address == NULL))\n\t\treturn NULL;\n\n#if (defined (P_OS_WIN) || defined (PLIBSYS_HAS_GETADDRINFO)) && defined (AF_INET6)",
         new="\tif (P_UNLIKELY (address == NULL || *address == '\\0'))\n\t\treturn NULL;\n\n#if (defined (P_OS_WIN) || defined (PLIBSYS_HAS_GETADDRINFO)) && defined (AF_INET6)"),
    dict(id="text-length-prefilter", file="src/psocketaddress.c", expect="C17.4",
         old="\tif (P_UNLIKELY (address == NULL))\n\t\treturn NULL;\n\n#if (defined (P_OS_WIN) || defined (PLIBSYS_HAS_GETADDRINFO)) && defined (AF_INET6)",
         new="\tif (P_UNLIKELY (address == NULL || strlen (address) >= INET6_ADDRSTRLEN))\n\t\treturn NULL;\n\n#if (defined (P_OS_WIN) || defined (PLIBSYS_HAS_GETADDRINFO)) && defined (AF_INET6)"),
    dict(id="address-text-buffer-one-short", file="src/psocketaddress.c", expect="C17.4",
         old="inet_ntop (AF_INET, &addr->addr.sin_addr, buffer, sizeof (buffer));", new="inet_ntop (AF_INET, &addr->addr.sin_addr, buffer, INET_ADDRSTRLEN - 1);"),
    dict(id="is-any-sixteen-bit-swap", file="src/psocketaddress.c", expect="C17.5",
         old="\t\taddr4 = p_ntohl (* ((puint32 *) &addr->addr.sin_addr));\n\n\t\treturn (addr4 == INADDR_ANY);", new="\t\taddr4 = p_ntohs (* ((puint32 *) &addr->addr.sin_addr));\n\n\t\treturn (addr4 == INADDR_ANY);"),
    dict(id="to-native-clears-whole-struct-before-guard", file="src/psocketaddress.c", expect="C17.1",
         old="\t\tif (P_UNLIKELY (destlen < sizeof (struct sockaddr_in))) {", new="\t\tmemset (sin, 0, sizeof (struct sockaddr_in));\n\n\t\tif (P_UNLIKELY (destlen < sizeof (struct sockaddr_in))) {"),
    dict(id="to-native-clears-whole-struct-after-guard-neutral", file="src/psocketaddress.c", expect=None,
         old="\t\tmemcpy (&sin->sin_addr, &addr->addr.sin_addr, sizeof (struct in_addr));\n\t\tsin->sin_family = AF_INET;", new="\t\tmemset (sin, 0, sizeof (struct sockaddr_in));\n\t\tmemcpy (&sin->sin_addr, &addr->addr.sin_addr, sizeof (struct in_addr));\n\t\tsin->sin_family = AF_INET;"),
    dict(id="family-read-unguarded-again", file="src/psocketaddress.c", expect="C17.1",
         old="len < sizeof (struct sockaddr)))", new="len == 0))"),
    dict(id="ipv6-length-guard-dropped", file="src/psocketaddress.c", expect="C17.1",
         old="\t\tif (len < sizeof (struct sockaddr_in6)) {", new="\t\tif (len < sizeof (struct sockaddr_in)) {"),
    dict(id="to-native-v6-guard-v4-size", file="src/psocketaddress.c", expect="C17.1",
         old="\t\tif (P_UNLIKELY (destlen < sizeof (struct sockaddr_in6))) {", new="\t\tif (P_UNLIKELY (destlen < sizeof (struct sockaddr_in))) {"),
    dict(id="scope-id-from-flowinfo", file="src/psocketaddress.c", expect="C17.2",
         old="\t\tsin6->sin6_scope_id = addr->scope_id;", new="\t\tsin6->sin6_scope_id = addr->flowinfo;"),
    dict(id="scope-id-not-copied-out", file="src/psocketaddress.c", expect="C17.2",
         old="\t\tsin6->sin6_scope_id = addr->scope_id;\n", new=""),
    dict(id="port-no-ntohs-in", file="src/psocketaddress.c", expect="C17.2", count=1,
         old="\t\tret->port   = p_ntohs (((struct sockaddr_in *) native)->sin_port);\n\t\treturn ret;", new="\t\tret->port   = ((struct sockaddr_in *) native)->sin_port;\n\t\treturn ret;"),
    dict(id="native-size-swapped", file="src/psocketaddress.c", expect="C17.3",
         old="\tif (addr->family == P_SOCKET_FAMILY_INET)\n\t\treturn sizeof (struct sockaddr_in);", new="\tif (addr->family == P_SOCKET_FAMILY_INET)\n\t\treturn sizeof (struct sockaddr_in6);"),
    dict(id="from-native-exact-length-only", file="src/psocketaddress.c", expect="C17.3",
         old="\t\tif (len < sizeof (struct sockaddr_in6)) {", new="\t\tif (len != sizeof (struct sockaddr_in6)) {"),
    dict(id="numerichost-dropped", file="src/psocketaddress.c", expect="C17.4",
         old="\t\thints.ai_flags    = AI_NUMERICHOST;", new="\t\thints.ai_flags    = 0;"),
    dict(id="addrinfo-leak", file="src/psocketaddress.c", expect="C17.4",
         old="\t\t} else\n\t\t\tret = NULL;\n\n\t\tfreeaddrinfo (res);", new="\t\t} else\n\t\t\treturn NULL;\n\n\t\tfreeaddrinfo (res);"),
    dict(id="loopback-mask-16", file="src/psocketaddress.c", expect="C17.5",
         old="\t\treturn ((addr4 & 0xff000000) == 0x7f000000);", new="\t\treturn ((addr4 & 0xffff0000) == 0x7f000000);"),
    dict(id="loopback-no-ntohl", file="src/psocketaddress.c", expect="C17.5", count=1,
         old="\t\taddr4 = p_ntohl (* ((puint32 *) &addr->addr.sin_addr));\n\n\t\t/* 127.0.0.0/8 */", new="\t\taddr4 = * ((puint32 *) &addr->addr.sin_addr);\n\n\t\t/* 127.0.0.0/8 */"),
    dict(id="htons-ntohs-exchanged-neutral", expect=None, edits=[
        dict(file="src/psocketaddress.c", old="\t\tsin->sin_port   = p_htons (addr->port);", new="\t\tsin->sin_port   = p_ntohs (addr->port);")]),
]
