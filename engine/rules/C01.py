"""C01 Mutex and spinlock: structural clauses (DESIGN.md section 4, C01)."""
from plint import guards
from plint.flow import Flow
from plint.ir import calls, strip_casts, ap, root_var, cv, line, show, walk
from plint.units import AnalysisBroken
from plint.wiring import check_wrapper, handle_is_param_field, callee_of, creation_attributes

BLOCKING = {"pthread_mutex_lock", "pthread_cond_wait", "pthread_cond_timedwait", "p_mutex_lock",
            "p_cond_variable_wait", "sem_wait", "p_uthread_sleep", "usleep", "nanosleep", "sched_yield"}

# memory orders as evaluated by clang
RELAXED, CONSUME, ACQUIRE, RELEASE, ACQ_REL, SEQ_CST = 0, 1, 2, 3, 4, 5
ACQUIRE_OK = {ACQUIRE, ACQ_REL, SEQ_CST}
RELEASE_OK = {RELEASE, ACQ_REL, SEQ_CST}

CAS_C11 = "__atomic_compare_exchange_n"
CAS_SYNC = "__sync_bool_compare_and_swap"


def is_mutex_t(t):
    return "pthread_mutex" in t["s"] or t["s"] in ("pthread_mutex_t", "union pthread_mutex_t")


def run(prog, rep):
    rep.rule("C01.1", "wrapper wiring: lock/trylock/unlock call the matching native exactly once on the handle of their own "
                      "parameter, return TRUE exactly when it reports success; trylock reaches no blocking callee")
    rep.rule("C01.2", "acquire protocol: CAS FREE->HELD with expected==FREE at every evaluation, order >= ACQUIRE, loop left only on CAS success")
    rep.rule("C01.3", "release protocol: unlock stores FREE with release semantics (release store / __sync_lock_release / store + full barrier)")
    rep.rule("C01.4", "state encoding: value stored by unlock == value expected by lock/trylock != value installed")
    rep.rule("C01.5", "sim model: each spinlock owns a mutex created in its constructor; the field is written nowhere else")

    # ---- C01.1 mutex wrappers ------------------------------------------------
    mu = prog.unit("pmutex-posix.c")
    table = [("p_mutex_lock", "pthread_mutex_lock", ()),
             ("p_mutex_trylock", "pthread_mutex_trylock", BLOCKING),
             ("p_mutex_unlock", "pthread_mutex_unlock", ())]
    for fname, native, forb in table:
        fn = mu.fn(fname)
        check_wrapper(rep, "C01.1", fn, native, handle=handle_is_param_field(is_mutex_t), forbidden=forb)
        # lock/unlock must not be cross-wired either
        others = {"pthread_mutex_lock", "pthread_mutex_trylock", "pthread_mutex_unlock"} - {native}
        bad = [c for (b, i, c) in fn.calls() if c.get("callee") in others]
        rep.ob("C01.1", fn, "wire:only:" + native, not bad,
               "%s calls only %s among the pthread_mutex lock family" % (fname, native) if not bad else
               "%s also calls %s" % (fname, bad[0].get("callee")), bad[0] if bad else fn.loc[0])
    # loop freedom of trylock
    fn = mu.fn("p_mutex_trylock")
    rep.ob("C01.1", fn, "noloop", not fn.loops(), "p_mutex_trylock contains no loop" if not fn.loops() else "p_mutex_trylock loops",
           fn.loc[0])

    # creation: a default (non-recursive, non-robust) mutex.  A recursive mutex lets the owner's second lock / trylock succeed and is
    # not fully released by pthread_cond_wait; a robust one reports EOWNERDEAD for an acquisition that did happen
    for (f, c, bad) in creation_attributes(mu, "pthread_mutex_init", "pthread_mutexattr_",
                                           {"pthread_mutexattr_setpshared": None, "pthread_mutexattr_settype": {0, 2},
                                            "pthread_mutexattr_setprotocol": None, "pthread_mutexattr_setprioceiling": None}):
        rep.ob("C01.1", f, "init:attributes", bad is None, "the native mutex is created with default (non-recursive, non-robust) attributes" if bad is None else
               "line %d: the native mutex is created with %s (%s): lock / trylock results no longer mean what the wrappers report" % (
                   line(bad), bad.get("callee"), show(bad["args"][1]) if len(bad["args"]) > 1 else ""), bad or c)
    # sim spinlock wrappers
    sim = prog.unit("pspinlock-sim.c")
    for fname, native, forb in [("p_spinlock_lock", "p_mutex_lock", ()),
                                ("p_spinlock_trylock", "p_mutex_trylock", BLOCKING),
                                ("p_spinlock_unlock", "p_mutex_unlock", ())]:
        fn = sim.fn(fname)
        check_wrapper(rep, "C01.1", fn, native, handle=handle_is_param_field(None, addr=False),
                      success=("==", 1), failure=("==", 0), forbidden=forb)
        others = {"p_mutex_lock", "p_mutex_trylock", "p_mutex_unlock"} - {native}
        bad = [c for (b, i, c) in fn.calls() if c.get("callee") in others]
        rep.ob("C01.1", fn, "wire:only:" + native, not bad,
               "%s delegates only to %s" % (fname, native) if not bad else "%s also calls %s" % (fname, bad[0].get("callee")),
               bad[0] if bad else fn.loc[0])
    rep.floor("C01.1", 13, "3 mutex + 3 sim-spinlock wrappers + creation")

    # C01.5 sim: mutex field written only in the constructor, from p_mutex_new
    writers = []
    for f in sim.roots():
        for b, i, n in f.nodes():
            if n["k"] == "asg":
                l = strip_casts(n["l"])
                if l is not None and l["k"] == "member" and l["field"] == "mutex":
                    writers.append((f, n))
    okw = len(writers) == 1 and writers[0][0].name == "p_spinlock_new"
    if okw:
        org = [x for x in writers[0][0].origins(writers[0][1]["r"]) if x["k"] != "int"]
        okw = len(org) >= 1 and all(x["k"] == "call" and callee_of(x) == "p_mutex_new" for x in org)
    rep.ob("C01.5", sim.fn("p_spinlock_new"), "field:mutex", okw,
           "PSpinLock_.mutex is assigned once, in p_spinlock_new, from p_mutex_new ()" if okw else
           "PSpinLock_.mutex has %d writer(s): %s" % (len(writers), ", ".join(f.name for f, n in writers)),
           writers[0][1] if writers else sim.fn("p_spinlock_new").loc[0])
    rep.floor("C01.5", 1)

    # ---- C01.2 .. C01.4 hand-written spin protocols -------------------------
    for uname, cas in (("pspinlock-c11.c", CAS_C11), ("pspinlock-sync.c", CAS_SYNC)):
        u = prog.unit(uname)
        enc = {}
        check_lock(rep, u, u.fn("p_spinlock_lock"), cas, enc, is_try=False)
        check_lock(rep, u, u.fn("p_spinlock_trylock"), cas, enc, is_try=True)
        check_unlock(rep, u, u.fn("p_spinlock_unlock"), enc)
        # C01.4
        fn = u.fn("p_spinlock_unlock")
        exp = {enc.get("lock_expected"), enc.get("try_expected")}
        ins = {enc.get("lock_desired"), enc.get("try_desired")}
        st = enc.get("unlock_stored")
        ok = len(exp) == 1 and len(ins) == 1 and None not in exp and None not in ins and st is not None \
            and exp == {st} and ins.isdisjoint(exp)
        rep.ob("C01.4", fn, "encoding", ok,
               "FREE=%s (expected by lock and trylock, stored by unlock), HELD=%s" % (st, sorted(ins)) if ok else
               "encodings disagree: lock expects %s/installs %s, trylock expects %s/installs %s, unlock stores %s" %
               (enc.get("lock_expected"), enc.get("lock_desired"), enc.get("try_expected"), enc.get("try_desired"), st),
               fn.loc[0])
    rep.floor("C01.2", 8, "lock + trylock in c11 and sync models")
    rep.floor("C01.3", 2, "unlock in c11 and sync models")
    rep.floor("C01.4", 2)


def spin_ptr_ok(arg, fn):
    a = strip_casts(arg)
    if a is not None and a["k"] == "ref" and a.get("decl") == "local":
        # a pointer temporary: `volatile pint *p = &spinlock->spin;` with that single definition
        defs = []
        for b, i, n in fn.nodes():
            if n["k"] == "decl" and n["name"] == a["name"] and n.get("init") is not None:
                defs.append(n["init"])
            elif n["k"] == "asg" and strip_casts(n["l"]) is not None and strip_casts(n["l"])["k"] == "ref" and strip_casts(n["l"])["name"] == a["name"]:
                defs.append(n["r"])
        if len(defs) == 1:
            a = strip_casts(defs[0])
    if a is None or not (a["k"] == "un" and a["op"] == "&"):
        return False
    m = strip_casts(a["e"])
    if m is None or m["k"] != "member":
        return False
    params = fn.param_names()
    return bool(params) and root_var(m) == params[0]


def check_lock(rep, u, fn, cas, enc, is_try):
    rule = "C01.2"
    tag = "try" if is_try else "lock"
    cas_sites = [(b, i, c) for (b, i, c) in fn.calls() if callee_of(c) == cas]
    other_cas = [(b, i, c) for (b, i, c) in fn.calls()
                 if callee_of(c) in (CAS_C11, CAS_SYNC, "__sync_val_compare_and_swap", "__sync_lock_test_and_set",
                                     "__atomic_exchange_n", "__atomic_test_and_set") and callee_of(c) != cas]
    if len(cas_sites) != 1 or other_cas:
        rep.ob(rule, fn, "cas:count", False, "%s has %d compare-and-swap site(s) of the model's kind and %d other acquire primitive(s); exactly one expected"
               % (fn.name, len(cas_sites), len(other_cas)), fn.loc[0])
        return
    b0, i0, c = cas_sites[0]
    args = c["args"]
    rep.ob(rule, fn, "cas:ptr", spin_ptr_ok(args[0], fn),
           "CAS operates on %s" % show(args[0]), c)
    # expected / desired values; expected must be FREE at *every* evaluation
    expected_vals = set()
    if cas == CAS_C11:
        named = c.get("named", {})
        desired = cv(args[named.get("val2", 2)])
        weak = cv(args[named.get("weak", 3)])
        order = cv(args[named.get("order", 4)])
        exp_arg = strip_casts(args[named.get("val1", 1)])
        exp_var = None
        if exp_arg is not None and exp_arg["k"] == "un" and exp_arg["op"] == "&":
            t = strip_casts(exp_arg["e"])
            if t is not None and t["k"] == "ref":
                exp_var = t["name"]
        if exp_var is None:
            rep.ob(rule, fn, "cas:expected", False, "cannot identify the expected-value temporary of the CAS", c)
            return
        rep.ob(rule, fn, "cas:order", order in ACQUIRE_OK,
               "CAS success order is %s (%s ACQUIRE)" % (order, ">=" if order in ACQUIRE_OK else "weaker than"), c)
        in_loop = fn.in_loop(b0.id)
        rep.ob(rule, fn, "cas:strong", (weak == 0) or in_loop,
               "CAS is %s%s" % ("strong" if weak == 0 else "weak", "" if weak == 0 else (" inside a retry loop" if in_loop else " and not retried: may fail spuriously on a free lock")), c)
    else:
        desired = cv(args[2])
        expected_vals.add(cv(args[1]))
        exp_var = None

    # path-sensitive pass: value of expected at each CAS evaluation; loop exits; returns
    problems = []
    ret_problems = []
    ck = guards.key(c)

    def on_stmt(st, b, i, stmt):
        facts, n = st
        hit = any(x is c for x in calls(stmt))
        if hit and exp_var is not None:
            v = guards.lookup(facts, exp_var)
            expected_vals.add(v)
            if v is None:
                problems.append(("expected temporary %s is not provably FREE at this evaluation of the CAS "
                                 "(after a failed strong CAS it holds the observed value)" % exp_var, line(stmt),
                                 flow.witness_lines(*flow.cur)))
        facts = guards.transfer(facts, stmt)
        n2 = min(n + (1 if hit else 0), 2)
        if stmt["k"] == "ret":
            rv = guards.eval_const(stmt.get("e"), facts) if stmt.get("e") is not None else None
            if n2 == 0:
                if rv != 0:
                    ret_problems.append(("returns %s without attempting the CAS" % show(stmt.get("e")), line(stmt)))
            elif not is_try:
                succ = guards.known_nonzero(c, facts)
                if not succ or rv != 1:
                    ret_problems.append(("returns %s on a path where the CAS is not known to have succeeded" % show(stmt.get("e")), line(stmt)))
        return [(facts, n2)]

    def on_edge(st, b, to, on):
        facts, n = st
        f2 = guards.edge_assume(facts, b, on)
        if f2 is None:
            return None
        return (f2, n)

    flow = Flow(fn, [(guards.EMPTY, 0)], on_stmt, on_edge)
    flow.run()
    for (msg, ln, path) in problems:
        rep.ob(rule, fn, "cas:expected", False, msg, ln, path)
    ev = {v for v in expected_vals}
    if not problems:
        ok = len(ev) == 1 and None not in ev
        rep.ob(rule, fn, "cas:expected", ok, "expected value is %s at every evaluation of the CAS" % sorted(ev, key=str) if ok
               else "expected value of the CAS is not a single constant: %s" % sorted(ev, key=str), c)
    rep.ob(rule, fn, "cas:desired", desired is not None and desired not in ev,
           "CAS installs %s (differs from expected %s)" % (desired, sorted(ev, key=str)), c)
    enc[tag + "_expected"] = next(iter(ev)) if len(ev) == 1 else None
    enc[tag + "_desired"] = desired

    if is_try:
        rep.ob(rule, fn, "try:noloop", not fn.loops(), "trylock contains no loop" if not fn.loops() else "trylock loops", fn.loc[0])
        bad = [x for (b, i, x) in fn.calls() if callee_of(x) in BLOCKING]
        rep.ob(rule, fn, "try:noblock", not bad, "trylock reaches no blocking callee" if not bad else
               "trylock calls %s" % bad[0].get("callee"), bad[0] if bad else fn.loc[0])
        check_wrapper(rep, rule, fn, cas, success=("==", 1), failure=("==", 0), site="try:result")
    else:
        # every edge leaving the spin loop must carry "CAS succeeded"
        loops = [body for (h, body) in fn.loops() if b0.id in body]
        if not loops:
            rep.ob(rule, fn, "lock:loop", False, "the CAS in p_spinlock_lock is not retried in a loop", c)
        else:
            body = set().union(*loops)
            bad_exit = []
            for bid in body:
                blk = fn.blocks[bid]
                for st in flow.out.get(bid, {}).values():
                    for s in st:
                        for (to, on) in blk.succs:
                            if to in body:
                                continue
                            s2 = on_edge(s, blk, to, on)
                            if s2 is None:
                                continue
                            if not guards.known_nonzero(c, s2[0]) and s2[1] > 0:
                                bad_exit.append((blk, to, on))
                            if s2[1] == 0:
                                bad_exit.append((blk, to, on))
            rep.ob(rule, fn, "lock:loop", not bad_exit,
                   "the spin loop is left only on the branch where the CAS reported success" if not bad_exit else
                   "the spin loop can be left on edge '%s' of block at line %d without a successful CAS" %
                   (bad_exit[0][2], bad_exit[0][0].line()), bad_exit[0][0].line() if bad_exit else c)
        for (msg, ln) in ret_problems:
            rep.ob(rule, fn, "lock:result", False, msg, ln)
        if not ret_problems:
            rep.ob(rule, fn, "lock:result", True, "returns TRUE only after a successful CAS, FALSE only on argument validation", fn.loc[0])


def check_unlock(rep, u, fn, enc):
    rule = "C01.3"
    stores = []
    barriers = []
    for b, i, s in fn.stmts():
        for n in walk(s):
            if n["k"] == "call":
                cn = callee_of(n)
                if cn in ("__atomic_store_n", "__atomic_store", "__atomic_exchange_n"):
                    stores.append(("atomic", b, i, n))
                elif cn == "__sync_lock_release":
                    stores.append(("lockrelease", b, i, n))
                elif cn == "__sync_synchronize" or (cn == "__atomic_thread_fence" and cv(n["args"][0]) in (ACQ_REL, SEQ_CST)):
                    barriers.append((b, i, n))
            elif n["k"] == "asg":
                l = strip_casts(n["l"])
                if l is not None and l["k"] == "un" and l.get("op") == "*":
                    # `volatile pint *spin = &spinlock->spin; *spin = 0;`
                    t_ = fn.resolve(l["e"])
                    if t_ is not None and t_["k"] == "un" and t_.get("op") == "&":
                        l = strip_casts(t_["e"])
                if l is not None and l["k"] == "member" and root_var(l) == (fn.param_names() or [None])[0]:
                    stores.append(("plain", b, i, n))
    if len(stores) != 1:
        rep.ob(rule, fn, "release", False, "p_spinlock_unlock has %d stores to the lock word; exactly one expected" % len(stores), fn.loc[0])
        return
    kind, b, i, n = stores[0]
    # the store must be on every non-validation path: it dominates every `return TRUE`
    for rb, ri, rs in fn.returns():
        v = cv(rs.get("e")) if rs.get("e") is not None else None
        if v == 1 and not fn.pos_dominates((b.id, i), (rb.id, ri)):
            rep.ob(rule, fn, "release:path", False, "a path returns TRUE without the releasing store", rs)
    if kind == "atomic":
        args = n["args"]
        val = cv(args[1])
        order = cv(args[2]) if len(args) > 2 else None
        okp = spin_ptr_ok(args[0], fn)
        ok = okp and order in RELEASE_OK
        rep.ob(rule, fn, "release", ok,
               "%s (%s, %s, order %s)%s" % (n.get("callee"), show(args[0]), val, order,
                                            "" if ok else " — order weaker than RELEASE" if okp else " — wrong object"), n)
        enc["unlock_stored"] = val
    elif kind == "lockrelease":
        ok = spin_ptr_ok(n["args"][0], fn)
        rep.ob(rule, fn, "release", ok, "__sync_lock_release (%s)" % show(n["args"][0]), n)
        enc["unlock_stored"] = 0
    else:
        val = cv(n["r"])
        lt = u.type_of(strip_casts(n["l"]))
        vol = bool(lt and lt.get("vol"))
        # a full barrier in the same function on every path through the store
        # (the library function call boundary orders the caller's writes; see DESIGN section 9)
        bar_ok = False
        for (bb, bi, bn) in barriers:
            if fn.pos_dominates((bb.id, bi), (b.id, i)):
                bar_ok = True
            if bb.id == b.id and bi > i:
                bar_ok = True
            elif bb.id != b.id and fn.postdominates(bb.id, b.id):
                bar_ok = True
        ok = bar_ok and vol and n["op"] == "="
        rep.ob(rule, fn, "release", ok,
               "volatile store %s = %s with a full barrier on every path through it" % (show(n["l"]), val) if ok else
               "plain store %s %s %s %s" % (show(n["l"]), n["op"], show(n["r"]),
                                            "is not volatile" if not vol else "has no full barrier (__sync_synchronize) on every path"), n)
        enc["unlock_stored"] = val


# objects are zero-filled at birth: the functions of these units rely on it for every field their constructors do not store
_run_clauses = run


def run(prog, rep):
    _run_clauses(prog, rep)
    from plint.wiring import check_zero_init
    from plint.wiring import destroy_before_free
    _ff = prog.unit("pmutex-posix.c").fn("p_mutex_free")
    _db = destroy_before_free(_ff, "pthread_mutex_destroy")
    rep.ob("C01.1", _ff, "free:destroy", not _db, "p_mutex_free destroys the native object (pthread_mutex_destroy) before it releases the memory, on every path" if not _db else
           "line %d: %s: the native mutex is never destroyed" % _db[0], _db[0][0] if _db else _ff.loc[0])
    check_zero_init(rep, "C01.4", prog, ['pmutex-posix.c', 'pspinlock-c11.c', 'pspinlock-sync.c', 'pspinlock-sim.c'], 1)

# generic robustness battery: renaming every local/parameter in these files must not change any verdict
RENAME_LOCALS = ['src/pmutex-posix.c', 'src/pspinlock-c11.c', 'src/pspinlock-sync.c', 'src/pspinlock-sim.c']

SELFTEST = [
    dict(id="mutex-created-recursive", file="src/pmutex-posix.c", expect="C01.1",
         old="\tif (P_UNLIKELY (pthread_mutex_init (&ret->hdl, NULL) != 0)) {",
         new="\tpthread_mutexattr_t attr;\n\tpthread_mutexattr_init (&attr);\n\tpthread_mutexattr_settype (&attr, PTHREAD_MUTEX_RECURSIVE);\n\tif (P_UNLIKELY (pthread_mutex_init (&ret->hdl, &attr) != 0)) {"),
    dict(id="mutex-created-errorcheck-neutral", file="src/pmutex-posix.c", expect=None,
         old="\tif (P_UNLIKELY (pthread_mutex_init (&ret->hdl, NULL) != 0)) {",
         new="\tpthread_mutexattr_t attr;\n\tpthread_mutexattr_init (&attr);\n\tpthread_mutexattr_settype (&attr, PTHREAD_MUTEX_ERRORCHECK);\n\tif (P_UNLIKELY (pthread_mutex_init (&ret->hdl, &attr) != 0)) {"),
    dict(id="c11-drop-reset", file="src/pspinlock-c11.c", expect="C01.2",
         old="\tdo {\n\t\ttmp_int = 0;\n\t} while (", new="\ttmp_int = 0;\n\tdo {\n\t} while ("),
    dict(id="c11-desired-0", file="src/pspinlock-c11.c", expect="C01.2", count=1,
         old="&tmp_int,\n\t\t\t\t\t\t\t 1,\n", new="&tmp_int,\n\t\t\t\t\t\t\t 0,\n"),
    dict(id="c11-loop-inverted", file="src/pspinlock-c11.c", expect="C01.2",
         old="__ATOMIC_RELAXED) == FALSE);", new="__ATOMIC_RELAXED) == TRUE);"),
    dict(id="c11-acquire-relaxed", file="src/pspinlock-c11.c", expect="C01.2",
         old="\t\t\t\t\t\t\t 0,\n\t\t\t\t\t\t\t __ATOMIC_ACQUIRE,", new="\t\t\t\t\t\t\t 0,\n\t\t\t\t\t\t\t __ATOMIC_RELAXED,"),
    dict(id="c11-try-weak", file="src/pspinlock-c11.c", expect="C01.2",
         old="\t\t\t\t\t\t       1,\n\t\t\t\t\t\t       0,\n", new="\t\t\t\t\t\t       1,\n\t\t\t\t\t\t       1,\n"),
    dict(id="c11-release-relaxed", file="src/pspinlock-c11.c", expect="C01.3",
         old="0, __ATOMIC_RELEASE);", new="0, __ATOMIC_RELAXED);"),
    dict(id="c11-release-seqcst-neutral", file="src/pspinlock-c11.c", expect=None,
         old="0, __ATOMIC_RELEASE);", new="0, __ATOMIC_SEQ_CST);"),
    dict(id="c11-unlock-stores-1", file="src/pspinlock-c11.c", expect="C01.4",
         old="0, __ATOMIC_RELEASE);", new="1, __ATOMIC_RELEASE);"),
    dict(id="c11-for-form-neutral", expect=None, edits=[
        dict(file="src/pspinlock-c11.c", old="\tdo {\n\t\ttmp_int = 0;\n\t} while (", new="\tfor (;;) {\n\t\ttmp_int = 0;\n\t\tif (!("),
        dict(file="src/pspinlock-c11.c", old="__ATOMIC_RELAXED) == FALSE);", new="__ATOMIC_RELAXED) == FALSE)) break;\n\t}")]),
    dict(id="sync-drop-barrier", file="src/pspinlock-sync.c", expect="C01.3",
         old="\tspinlock->spin = 0;\n\t__sync_synchronize ();\n", new="\tspinlock->spin = 0;\n"),
    dict(id="sync-lock-release-neutral", file="src/pspinlock-sync.c", expect=None,
         old="\tspinlock->spin = 0;\n\t__sync_synchronize ();\n", new="\t__sync_lock_release (&(spinlock->spin));\n"),
    dict(id="sync-barrier-first-neutral", file="src/pspinlock-sync.c", expect=None,
         old="\tspinlock->spin = 0;\n\t__sync_synchronize ();\n", new="\t__sync_synchronize ();\n\tspinlock->spin = 0;\n"),
    dict(id="sync-cas-swapped", file="src/pspinlock-sync.c", expect="C01.4", count=2,
         old="(&(spinlock->spin), 0, 1)", new="(&(spinlock->spin), 1, 0)"),
    dict(id="sync-lock-if", file="src/pspinlock-sync.c", expect="C01.2",
         old="\twhile ((pboolean) __sync_bool_compare_and_swap (&(spinlock->spin), 0, 1) == FALSE)\n\t\t;",
         new="\tif ((pboolean) __sync_bool_compare_and_swap (&(spinlock->spin), 0, 1) == FALSE)\n\t\treturn TRUE;"),
    dict(id="mutex-trylock-blocks", file="src/pmutex-posix.c", expect="C01.1",
         old="return (pthread_mutex_trylock (&mutex->hdl) == 0) ? TRUE : FALSE;",
         new="return (pthread_mutex_lock (&mutex->hdl) == 0) ? TRUE : FALSE;"),
    dict(id="mutex-trylock-inverted", file="src/pmutex-posix.c", expect="C01.1",
         old="return (pthread_mutex_trylock (&mutex->hdl) == 0) ? TRUE : FALSE;",
         new="return (pthread_mutex_trylock (&mutex->hdl) != 0) ? TRUE : FALSE;"),
    dict(id="mutex-unlock-always-true", file="src/pmutex-posix.c", expect="C01.1",
         old="\t\tP_ERROR (\"PMutex::p_mutex_unlock: pthread_mutex_unlock() failed\");\n\t\treturn FALSE;",
         new="\t\tP_ERROR (\"PMutex::p_mutex_unlock: pthread_mutex_unlock() failed\");\n\t\treturn TRUE;"),
    dict(id="mutex-trylock-ifelse-neutral", file="src/pmutex-posix.c", expect=None,
         old="return (pthread_mutex_trylock (&mutex->hdl) == 0) ? TRUE : FALSE;",
         new="{ int rc = pthread_mutex_trylock (&mutex->hdl); if (rc != 0) return FALSE; return TRUE; }"),
    dict(id="mutex-lock-not-neutral", file="src/pmutex-posix.c", expect=None,
         old="if (P_LIKELY (pthread_mutex_lock (&mutex->hdl) == 0))", new="if (!pthread_mutex_lock (&mutex->hdl))"),
    dict(id="sim-try-uses-lock", file="src/pspinlock-sim.c", expect="C01.1",
         old="return p_mutex_trylock (spinlock->mutex);", new="return p_mutex_lock (spinlock->mutex);"),
    dict(id="sim-unlock-negated", file="src/pspinlock-sim.c", expect="C01.1",
         old="return p_mutex_unlock (spinlock->mutex);", new="return !p_mutex_unlock (spinlock->mutex);"),
]
