"""C03 Condition variable: wiring and the PMutex layout the cast relies on."""
from plint.ir import strip_casts, root_var, show, line
from plint.wiring import check_wrapper, handle_is_param_field, callee_of

COND_FAMILY = {"pthread_cond_wait", "pthread_cond_timedwait", "pthread_cond_signal", "pthread_cond_broadcast"}


def is_cond_t(t):
    return "pthread_cond" in t["s"]


def run(prog, rep):
    rep.rule("C03.1", "wiring: wait -> pthread_cond_wait(&cond->hdl, native mutex of the mutex parameter), signal -> pthread_cond_signal, "
                      "broadcast -> pthread_cond_broadcast; TRUE exactly when the native returns 0; no cross-wiring")
    rep.rule("C03.2", "layout: the mutex argument handed to pthread_cond_wait is the pthread_mutex_t at offset 0 of struct PMutex_ "
                      "(or the address of that field)")
    cu = prog.unit("pcondvariable-posix.c")
    mu = prog.unit("pmutex-posix.c")
    for fname, native in (("p_cond_variable_wait", "pthread_cond_wait"),
                          ("p_cond_variable_signal", "pthread_cond_signal"),
                          ("p_cond_variable_broadcast", "pthread_cond_broadcast")):
        fn = cu.fn(fname)
        check_wrapper(rep, "C03.1", fn, native, handle=handle_is_param_field(is_cond_t))
        others = COND_FAMILY - {native}
        bad = [c for (b, i, c) in fn.calls() if c.get("callee") in others]
        rep.ob("C03.1", fn, "wire:only:" + native, not bad,
               "%s calls only %s of the pthread_cond family" % (fname, native) if not bad else
               "%s calls %s" % (fname, bad[0].get("callee")), bad[0] if bad else fn.loc[0])
        if native != "pthread_cond_wait":
            loops = fn.loops()
            rep.ob("C03.1", fn, "noloop", not loops, "no loop" if not loops else "%s loops" % fname, fn.loc[0])
    rep.floor("C03.1", 9)

    # C03.2: the second argument of pthread_cond_wait
    fn = cu.fn("p_cond_variable_wait")
    waits = [c for (b, i, c) in fn.calls() if c.get("callee") == "pthread_cond_wait"]
    params = fn.param_names()
    for c in waits:
        arg = c["args"][1]
        a = fn.resolve(arg)
        rec = mu.records.get("PMutex_")
        if rec is None:
            rep.ob("C03.2", fn, "layout", False, "struct PMutex_ not found in pmutex-posix.c", c)
            continue
        if a is not None and a["k"] == "ref" and len(params) > 1 and a["name"] == params[1]:
            f0 = rec.fields[0] if rec.fields else None
            ok = f0 is not None and f0["off"] == 0 and "pthread_mutex" in mu.types[f0["t"]]["s"]
            rep.ob("C03.2", fn, "layout", ok,
                   "the PMutex pointer is cast to pthread_mutex_t*: struct PMutex_ starts with field %s of type %s at offset 0" %
                   (f0["name"], f0["ts"]) if ok else
                   "the PMutex pointer is cast to pthread_mutex_t* but struct PMutex_ starts with field %s (%s)" %
                   (f0 and f0["name"], f0 and f0["ts"]), c)
        elif a is not None and a["k"] == "un" and a["op"] == "&" and strip_casts(a["e"])["k"] == "member" \
                and len(params) > 1 and root_var(a) == params[1]:
            m = strip_casts(a["e"])
            fld = rec.field(m["field"])
            ok = fld is not None and "pthread_mutex" in mu.types[fld["t"]]["s"]
            rep.ob("C03.2", fn, "layout", ok, "passes &%s->%s (%s)" % (params[1], m["field"], fld and fld["ts"]), c)
        else:
            rep.ob("C03.2", fn, "layout", False,
                   "the mutex argument of pthread_cond_wait is %s, not derived from parameter %s" % (show(arg), params[1] if len(params) > 1 else "?"), c)
    rep.floor("C03.2", 1)

    # C03.3: pthread_cond_wait releases and re-acquires the *native* mutex behind the PMutex API's back, so the native mutex must be
    # the only lock state a PMutex has: no lock / trylock / unlock function may maintain another field of struct PMutex_
    rep.rule("C03.3", "sole state: the lock, trylock and unlock functions of pmutex-posix.c read no state of struct PMutex_ besides the native mutex "
                      "(a condition wait would leave such state stale: it unlocks and relocks the native mutex directly)")
    rec = mu.records.get("PMutex_")
    native = rec.fields[0]["name"] if rec is not None and rec.fields else None
    LOCKFAM = {"pthread_mutex_lock", "pthread_mutex_trylock", "pthread_mutex_unlock"}
    n3 = 0
    for f_ in mu.roots():
        if not any(c.get("callee") in LOCKFAM for (b, i, c) in f_.calls()):
            continue
        n3 += 1
        # a member that is only ever stored (or counted) at statement level decides nothing; one that is read does
        wonly = set()
        for (b, i, s_) in f_.stmts():
            t_ = None
            if s_["k"] == "asg":
                t_ = strip_casts(s_["l"])
            elif s_["k"] == "un" and ("++" in s_.get("op", "") or "--" in s_.get("op", "")):
                t_ = strip_casts(s_["e"])
            if t_ is not None and t_["k"] == "member":
                wonly.add(id(t_))
        extra = [n for (b, i, n) in f_.nodes(elsewhere=True)
                 if n["k"] == "member" and n.get("rec") == "PMutex_" and n["field"] != native and id(n) not in wonly]
        rep.ob("C03.3", f_, "sole-state", not extra,
               "%s reads no field of struct PMutex_ but the native mutex" % f_.name if not extra else
               "line %d: %s keeps lock state in PMutex_.%s: p_cond_variable_wait unlocks and relocks the native mutex directly, so after a wait this field no longer "
               "matches the mutex (a later p_mutex_trylock decides on stale state)" % (line(extra[0]), f_.name, extra[0]["field"]), extra[0] if extra else f_.loc[0])
    rep.floor("C03.3", 3)


# objects are zero-filled at birth: the functions of these units rely on it for every field their constructors do not store
_run_clauses = run


def run(prog, rep):
    _run_clauses(prog, rep)
    from plint.wiring import check_zero_init
    from plint.wiring import destroy_before_free
    _ff = prog.unit("pcondvariable-posix.c").fn("p_cond_variable_free")
    _db = destroy_before_free(_ff, "pthread_cond_destroy")
    rep.ob("C03.1", _ff, "free:destroy", not _db, "p_cond_variable_free destroys the native object (pthread_cond_destroy) before it releases the memory, on every path" if not _db else
           "line %d: %s: waiters that the last broadcast woke are still inside pthread_cond_wait on that memory: once the block is reused they see no signal and sleep again - the broadcast did not wake everyone" % _db[0], _db[0][0] if _db else _ff.loc[0])
    check_zero_init(rep, "C03.1", prog, ['pcondvariable-posix.c'], 1)

# generic robustness battery: renaming every local/parameter in these files must not change any verdict
RENAME_LOCALS = ['src/pcondvariable-posix.c']

SELFTEST = [
    dict(id="cond-free-without-destroy", file="src/pcondvariable-posix.c", expect="C03.1",
         old="\tif (P_UNLIKELY (pthread_cond_destroy (&cond->hdl) != 0))\n\t\tP_WARNING (\"PCondVariable::p_cond_variable_free: pthread_cond_destroy() failed\");\n\n", new=""),
    dict(id="broadcast-to-signal", file="src/pcondvariable-posix.c", expect="C03.1",
         old="if (P_UNLIKELY (pthread_cond_broadcast (&cond->hdl) != 0)) {", new="if (P_UNLIKELY (pthread_cond_signal (&cond->hdl) != 0)) {"),
    dict(id="signal-result-dropped", file="src/pcondvariable-posix.c", expect="C03.1",
         old="\t\tP_ERROR (\"PCondVariable::p_cond_variable_signal: pthread_cond_signal() failed\");\n\t\treturn FALSE;",
         new="\t\tP_ERROR (\"PCondVariable::p_cond_variable_signal: pthread_cond_signal() failed\");\n\t\treturn TRUE;"),
    dict(id="mutex-field-in-front", file="src/pmutex-posix.c", expect="C03.2",
         old="struct PMutex_ {\n\tmutex_hdl\thdl;\n};", new="struct PMutex_ {\n\tpint\t\towner;\n\tmutex_hdl\thdl;\n};"),
    dict(id="mutex-field-after-neutral", file="src/pmutex-posix.c", expect=None,
         old="struct PMutex_ {\n\tmutex_hdl\thdl;\n};", new="struct PMutex_ {\n\tmutex_hdl\thdl;\n\tpint\t\towner;\n};"),
    dict(id="mutex-locked-hint", file="src/pmutex-posix.c", expect="C03.3",
         edits=[dict(file="src/pmutex-posix.c", old="struct PMutex_ {\n\tmutex_hdl\thdl;\n};", new="struct PMutex_ {\n\tmutex_hdl\thdl;\n\tvolatile pint\tlocked;\n};"),
                dict(file="src/pmutex-posix.c", old="\tif (P_LIKELY (pthread_mutex_lock (&mutex->hdl) == 0))\n\t\treturn TRUE;", new="\tif (P_LIKELY (pthread_mutex_lock (&mutex->hdl) == 0)) {\n\t\tmutex->locked = 1;\n\t\treturn TRUE;\n\t}"),
                dict(file="src/pmutex-posix.c", old="\treturn (pthread_mutex_trylock (&mutex->hdl) == 0) ? TRUE : FALSE;", new="\tif (mutex->locked)\n\t\treturn FALSE;\n\treturn (pthread_mutex_trylock (&mutex->hdl) == 0) ? TRUE : FALSE;")]),
    dict(id="mutex-lock-counter-neutral", file="src/pmutex-posix.c", expect=None,
         edits=[dict(file="src/pmutex-posix.c", old="struct PMutex_ {\n\tmutex_hdl\thdl;\n};", new="struct PMutex_ {\n\tmutex_hdl\thdl;\n\tpuint\t\tnlocks;\n};"),
                dict(file="src/pmutex-posix.c", old="\tif (P_LIKELY (pthread_mutex_lock (&mutex->hdl) == 0))\n\t\treturn TRUE;", new="\tif (P_LIKELY (pthread_mutex_lock (&mutex->hdl) == 0)) {\n\t\tmutex->nlocks++;\n\t\treturn TRUE;\n\t}")]),
    dict(id="wait-wrong-mutex", file="src/pcondvariable-posix.c", expect="C03.2",
         old="(pthread_mutex_t *) mutex) != 0", new="(pthread_mutex_t *) cond) != 0"),
    dict(id="wait-not-form-neutral", file="src/pcondvariable-posix.c", expect=None,
         old="if (P_UNLIKELY (pthread_cond_wait (&cond->hdl, (pthread_mutex_t *) mutex) != 0)) {",
         new="int rc = pthread_cond_wait (&cond->hdl, (pthread_mutex_t *) mutex);\n\tif (rc) {"),
]
