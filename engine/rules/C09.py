"""C09 Sockets deliver data intact despite retries: structural clauses."""
from plint import guards
from plint.flow import Flow
from plint.ir import calls, strip_casts, cv, line, show, root_var, walk, ap
from plint.retry import SPEC, check_retry, run_scenario, EINTR
from plint.units import AnalysisBroken
from plint.wiring import wrapper_paths

EAGAIN, EWOULDBLOCK, EINPROGRESS = 11, 11, 115
MSG_NOSIGNAL = 0x4000
SIGPIPE = 13
IO_NATIVES = ("recv", "recvfrom", "send", "sendto", "accept")
WAIT = "p_socket_io_condition_wait"


def store_root(l):
    """The variable a store goes through: `*address`, `address[0]` -> address."""
    l = strip_casts(l)
    while l is not None and l["k"] in ("idx", "un", "cast"):
        l = strip_casts(l["base"] if l["k"] == "idx" else l["e"])
    return l["name"] if l is not None and l["k"] == "ref" else None


def switch_table(fn):
    """Map of argument value -> constant returned by a classifying function of one integer parameter (a switch, an if-chain, part
    of either moved into a static helper called from `default:`): the function is evaluated path by path under `param == v` for
    every value a case label or a comparison names; the default is what an unnamed value (-1) yields."""
    fn = fn.unit.fn(fn.name)          # helpers inlined
    p0 = fn.param_names()[0]
    named = set()
    for b in fn.blocks.values():
        for (to, on) in b.succs:
            if on.startswith("case:"):
                try:
                    named.add(int(on[5:]))
                except ValueError:
                    pass
        for e_ in list(b.stmts) + ([b.cond] if b.cond is not None else []):
            for n in walk(e_, elsewhere=True):
                if n["k"] == "bin" and n["op"] in ("==", "!=") and cv(n["r"]) is not None and root_var(n["l"]) is not None:
                    named.add(cv(n["r"]))

    def result(v):
        got = set()

        def st_(st, b, i, stmt):
            if stmt["k"] == "ret":
                got.add(guards.eval_const(stmt.get("e"), st) if stmt.get("e") is not None else None)
            return [guards.transfer(st, stmt)]
        Flow(fn, [guards.add_fact(guards.EMPTY, p0, "==", v)], st_, lambda st, b, to, on: guards.edge_assume(st, b, on)).run()
        return got.pop() if len(got) == 1 else None
    table = dict((v, result(v)) for v in sorted(named))
    return table, result(-1)


def install_errno_table(prog):
    pe = prog.unit("perror.c")
    fn = pe.fn("p_error_get_io_from_system")
    table, default = switch_table(fn)
    if len(table) < 10:
        raise AnalysisBroken("p_error_get_io_from_system: switch table not recovered (%d cases)" % len(table))

    def f(args):
        return table.get(args[0], default)
    guards.PURE_FUNCS["p_error_get_io_from_system"] = f
    return pe, fn, table, default


def io_sites(u):
    out = []
    for fn in u.roots():
        ord_ = {}
        for b, i, s in fn.stmts():
            for c in calls(s):
                n = c.get("callee")
                if n in SPEC:
                    ord_[n] = ord_.get(n, 0) + 1
                    out.append((fn, b, i, c, "call:%s#%d" % (n, ord_[n])))
    return out


def run(prog, rep):
    rep.rule("C09.1", "retry discipline: every interruptible call site in psocket.c re-issues the call after EINTR; in blocking mode a would-block result "
                      "leads back to the call (through the condition wait) and is never reported")
    rep.rule("C09.2", "byte accounting: the success path returns the system call's result unchanged; buffer and length reach the call unmodified and without a narrowing conversion")
    rep.rule("C09.3", "sender address: receive_from builds *address from the very sockaddr buffer and length object handed to recvfrom, after the loop only")
    rep.rule("C09.4", "no SIGPIPE: every send/sendto passes MSG_NOSIGNAL, or library initialisation ignores SIGPIPE")
    rep.rule("C09.5", "errno table: EAGAIN/EWOULDBLOCK map to WOULD_BLOCK, EINPROGRESS and EALREADY (what a connect re-issued after EINTR reports) to IN_PROGRESS - the codes the retry logic branches on")
    rep.rule("C09.6", "connect completion: connected is set only where connect returned 0 or the writability wait and the SO_ERROR check both succeeded; SO_ERROR == 0 decides")
    u = prog.unit("psocket.c")
    pe, pfn, table, default = install_errno_table(prog)
    WOULD_BLOCK = pe.enum_value("P_ERROR_IO_WOULD_BLOCK")
    IN_PROGRESS = pe.enum_value("P_ERROR_IO_IN_PROGRESS")
    if WOULD_BLOCK is None or IN_PROGRESS is None:
        raise AnalysisBroken("PErrorIO enumerators not found")

    # C09.5
    for (name, val, want, wn) in (("EAGAIN", EAGAIN, WOULD_BLOCK, "P_ERROR_IO_WOULD_BLOCK"),
                                  ("EWOULDBLOCK", EWOULDBLOCK, WOULD_BLOCK, "P_ERROR_IO_WOULD_BLOCK"),
                                  ("EINPROGRESS", EINPROGRESS, IN_PROGRESS, "P_ERROR_IO_IN_PROGRESS"),
                                  # connect() interrupted by a signal goes on in the background; the re-issued call then reports EALREADY, which
                                  # must take the same wait-for-writability-then-SO_ERROR path as EINPROGRESS
                                  ("EALREADY", 114, IN_PROGRESS, "P_ERROR_IO_IN_PROGRESS")):
        got = table.get(val, default)
        rep.ob("C09.5", pfn, "errno:" + name, got == want, "%s (%d) maps to %s" % (name, val, wn) if got == want else
               "%s (%d) maps to %s, expected %s (%d)%s" % (name, val, got, wn, want, ": the connect re-issued after EINTR fails although the connection is still being established"
                                                          if name == "EALREADY" else ""), pfn.loc[0])
    rep.floor("C09.5", 4)

    # C09.1
    sites = io_sites(u)
    for (fn, b, i, c, site) in sites:
        check_retry(rep, "C09.1", fn, b, i, c, site + ":eintr")
        name = c.get("callee")
        if name in IO_NATIVES:
            res = run_scenario(fn, b, i, c, -1, EAGAIN, extra_facts=[("%s->blocking" % fn.param_names()[0], "!=", 0)])
            ok = not res["escapes"] and res["retried"] > 0
            if ok:
                rep.ob("C09.1", fn, site + ":wouldblock", True,
                       "%s would block on a blocking socket: every feasible path waits and re-issues the call" % name, c)
            else:
                e = res["escapes"][0] if res["escapes"] else ("never re-issues the call", line(c), [])
                rep.ob("C09.1", fn, site + ":wouldblock", False,
                       "blocking socket: after %s reports EAGAIN/EWOULDBLOCK a path %s at line %d instead of waiting and re-issuing the call "
                       "(the internal would-block condition is reported to the caller)" % (name, e[0], e[1]), c, e[2])
    # the wait's verdict is obeyed: in the I/O operations a condition wait that returned TRUE is followed by the native call it
    # waited for, one that returned FALSE (timed out, closed, failed) by a failure return without the call - from each wait call,
    # flow under `wait == 1` resp. `wait == 0` until the native call, a return or the next evaluation of the wait
    nwv = 0
    for fn in u.roots():
        if fn.name == WAIT:
            continue
        natives = [c for (b, i, c) in fn.calls() if c.get("callee") in IO_NATIVES or c.get("callee") == "connect"]
        for (wb, wi, wc) in [(b, i, c) for (b, i, c) in fn.calls() if c.get("callee") == WAIT]:
            if not natives:
                continue
            later = [c for c in natives if any(c is c2 for (b2, i2, c2) in fn.calls() if b2.id in fn.reach_from([wb.id]))]
            if not later or fn.name in ("p_socket_connect",):
                continue          # connect waits *after* its native call (completion), judged by C09.6
            wk = guards.key(wc)
            for verdict in (1, 0):
                outcome = []

                def ws(st, b, i, stmt, outcome=outcome):
                    facts, started = st
                    if not started:
                        if any(c is wc for c in calls(stmt)):
                            f2 = guards.add_fact(guards.transfer(facts, stmt), wk, "==", verdict)
                            return [(f2, True)] if f2 is not None else []
                        return [(guards.transfer(facts, stmt), False)]
                    for c in calls(stmt):
                        if c is wc:
                            return []
                        if any(c is n_ for n_ in natives):
                            outcome.append(("native", line(c)))
                            return []
                    if stmt["k"] == "ret":
                        outcome.append(("return", line(stmt)))
                        return []
                    keep = frozenset(f for f in facts if f[0] == wk)
                    return [(frozenset(guards.transfer(facts, stmt) | keep), True)]

                def we(st, b, to, on):
                    f2 = guards.edge_assume(st[0], b, on)
                    return None if f2 is None else (f2, st[1])
                Flow(fn, [(guards.EMPTY, False)], ws, we, max_states=40000).run()
                kinds = set(k for (k, ln_) in outcome)
                want = "native" if verdict == 1 else "return"
                okw = kinds == {want}
                nwv += 1
                rep.ob("C09.1", fn, "wait#%d:verdict=%d" % (line(wc), verdict), okw,
                       ("a wait that succeeded is followed by the native call" if verdict else "a wait that failed is followed by a failure return, not by the native call") if okw else
                       ("line %d: after the condition wait returned %s a path %s: %s" % (
                           [ln_ for (k, ln_) in outcome if k != want][0] if [1 for (k, ln_) in outcome if k != want] else line(wc), "TRUE" if verdict else "FALSE",
                           "returns without issuing the call" if verdict else "goes on to the native call",
                           "a blocking operation fails although its data is ready" if verdict else "a timed-out or refused wait is ignored and the call sleeps in the kernel or fails with a would-block error")
                        if outcome else "nothing is reached after the wait"), wc)
    rep.floor("C09.1", 12 + 8, "7 EINTR sites + 5 would-block sites + wait verdicts")

    # C09.2 byte accounting
    for fname, native, bufi, leni in (("p_socket_receive", "recv", 1, 2),
                                      ("p_socket_receive_from", "recvfrom", 2, 3),
                                      ("p_socket_send", "send", 1, 2),
                                      ("p_socket_send_to", "sendto", 2, 3)):
        fn = u.fn(fname).inlined()
        bufp, lenp = fn.param_names()[bufi], fn.param_names()[leni]
        cs = [c for (b, i, c) in fn.calls() if c.get("callee") == native]
        if len(cs) != 1:
            rep.ob("C09.2", fn, "call:" + native, False, "%d calls of %s" % (len(cs), native), fn.loc[0])
            continue
        c = cs[0]
        # parameters not reassigned
        reass = [n for (b, i, n) in fn.nodes() if n["k"] == "asg" and root_var(n["l"]) in (bufp, lenp) and strip_casts(n["l"])["k"] == "ref"]
        ba = strip_casts(c["args"][1])
        okb = ba is not None and ba["k"] == "ref" and ba["name"] == bufp and not reass
        rep.ob("C09.2", fn, "buffer", okb, "%s receives the caller's buffer unmodified" % native if okb else
               "%s is called with %s, not the unmodified parameter %s" % (native, show(c["args"][1]), bufp), c)
        la = c["args"][2]
        ls = strip_casts(la)
        okl = ls is not None and ls["k"] == "ref" and ls["name"] == lenp and not reass
        rep.ob("C09.2", fn, "length", okl, "%s receives the caller's length" % native if okl else
               "%s is called with length %s" % (native, show(la)), c)
        # narrowing conversion on the way
        narrow = None
        pw = None
        for p in fn.params:
            if p["name"] == lenp:
                pw = fn.unit.types[p["t"]]["w"]
        n = la
        while n is not None and n["k"] == "cast":
            t = fn.unit.type_of(n)
            if t and pw and t["w"] < pw:
                narrow = (n, t)
            n = n["e"]
        rep.ob("C09.2", fn, "length:narrow", narrow is None,
               "the length reaches %s at full width" % native if narrow is None else
               "the %d-bit length %s is converted to %d-bit %s before %s: a buffer of 2^32 bytes or more is silently cut (2^32 becomes 0)"
               % (pw, lenp, narrow[1]["w"], narrow[0].get("ts"), native), c)
        # returned value on success is the call's result unchanged
        results, flow = wrapper_paths(fn, [native])
        okr = True
        msg = ""
        nsucc = 0
        for (facts, k, ret, blk, cur) in results:
            rv = ret.get("e")
            val = guards.eval_const(rv, facts) if rv is not None else None
            if k == 0:
                continue
            failed = guards.contradicts(facts, guards.key(c), ">=", 0)
            if failed:
                if val is None or val >= 0:
                    okr, msg = False, "line %d: returns %s on a path where %s failed" % (line(ret), show(rv), native)
                continue
            # success path: the return expression must be the variable holding the call's result
            rvs = strip_casts(rv)
            alias_ok = False
            if rvs is not None:
                rk = guards.key(rvs)
                for _hop in range(4):          # `sent = send (...); result = sent; return result;`
                    nxt = [fv for (fk, fop, fv) in facts if fop == "=:" and fk == rk]
                    if guards.key(c) in nxt:
                        alias_ok = True
                        break
                    if len(nxt) != 1:
                        break
                    rk = nxt[0]
                if rvs["k"] == "call" and rvs is c:
                    alias_ok = True
            # no narrowing cast on the returned value
            n2 = rv
            while n2 is not None and n2["k"] == "cast":
                t = fn.unit.type_of(n2)
                ti = fn.unit.type_of(n2["e"])
                if t and ti and t["w"] < ti["w"]:
                    alias_ok = False
                n2 = n2["e"]
            nsucc += 1
            if not alias_ok:
                okr, msg = False, "line %d: the success path returns %s, which is not the unmodified result of %s" % (line(ret), show(rv), native)
        rep.ob("C09.2", fn, "result", okr and nsucc > 0, "the success path returns the result of %s unchanged; failure paths return a negative constant" % native
               if okr and nsucc else (msg or "no success path found"), c)
    rep.floor("C09.2", 16)

    # C09.3 sender address
    fn = u.fn("p_socket_receive_from").inlined()
    rc = [c for (b, i, c) in fn.calls() if c.get("callee") == "recvfrom"]
    nc = [(b, i, c) for (b, i, c) in fn.calls() if c.get("callee") == "p_socket_address_new_from_native"]
    if len(rc) == 1 and len(nc) == 1:
        def obj(e):
            # the object an argument designates, looking through a typed pointer local (`sa_ptr = (struct sockaddr *) &sa`)
            e2 = strip_casts(e)
            if e2 is not None and e2["k"] == "complit" and len((e2.get("e") or {}).get("items") or []) == 1:
                e2 = strip_casts(e2["e"]["items"][0])          # glibc's transparent union __SOCKADDR_ARG around the pointer
            if e2 is not None and e2["k"] == "ref" and e2.get("decl") == "local" and (fn.unit.type_of(e2) or {}).get("k") == "ptr":
                r = fn.resolve(e2)
                if r is not None and root_var(r) is not None:
                    return root_var(r)
            return root_var(e)
        sa = obj(rc[0]["args"][4])
        sl = obj(rc[0]["args"][5])
        b, i, c = nc[0]
        a0, a1 = obj(c["args"][0]), root_var(c["args"][1])
        ok = sa is not None and sa == a0 and sl is not None and sl == a1
        # only after the loop (success): the block is not inside the retry loop
        loops = [body for (h, body) in fn.loops()]
        inloop = any(b.id in body for body in loops)
        # the length object must be (re)initialised to the buffer size before the call on every iteration or once before the loop
        rep.ob("C09.3", fn, "address", ok and not inloop,
               "*address is built from (%s, %s), the objects filled in by recvfrom, after the retry loop" % (sa, sl) if ok and not inloop else
               "*address is built from (%s, %s) but recvfrom filled (%s, %s)%s" % (a0, a1, sa, sl, "; inside the retry loop" if inloop else ""), c)
        # every datagram names its sender, an empty one included: no path on which recvfrom succeeded and the caller asked for the
        # address returns without the construction (a zero-length datagram is a datagram: recvfrom == 0 is not "nothing received")
        tgt = None
        for (b2, i2, n) in fn.nodes():
            if n["k"] == "asg" and any(x is c for x in calls(n["r"])):
                tgt = store_root(n["l"])
        skipped = []

        def a_stmt(st, b2, i2, stmt):
            facts, built = st
            if any(x.get("callee") == "p_socket_address_new_from_native" for x in calls(stmt)):
                built = True
            if stmt["k"] == "ret" and not built and tgt is not None:
                rv = guards.eval_const(stmt.get("e"), facts)
                if not (rv is not None and rv < 0) and guards.lookup(facts, tgt) != 0 and guards.known_nonzero({"k": "ref", "name": tgt, "decl": "param"}, facts):
                    skipped.append(line(stmt))
            return [(guards.transfer(facts, stmt), built)]

        def a_edge(st, b2, to, on):
            f2 = guards.edge_assume(st[0], b2, on)
            return None if f2 is None else (f2, st[1])
        if tgt is not None:
            Flow(fn, [(guards.EMPTY, False)], a_stmt, a_edge).run()
        rep.ob("C09.3", fn, "address:every-datagram", tgt is not None and not skipped,
               "every return that is not a failure constant and has %s != NULL comes after the construction" % tgt if tgt is not None and not skipped else
               "line %d: returns a received length with %s != NULL but without building the sender address: the caller's pointer stays unset "
               "(for instance after a zero-length datagram)" % (skipped[0], tgt) if skipped else "the store of the constructed address was not found", c)
    else:
        rep.ob("C09.3", fn, "address", False, "expected one recvfrom and one p_socket_address_new_from_native call", fn.loc[0])
    # every buffer the kernel writes a peer / local address into holds any family the socket can have, and the length object
    # handed along says exactly how large it is (a 16-byte `struct sockaddr` is enough for IPv4 only: an IPv6 address comes back
    # truncated with the full length, and the constructor then reads past the buffer)
    ADDR_CALLS = {"recvfrom": (4, 5), "getsockname": (1, 2), "getpeername": (1, 2), "accept": (1, 2)}
    in6 = u.records.get("sockaddr_in6")
    need = in6.d.get("size") if in6 is not None else None
    if need is None:
        raise AnalysisBroken("struct sockaddr_in6 not visible in psocket.c")
    nab = 0
    for rf in u.roots():
        for (b, i, c) in rf.calls():
            if c.get("callee") not in ADDR_CALLS:
                continue
            ai, li = ADDR_CALLS[c["callee"]]
            a = strip_casts(c["args"][ai])
            if a is None or cv(a) == 0 or cv(c["args"][ai]) == 0 or root_var(a) is None:
                continue            # no address requested
            nab += 1
            if a["k"] == "complit" and (a.get("e") or {}).get("items"):
                a = strip_casts(a["e"]["items"][0])        # glibc's transparent-union argument
            if a is not None and a["k"] == "ref" and a.get("decl") == "local":
                a = rf.resolve(a) or a          # `struct sockaddr *native = (struct sockaddr *) &address;`
            bv = root_var(a)
            decl = [n for (b2, i2, n) in rf.nodes(elsewhere=True) if n["k"] == "decl" and n["name"] == bv]
            bsz = None
            if decl:
                t = u.types[decl[0]["t"]]
                bsz = t.get("w") // 8 if t.get("w") else None
            lv = root_var(c["args"][li])
            lens = [cv(n["r"]) for (b2, i2, n) in rf.nodes(elsewhere=True) if n["k"] == "asg" and strip_casts(n["l"]) is not None and strip_casts(n["l"])["k"] == "ref"
                    and strip_casts(n["l"])["name"] == lv] + [cv(n["init"]) for (b2, i2, n) in rf.nodes(elsewhere=True) if n["k"] == "decl" and n["name"] == lv and n.get("init") is not None]
            okb = bsz is not None and bsz >= need and bool(lens) and all(x is not None and x <= bsz for x in lens) and any(x is not None and x >= need for x in lens)
            rep.ob("C09.3", rf, "addrbuf:%s" % c["callee"], okb,
                   "%s writes the address into %s (%s bytes, length object %s = %s): room for every family" % (c["callee"], bv, bsz, lv, sorted(set(lens))) if okb else
                   "line %d: %s writes the address into %s, which is %s bytes with the length object set to %s; an IPv6 address needs %d: it comes back truncated "
                   "while the reported length says %d, and the address constructor reads past the buffer" % (line(c), c["callee"], bv, bsz, sorted(set(str(x) for x in lens)), need, need), c)
    rep.floor("C09.3", 2 + 4)

    # C09.4 SIGPIPE
    sends = [(f, c) for f in u.functions.values() for (b, i, c) in f.calls() if c.get("callee") in ("send", "sendto")]
    all_flag = all((cv(c["args"][3]) or 0) & MSG_NOSIGNAL for (f, c) in sends)
    init = u.fn("p_socket_init_once").inlined()
    ign = False
    for (b, i, c) in init.calls():
        if c.get("callee") == "signal" and cv(c["args"][0]) == SIGPIPE and cv(c["args"][1]) == 1:
            # unconditional: dominates every TRUE return
            ign = all(init.pos_dominates((b.id, i), (rb.id, ri)) for (rb, ri, rs) in init.returns() if cv(rs.get("e")) == 1)
    # p_socket_init_once must be reached from p_libsys_init
    reach = False
    pm = prog.unit("pmain.c")
    li = pm.fn("p_libsys_init")
    reach = any(c.get("callee") == "p_socket_init_once" for (b, i, c) in li.calls())
    for (f, c) in sends:
        has = bool((cv(c["args"][3]) or 0) & MSG_NOSIGNAL)
        rep.ob("C09.4", f, "sigpipe:" + c.get("callee"), has or (ign and reach),
               "%s %s" % (c.get("callee"), "passes MSG_NOSIGNAL" if has else "passes no MSG_NOSIGNAL, but p_libsys_init -> p_socket_init_once ignores SIGPIPE") if (has or (ign and reach)) else
               "%s passes no MSG_NOSIGNAL and library initialisation does not ignore SIGPIPE: writing to a closed peer raises the signal" % c.get("callee"), c)
    rep.floor("C09.4", 2)

    # C09.6 connect completion
    fn = u.fn("p_socket_connect").inlined()
    conn = [c for (b, i, c) in fn.calls() if c.get("callee") == "connect"]
    stores = []

    def on_stmt(st, b, i, stmt):
        facts = st
        for n in walk(stmt):
            if n["k"] == "asg":
                l = strip_casts(n["l"])
                if l is not None and l["k"] == "member" and l["field"] == "connected" and cv(n["r"]) != 0:
                    stores.append((facts, n, flow.cur))
        return [guards.transfer(facts, stmt)]

    def on_edge(st, b, to, on):
        return guards.edge_assume(st, b, on)

    flow = Flow(fn, [guards.EMPTY], on_stmt, on_edge)
    flow.run()
    okc = bool(stores) and len(conn) == 1
    msg = ""
    for (facts, n, cur) in stores:
        ck = guards.key(conn[0]) if conn else "?"
        direct = guards.lookup(facts, ck) == 0
        waited = False
        checked = False
        for (fk, fop, fv) in facts:
            if fk.startswith(WAIT + "(") and ((fop == "==" and fv == 1) or (fop == "!=" and fv == 0)):
                waited = True
            if fk.startswith("p_socket_check_connect_result(") and ((fop == "==" and fv == 1) or (fop == "!=" and fv == 0)):
                checked = True
        if not (direct or (waited and checked)):
            okc = False
            msg = "line %d: connected is set on a path where connect did not return 0 and the wait + SO_ERROR check did not both succeed" % line(n)
    rep.ob("C09.6", fn, "connected", okc, "connected is set on %d path state(s), each after connect == 0 or wait && check_connect_result" % len(stores) if okc else (msg or "no store of connected found"),
           fn.loc[0])
    # in-progress on a blocking socket waits for writability
    res = None
    for (f2, b, i, c, site) in sites:
        if c.get("callee") == "connect":
            res = run_scenario(f2, b, i, c, -1, EINPROGRESS, extra_facts=[("%s->blocking" % f2.param_names()[0], "!=", 0)], watch=[WAIT, "p_socket_check_connect_result"],
                               excuse_other_calls=False)
    okw = res is not None and WAIT in res["reached"] and "p_socket_check_connect_result" in res["reached"]
    wmsg = "EINPROGRESS on a blocking socket does not lead to the writability wait and the SO_ERROR check"
    # order: SO_ERROR is meaningful only once the socket became writable - every SO_ERROR check inside connect is reached with the
    # wait already known to have succeeded (read earlier, SO_ERROR is still 0 and a later refusal is reported as success)
    early = []

    def on_chk(st, b, i, stmt):
        for c in calls(stmt):
            if c.get("callee") == "p_socket_check_connect_result":
                if not any(fk.startswith(WAIT + "(") and ((fop == "==" and fv == 1) or (fop == "!=" and fv == 0)) for (fk, fop, fv) in st):
                    early.append(line(c))
        return [guards.transfer(st, stmt)]
    Flow(fn, [guards.EMPTY], on_chk, lambda st, b, to, on: guards.edge_assume(st, b, on)).run()
    if okw and early:
        okw, wmsg = False, "line %d: SO_ERROR is read before the writability wait has succeeded: while the attempt is in progress it is still 0, so a connection refused or reset afterwards is reported as established" % early[0]
    rep.ob("C09.6", fn, "inprogress", okw, "EINPROGRESS on a blocking socket: waits for writability, then reads SO_ERROR" if okw else wmsg, early[0] if early else fn.loc[0])
    cr = u.fn("p_socket_check_connect_result").inlined()
    gs = [c for (b, i, c) in cr.calls() if c.get("callee") == "getsockopt"]
    SO_ERROR, SOL_SOCKET = 4, 1
    okg = len(gs) == 1 and cv(gs[0]["args"][1]) == SOL_SOCKET and cv(gs[0]["args"][2]) == SO_ERROR
    valvar = root_var(gs[0]["args"][3]) if gs else None
    results, flow2 = wrapper_paths(cr, ["getsockopt"])
    okv = True
    for (facts, k, ret, blk, cur) in results:
        if k == 0:
            continue
        rv = guards.eval_const(ret.get("e"), facts)
        if guards.lookup(facts, guards.key(gs[0])) is None and not guards.contradicts(facts, guards.key(gs[0]), ">=", 0):
            # getsockopt succeeded: result must be (val == 0)
            f1 = guards.add_fact(facts, valvar, "==", 0)
            f2 = guards.add_fact(facts, valvar, "==", 111)
            v1 = guards.eval_const(ret.get("e"), f1) if f1 is not None else 1
            v2 = guards.eval_const(ret.get("e"), f2) if f2 is not None else 0
            if v1 != 1 or v2 != 0:
                okv = False
    rep.ob("C09.6", cr, "so_error", okg and okv and valvar is not None,
           "reads SO_ERROR and returns TRUE exactly when it is 0" if (okg and okv) else "check_connect_result does not return (SO_ERROR == 0)", cr.loc[0])
    rep.floor("C09.6", 3)


# generic robustness battery: renaming every local/parameter in these files must not change any verdict
RENAME_LOCALS = ['src/psocket.c']

SELFTEST = [
    dict(id="receive-from-wait-polarity", file="src/psocket.c", expect="C09.1",
         old="\t\t\t\t\t\tP_SOCKET_IO_CONDITION_POLLIN,\n\t\t\t\t\t\terror) == FALSE)\n\t\t\treturn -1;\n\n\t\tif ((ret = recvfrom",
         new="\t\t\t\t\t\tP_SOCKET_IO_CONDITION_POLLIN,\n\t\t\t\t\t\terror) == TRUE)\n\t\t\treturn -1;\n\n\t\tif ((ret = recvfrom"),
    dict(id="accept-wouldblock-dropped", file="src/psocket.c", expect="C09.1",
         old="\t\t\tsock_err = p_error_get_io_from_system (err_code);\n\n\t\t\tif (socket->blocking && sock_err == P_ERROR_IO_WOULD_BLOCK)\n\t\t\t\tcontinue;\n\n\t\t\tp_error_set_error_p (error,\n\t\t\t\t\t     (pint) sock_err,\n\t\t\t\t\t     err_code,\n\t\t\t\t\t     \"Failed to call accept() on socket\");",
         new="\t\t\tsock_err = p_error_get_io_from_system (err_code);\n\n\t\t\tp_error_set_error_p (error,\n\t\t\t\t\t     (pint) sock_err,\n\t\t\t\t\t     err_code,\n\t\t\t\t\t     \"Failed to call accept() on socket\");"),
    dict(id="ealready-maps-connected", file="src/perror.c", expect="C09.5", count=1,
         old="\tcase EALREADY:\n\t\treturn P_ERROR_IO_IN_PROGRESS;", new="\tcase EALREADY:\n\t\treturn P_ERROR_IO_CONNECTED;"),
    dict(id="eagain-maps-failed", file="src/perror.c", expect="C09.5", count=1,
         old="\t/* We have both and they are the same: only emit one case. */\n\tcase EAGAIN:\n\t\treturn P_ERROR_IO_WOULD_BLOCK;",
         new="\t/* We have both and they are the same: only emit one case. */\n\tcase EAGAIN:\n\t\treturn P_ERROR_IO_FAILED;"),
    dict(id="buflen-narrowed-again", file="src/psocket.c", expect="C09.2",
         old="#  define P_SOCKET_BUFLEN_CAST(len)\t((size_t) (len))", new="#  define P_SOCKET_BUFLEN_CAST(len)\t((socklen_t) (len))"),
    dict(id="send-returns-len", file="src/psocket.c", expect="C09.2",
         old="\t\t\t\t\t     \"Failed to call send() on socket\");\n\n\t\t\treturn -1;\n\t\t}\n\n\t\tbreak;\n\t}\n\n\treturn ret;",
         new="\t\t\t\t\t     \"Failed to call send() on socket\");\n\n\t\t\treturn -1;\n\t\t}\n\n\t\tbreak;\n\t}\n\n\treturn (pssize) buflen;"),
    dict(id="recvfrom-address-buffer-too-small", expect="C09.3", edits=[
        dict(file="src/psocket.c", count=2, old="\tstruct sockaddr_storage sa;\n\tsocklen_t\t\toptlen;\n\tpssize\t\t\tret;", new="\tstruct sockaddr\t\tsa;\n\tsocklen_t\t\toptlen;\n\tpssize\t\t\tret;"),
        dict(file="src/psocket.c", old="\t\t\t\t     (struct sockaddr *) &sa,\n\t\t\t\t     &optlen)) < 0) {", new="\t\t\t\t     &sa,\n\t\t\t\t     &optlen)) < 0) {")]),
    dict(id="recvfrom-wrong-len-object", file="src/psocket.c", expect="C09.3",
         old="\t\t*address = p_socket_address_new_from_native (&sa, optlen);", new="\t\t*address = p_socket_address_new_from_native (&sa, sizeof (sa));"),
    dict(id="sender-address-skipped-for-empty-datagram", file="src/psocket.c", expect="C09.3",
         old="\tif (address != NULL)\n\t\t*address = p_socket_address_new_from_native (&sa, optlen);", new="\tif (address != NULL && ret > 0)\n\t\t*address = p_socket_address_new_from_native (&sa, optlen);"),
    dict(id="sender-address-nonnegative-neutral", file="src/psocket.c", expect=None,
         old="\tif (address != NULL)\n\t\t*address = p_socket_address_new_from_native (&sa, optlen);", new="\tif (ret >= 0 && address != NULL)\n\t\t*address = p_socket_address_new_from_native (&sa, optlen);"),
    dict(id="sigpipe-not-ignored", file="src/psocket.c", expect="C09.4",
         old="#  ifdef SIGPIPE\n\tsignal (SIGPIPE, SIG_IGN);\n#  endif", new=""),
    dict(id="connect-so-error-before-wait", file="src/psocket.c", expect="C09.6",
         old="\t\t\tif (p_socket_io_condition_wait (socket,\n\t\t\t\t\t\t\tP_SOCKET_IO_CONDITION_POLLOUT,\n\t\t\t\t\t\t\terror) == TRUE &&\n\t\t\t    p_socket_check_connect_result (socket, error) == TRUE)",
         new="\t\t\tif (p_socket_check_connect_result (socket, error) == TRUE &&\n\t\t\t    p_socket_io_condition_wait (socket,\n\t\t\t\t\t\t\tP_SOCKET_IO_CONDITION_POLLOUT,\n\t\t\t\t\t\t\terror) == TRUE)"),
    dict(id="connected-before-check", file="src/psocket.c", expect="C09.6",
         old="\t\t\t\t\t\t\terror) == TRUE &&\n\t\t\t    p_socket_check_connect_result (socket, error) == TRUE) {", new="\t\t\t\t\t\t\terror) == TRUE) {"),
    dict(id="so-error-inverted", file="src/psocket.c", expect="C09.6",
         old="\tsocket->connected = (val == 0);\n\n\treturn (val == 0);", new="\tsocket->connected = (val == 0);\n\n\treturn (val != 0);"),
    dict(id="recv-errcode-direct-neutral", file="src/psocket.c", expect=None,
         old="\t\t\terr_code = p_error_get_last_net ();\n\n#if !defined (P_OS_WIN) && defined (EINTR)\n\t\t\tif (err_code == EINTR)\n\t\t\t\tcontinue;\n#endif\n\t\t\tsock_err = p_error_get_io_from_system (err_code);\n\n\t\t\tif (socket->blocking && sock_err == P_ERROR_IO_WOULD_BLOCK)\n\t\t\t\tcontinue;\n\n\t\t\tp_error_set_error_p (error,\n\t\t\t\t\t     (pint) sock_err,\n\t\t\t\t\t     err_code,\n\t\t\t\t\t     \"Failed to call recv() on socket\");",
         new="\t\t\terr_code = p_error_get_last_net ();\n\t\t\tsock_err = p_error_get_io_from_system (err_code);\n\n\t\t\tif (err_code == EINTR || (socket->blocking && sock_err == P_ERROR_IO_WOULD_BLOCK))\n\t\t\t\tcontinue;\n\n\t\t\tp_error_set_error_p (error,\n\t\t\t\t\t     (pint) sock_err,\n\t\t\t\t\t     err_code,\n\t\t\t\t\t     \"Failed to call recv() on socket\");"),
]
