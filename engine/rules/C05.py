"""C05 Threads: start-up handshake, reference protocol, join/exit code, TLS destructor discipline."""
from plint import guards
from plint.flow import Flow
from plint.ir import calls, strip_casts, cv, line, show, root_var, walk, ap
from plint.units import AnalysisBroken

SPIN = "pp_uthread_new_spin"
TLS = "pp_uthread_specific_data"


def member_nodes(fn, field, rec=None):
    for b, i, s in fn.stmts():
        for n in walk(s):
            if n["k"] == "member" and n["field"] == field and (rec is None or n.get("rec") == rec):
                yield b, i, n, s


def stores_in(fn):
    """[(block, idx, field, asg_node)] for stores through a member lvalue."""
    out = []
    for b, i, n in fn.nodes():
        if n["k"] == "asg":
            l = strip_casts(n["l"])
            if l is not None and l["k"] == "member":
                out.append((b, i, l["field"], n))
    return out

PTHREAD_CREATE_JOINABLE, PTHREAD_CREATE_DETACHED = 0, 1


def raw_flag_reaches_native(u, cf):
    """the creating function hands its joinable parameter to the native constructor as it came (no `!!`, no comparison)"""
    ps = cf.param_names()
    for (b, i, c) in cf.calls():
        if c.get("callee") == "p_uthread_create_internal" and len(c.get("args", ())) > 1:
            a = strip_casts(c["args"][1])
            return a is not None and a["k"] == "ref" and a.get("decl") == "param" and a["name"] in ps
    return False


def run(prog, rep):
    rep.rule("C05.1", "start-up handshake: native create and all initialising stores happen under the creation spinlock; the new thread reads the creator-initialised fields only after passing the same spinlock")
    rep.rule("C05.2", "reference protocol: created handles start with 2 references (creator + running thread), adopted ones with 1; ref_count is otherwise touched only by atomic inc / dec_and_test; the handle is released exactly when dec_and_test reports zero; the thread's own reference is dropped by the destructor of the library TLS slot")
    rep.rule("C05.3", "join/exit code: join refuses non-joinable handles, waits natively on the handle, then returns its ret_code; exit stores the code before the native exit and only for library threads; the proxy leaves ret_code untouched (zero-initialised allocation)")
    rep.rule("C05.4", "TLS destructors: the key's notifier is called only by replace_local, under old != NULL && notifier != NULL, before the new value is stored; set_local never calls it; the native key is created with the notifier as destructor")
    rep.rule("C05.5", "first-use key creation: the loser of the publication CAS deletes its native key, frees its holder and returns the winner's key; every failure exit frees the holder allocated in the call")
    u = prog.unit("puthread.c")
    pu = prog.unit("puthread-posix.c")

    # ---- C05.1 -----------------------------------------------------------------
    cf = u.fn("p_uthread_create_full").inlined()
    problems = []
    init_fields = set()
    created = [0]

    def on_stmt(st, b, i, stmt):
        facts, held = st
        for c in calls(stmt):
            cn = c.get("callee")
            if cn == "p_spinlock_lock" and root_var(c["args"][0]) == SPIN:
                if held:
                    problems.append(("the creation spinlock is taken twice", line(c)))
                held = True
            elif cn == "p_spinlock_unlock" and root_var(c["args"][0]) == SPIN:
                if not held:
                    problems.append(("the creation spinlock is released while not held", line(c)))
                held = False
            elif cn == "p_uthread_create_internal":
                created[0] += 1
                if not held:
                    problems.append(("the native thread is created outside the creation spinlock: it can run before its handle is initialised", line(c)))
        for n in walk(stmt):
            if n["k"] == "asg":
                l = strip_casts(n["l"])
                if l is not None and l["k"] == "member" and l.get("rec") == "PUThreadBase_":
                    init_fields.add(l["field"])
                    if not held:
                        problems.append(("field %s of the new handle is initialised after the creation spinlock was released: the running thread may read it uninitialised" % l["field"], line(n)))
        if stmt["k"] == "ret" and held:
            problems.append(("a path returns with the creation spinlock held: every later thread creation and every new thread blocks forever", line(stmt)))
        return [(guards.transfer(facts, stmt), held)]

    def on_edge(st, b, to, on):
        f2 = guards.edge_assume(st[0], b, on)
        return None if f2 is None else (f2, st[1])
    Flow(cf, [(guards.EMPTY, False)], on_stmt, on_edge).run()
    seen = set()
    for (msg, ln) in problems:
        if (msg, ln) not in seen:
            seen.add((msg, ln))
            rep.ob("C05.1", cf, "creator", False, msg, ln)
    if not problems:
        rep.ob("C05.1", cf, "creator", created[0] > 0 and len(init_fields) >= 4,
               "native create and the stores to %s all happen under the creation spinlock, which is released on every path" % sorted(init_fields), cf.loc[0])
    px = u.fn("pp_uthread_proxy").inlined()
    # position of the lock/unlock pass
    locks = [(b, i) for (b, i, c) in px.calls() if c.get("callee") == "p_spinlock_lock" and root_var(c["args"][0]) == SPIN]
    unlocks = [(b, i) for (b, i, c) in px.calls() if c.get("callee") == "p_spinlock_unlock" and root_var(c["args"][0]) == SPIN]
    okp = True
    msg = ""
    if len(locks) != 1 or len(unlocks) != 1 or not px.pos_dominates((locks[0][0].id, locks[0][1]), (unlocks[0][0].id, unlocks[0][1])):
        okp, msg = False, "the new thread does not pass (lock then unlock) through the creation spinlock"
    else:
        ub, ui = unlocks[0]
        for b, i, s in px.stmts():
            for n in walk(s):
                if n["k"] == "member" and n.get("rec") == "PUThreadBase_" and n["field"] in init_fields:
                    if not px.pos_dominates((ub.id, ui), (b.id, i)) or (b.id == ub.id and i == ui):
                        okp, msg = False, "line %d: the new thread reads %s before passing the creation spinlock: the creator may not have stored it yet" % (line(n), n["field"])
        # no return between lock and unlock, the unlock post-dominates the lock
        if not px.postdominates(ub.id, locks[0][0].id) and ub.id != locks[0][0].id:
            okp, msg = False, "a path of the new thread keeps the creation spinlock"
    rep.ob("C05.1", px, "proxy", okp, "the new thread passes the creation spinlock before reading any creator-initialised field" if okp else msg, px.loc[0])
    # the handshake needs its lock, the reference protocol its TLS slot: entered with the pointers NULL, p_uthread_init leaves both
    # assigned from their constructors on every path.  (p_spinlock_lock (NULL) and p_uthread_set_local (NULL, ...) fail silently:
    # with the spinlock missing the new thread reads the handle while the creator is still filling it in.)
    from plint.wiring import init_creates
    made = dict((g, (ctor, okm, ln)) for (g, ctor, okm, ln) in init_creates(u.fn("p_uthread_init")))
    for g, want in ((SPIN, "p_spinlock_new"), ("pp_uthread_specific_data", "p_uthread_local_new")):
        ctor, okm, ln = made.get(g, (None, False, u.fn("p_uthread_init").loc[0]))
        okm = okm and ctor == want
        rep.ob("C05.1", u.fn("p_uthread_init"), "init:" + g, okm, "p_uthread_init creates %s through %s whenever it does not exist yet" % (g, want) if okm else
               "p_uthread_init can return with %s still NULL (or not made by %s): %s" % (g, want, "lock and unlock of the creation spinlock then fail silently and the start-up handshake is gone"
                                                                                  if g == SPIN else "the running thread's own reference is never registered for release at thread exit"), ln)
    from plint.wiring import shutdown_resets
    nrs, brs = shutdown_resets(u.fn("p_uthread_shutdown"))
    if nrs < 2 and not brs:
        raise AnalysisBroken("p_uthread_shutdown: fewer than two releases of module globals found (%d)" % nrs)
    rep.ob("C05.1", u.fn("p_uthread_shutdown"), "shutdown:reset", nrs >= 2 and not brs, "p_uthread_shutdown stores NULL into each global it releases (the next init creates them again)" if (nrs >= 2 and not brs) else
           ("line %d: %s is released and keeps pointing at the destroyed object: the next init creates nothing" % (brs[0][1], brs[0][0]) if brs else "fewer than two releases found in p_uthread_shutdown"),
           brs[0][1] if brs else u.fn("p_uthread_shutdown").loc[0])
    rep.floor("C05.1", 2 + 2 + 1)

    # ---- C05.2 ---------------------------------------------------------------------
    st_cf = [(b, i, f, n) for (b, i, f, n) in stores_in(cf) if f == "ref_count"]
    ok = len(st_cf) == 1 and cv(st_cf[0][3]["r"]) == 2
    rep.ob("C05.2", cf, "count:create", ok, "a created handle starts with ref_count 2 (creator + running thread)" if ok else
           "a created handle starts with ref_count %s: the running thread's own reference, dropped by the TLS destructor at exit, is not accounted for at "
           "creation, so the handle can be released while the thread is still starting" % (show(st_cf[0][3]["r"]) if st_cf else "<unset>"),
           st_cf[0][3] if st_cf else cf.loc[0])
    cur = u.fn("p_uthread_current").inlined()
    st_cur = [(b, i, f, n) for (b, i, f, n) in stores_in(cur) if f == "ref_count"]
    ok = len(st_cur) == 1 and cv(st_cur[0][3]["r"]) == 1
    rep.ob("C05.2", cur, "count:adopt", ok, "an adopted foreign thread starts with ref_count 1" if ok else "adopted handle ref_count is not 1", cur.loc[0])
    # all other touches of ref_count: only &x->ref_count as argument of the atomic inc / dec_and_test
    bad = []
    allowed_init = {id(st_cf[0][3]["l"]) if st_cf else None, id(st_cur[0][3]["l"]) if st_cur else None}
    n_atomic = 0
    for un, unit in sorted(prog.units.items()):
        if not un.startswith("puthread"):
            continue
        for fn in unit.roots():
            okset = set()
            for b, i, c in fn.calls():
                if c.get("callee") in ("p_atomic_int_inc", "p_atomic_int_dec_and_test"):
                    for n in walk(c["args"][0]):
                        if n["k"] == "member" and n["field"] == "ref_count":
                            okset.add(id(n))
                            n_atomic += 1
            for b, i, s in fn.stmts():
                for n in walk(s):
                    if n["k"] == "member" and n["field"] == "ref_count" and id(n) not in okset:
                        if id(n) in allowed_init or id(strip_casts(n)) in allowed_init:
                            continue
                        # the lhs node of the init stores
                        is_init = any(strip_casts(x[3]["l"]) is n for x in st_cf + st_cur)
                        if not is_init:
                            bad.append((fn, n))
    rep.ob("C05.2", cf, "count:atomic", not bad and n_atomic >= 2,
           "after initialisation ref_count is touched only through p_atomic_int_inc / p_atomic_int_dec_and_test (%d sites)" % n_atomic if not bad else
           "%s touches ref_count with a plain access at line %d" % (bad[0][0].name, line(bad[0][1])), bad[0][1] if bad else cf.loc[0])
    un = u.fn("p_uthread_unref").inlined()
    rel = []

    def s2(st, b, i, stmt):
        for c in calls(stmt):
            if c.get("callee") in ("p_free", "p_uthread_free_internal"):
                rel.append((st, c))
        return [guards.transfer(st, stmt)]
    Flow(un, [guards.EMPTY], s2, lambda st, b, to, on: guards.edge_assume(st, b, on)).run()
    dec = [c for (b, i, c) in un.calls() if c.get("callee") == "p_atomic_int_dec_and_test"]
    okr = len(dec) == 1 and len(rel) >= 2
    if okr:
        dk = guards.key(dec[0])
        for (f, c) in rel:
            # the result itself, or a local holding it (`is_last = dec_and_test (...); if (is_last != TRUE) return;`)
            names = [dk] + [fk for (fk, fop, fv) in f if fop == "=:" and fv == dk]
            if not any(guards.lookup(f, k_) == 1 or any(fk == k_ and fop == "!=" and fv == 0 for (fk, fop, fv) in f) for k_ in names):
                okr = False
    p0 = un.param_names()[0]
    freed = set()
    for (f, c) in rel:
        a = un.resolve(c["args"][0])
        freed.add(guards.key(a))
        if a is not None and a["k"] == "ref" and a["name"] in un.value_aliases(p0):
            freed.add(p0)
    okr = okr and any(k.endswith("->name") for k in freed) and (p0 in freed or "base_thread" in freed)
    rep.ob("C05.2", un, "release", okr, "the name and the handle are released exactly on the path where dec_and_test returned TRUE" if okr else
           "unref releases the handle without dec_and_test having returned TRUE, or does not release name and handle", un.loc[0])
    ini = u.fn("p_uthread_init").inlined()
    okd = False
    for b, i, c in ini.calls():
        if c.get("callee") == "p_uthread_local_new":
            a = strip_casts(c["args"][0])
            if a is not None and a["k"] == "ref" and a["name"] == "pp_uthread_cleanup":
                okd = True
    cu = u.fn("pp_uthread_cleanup").inlined()
    okd2 = any(c.get("callee") == "p_uthread_unref" and root_var(c["args"][0]) == cu.param_names()[0] for (b, i, c) in cu.calls())
    pub = [(b, i) for (b, i, c) in px.calls() if c.get("callee") == "p_uthread_set_local" and root_var(c["args"][0]) == TLS and root_var(c["args"][1]) in px.value_aliases(px.param_names()[0])]
    okd3 = len(pub) == 1
    rep.ob("C05.2", ini, "own-ref", okd and okd2 and okd3,
           "the library TLS slot is created with pp_uthread_cleanup, which unrefs; the new thread publishes its handle in that slot" if (okd and okd2 and okd3) else
           "the running thread's own reference is not dropped through the TLS destructor (slot destructor: %s, destructor unrefs: %s, proxy publishes: %s)" % (okd, okd2, okd3), ini.loc[0])
    # a handle taken out of the library slot and unref'ed by hand must leave the slot on that path: the slot's destructor drops the
    # same reference again when the thread ends
    nslot = 0
    for f_ in u.roots():
        getters = {}
        for b, i, n in f_.nodes():
            if n["k"] == "asg" and strip_casts(n["l"])["k"] == "ref":
                r_ = strip_casts(n["r"])
                if r_ is not None and r_["k"] == "call" and r_.get("callee") == "p_uthread_get_local" and root_var(r_["args"][0]) == TLS:
                    getters[strip_casts(n["l"])["name"]] = n
            if n["k"] == "decl" and n.get("init") is not None:
                r_ = strip_casts(n["init"])
                if r_ is not None and r_["k"] == "call" and r_.get("callee") == "p_uthread_get_local" and root_var(r_["args"][0]) == TLS:
                    getters[n["name"]] = n
        clears0 = [(b, i, c) for (b, i, c) in f_.calls() if c.get("callee") == "p_uthread_set_local" and root_var(c["args"][0]) == TLS and cv(c["args"][1]) == 0]
        if (not getters and not clears0) or f_.name == "pp_uthread_cleanup":
            continue
        unrefs = [(b, i, c) for (b, i, c) in f_.calls() if c.get("callee") == "p_uthread_unref" and root_var(c["args"][0]) in getters]
        if clears0 and not unrefs:
            # the reverse: a handle read from the slot and wiped from it by hand is unref'ed by hand - storing NULL runs no destructor
            # (POSIX runs key destructors at thread exit and only for non-NULL values), so the reference the slot held is lost otherwise
            nslot += 1
            rep.ob("C05.2", f_, "slot:unref", False, "line %d: %s takes the thread's handle out of the library slot by storing NULL and never drops the reference the slot held: "
                   "no destructor runs for a value replaced by NULL, the handle of the calling thread is never released" % (line(clears0[0][2]), f_.name), clears0[0][2])
            continue
        if not unrefs:
            continue
        nslot += 1
        clears = [(b, i, c) for (b, i, c) in f_.calls() if c.get("callee") == "p_uthread_set_local" and root_var(c["args"][0]) == TLS and cv(c["args"][1]) == 0]
        okcl = all(any(f_.postdominates(cb.id, ub.id) or (cb.id == ub.id and ci > ui) for (cb, ci, cc) in clears) for (ub, ui, uc) in unrefs)
        rep.ob("C05.2", f_, "slot:cleared", okcl, "the handle taken from the library slot and unref'ed is removed from the slot on the same path" if okcl else
               "line %d: the handle read from the library TLS slot is unref'ed but stays in the slot: when this thread ends, the slot's destructor drops the same reference "
               "a second time (the handle is released while a reference is held, or freed memory is decremented)" % line(unrefs[0][2]), unrefs[0][2])
    # once the native thread exists it holds the handle (argument of its start routine, library TLS slot): from then on the handle
    # goes away only through p_uthread_unref.  (a) the native release function is reached from unref alone; (b) the creating function
    # hands the started handle to no releasing call, whatever fails afterwards (a name copy that cannot be allocated gives an unnamed
    # thread, not a freed one)
    frel = [(f.name, line(c)) for f in list(u.roots()) + list(pu.roots()) for (b, i, c) in f.calls() if c.get("callee") == "p_uthread_free_internal"]
    oka = bool(frel) and all(fn_ == "p_uthread_unref" for (fn_, ln_) in frel)
    rep.ob("C05.2", u.fn("p_uthread_unref"), "release:only-unref", oka, "p_uthread_free_internal is reached from p_uthread_unref only" if oka else
           "p_uthread_free_internal is called from %s: a handle is released outside the reference protocol" % sorted(set("%s (line %d)" % x for x in frel if x[0] != "p_uthread_unref")), u.fn("p_uthread_unref").loc[0])
    hv = None
    for (b, i, n) in cf.nodes(elsewhere=True):
        if n["k"] == "asg" and strip_casts(n["l"]) is not None and strip_casts(n["l"])["k"] == "ref" and strip_casts(n["r"]) is not None and strip_casts(n["r"])["k"] == "call" \
                and strip_casts(n["r"]).get("callee") == "p_uthread_create_internal":
            hv = strip_casts(n["l"])["name"]
    badrel = []
    if hv is not None:
        hs = cf.copies_of(hv)
        for (b, i, c) in cf.calls():
            if c.get("callee") in ("p_free", "p_uthread_free_internal", "p_uthread_unref") and c.get("args") and root_var(c["args"][0]) in hs and strip_casts(c["args"][0])["k"] == "ref":
                badrel.append(c)
    rep.ob("C05.2", cf, "started:kept", hv is not None and not badrel, "the creating function never releases the handle of a started thread" if (hv is not None and not badrel) else
           ("line %d: %s releases the handle after p_uthread_create_internal started the native thread with it: the new thread is parked on the creation spinlock with that "
            "object as its argument and in its TLS slot, and runs on freed memory" % (line(badrel[0]), badrel[0].get("callee")) if badrel else "the call of p_uthread_create_internal was not found"),
           badrel[0] if badrel else cf.loc[0])
    # the same inside the native constructor: the handle is released on its failure exit only when the *last* pthread_create made on
    # the path is known to have failed.  (A retry whose result is dropped leaves the first attempt's error code in the variable the
    # exit tests: the retry's thread runs on a handle that is freed under it.)
    ci = pu.fn("p_uthread_create_internal")
    pcs = [c for (b, i, c) in ci.calls() if c.get("callee") == "pthread_create"]
    hvar = root_var(pcs[0]["args"][3]) if pcs and len(pcs[0]["args"]) > 3 else None
    badfree = []

    def cs(st, b, i, stmt):
        facts, last = st
        mine = [c for c in calls(stmt) if c.get("callee") == "pthread_create"]
        if mine:
            top = strip_casts(stmt)
            if top is not None and top["k"] == "asg" and strip_casts(top["l"])["k"] == "ref" and strip_casts(top["r"]) is mine[-1]:
                facts = guards.transfer(facts, stmt)
                return [(facts, ("var", strip_casts(top["l"])["name"]))]
            if top is mine[-1]:
                last = ("dropped", line(stmt))
            else:
                last = ("key", guards.key(mine[-1]))
        if last is not None:
            for c in calls(stmt):
                if c.get("callee") in ("p_free", "p_uthread_free_internal") and c.get("args") and root_var(c["args"][0]) == hvar and strip_casts(c["args"][0])["k"] == "ref":
                    if last[0] == "dropped":
                        badfree.append((c, "the result of the pthread_create at line %d is discarded" % last[1]))
                    else:
                        k_ = last[1]
                        v_ = guards.lookup(facts, k_)
                        failed = (v_ is not None and v_ != 0) or any(fk == k_ and fop == "!=" and fv == 0 for (fk, fop, fv) in facts)
                        if not failed:
                            badfree.append((c, "the last pthread_create on this path is not known to have failed"))
        return [(guards.transfer(facts, stmt), last)]

    def ce(st, b, to, on):
        f2 = guards.edge_assume(st[0], b, on)
        return None if f2 is None else (f2, st[1])
    if pcs and hvar:
        Flow(ci, [(guards.EMPTY, None)], cs, ce).run()
    okc = bool(pcs) and hvar is not None and not badfree
    rep.ob("C05.2", ci, "native:kept", okc, "the handle is released in p_uthread_create_internal only after the last pthread_create on the path failed" if okc else
           ("line %d: the handle is released although %s: a native thread may have been started with it and runs on freed memory, while the creator gets NULL" % (
               line(badfree[0][0]), badfree[0][1]) if badfree else "pthread_create (..., handle) not found in p_uthread_create_internal"), badfree[0][0] if badfree else ci.loc[0])
    rep.floor("C05.2", 5 + 1 + 2 + 1)

    # ---- C05.3 ---------------------------------------------------------------------
    jn = u.fn("p_uthread_join").inlined()
    waits = [(b, i, c) for (b, i, c) in jn.calls() if c.get("callee") == "p_uthread_wait_internal"]
    okj, msg = True, ""
    if len(waits) != 1 or root_var(waits[0][2]["args"][0]) != jn.param_names()[0]:
        okj, msg = False, "join does not wait natively on its own handle"
    else:
        wb, wi, wc = waits[0]
        # path by path: a path that waited returns the handle's ret_code (directly or through a local it was copied into after
        # the wait), a path that did not returns a constant
        got = [0]
        jbad = []

        def sj(st, b, i, stmt):
            facts, waited = st
            if any(c is wc for c in calls(stmt)):
                waited = True
            if stmt["k"] == "ret":
                e = strip_casts(stmt.get("e"))
                isrc = e is not None and e["k"] == "member" and e["field"] == "ret_code"
                if not isrc and e is not None and e["k"] == "ref":
                    isrc = any(fk == e["name"] and fop == "=:" and str(fv).endswith("->ret_code") for (fk, fop, fv) in facts)
                const = cv(stmt.get("e")) if cv(stmt.get("e")) is not None else guards.eval_const(stmt.get("e"), facts)
                if isrc:
                    got[0] += 1
                    if not waited:
                        jbad.append("line %d: ret_code is returned on a path that did not wait for the thread" % line(stmt))
                elif waited:
                    jbad.append("line %d: join waited for the thread and returns %s instead of its exit code" % (line(stmt), show(stmt.get("e")) if const is None else const))
                elif const is None:
                    jbad.append("line %d: join returns %s" % (line(stmt), show(stmt.get("e"))))
                return []
            return [(guards.transfer(facts, stmt), waited)]

        def ej(st, b, to, on):
            f2 = guards.edge_assume(st[0], b, on)
            return None if f2 is None else (f2, st[1])
        Flow(jn, [(guards.EMPTY, False)], sj, ej).run()
        if jbad:
            okj, msg = False, jbad[0]
        got = got[0]
        # any read of ret_code before the wait (e.g. cached in a local) is stale
        for b, i, n, s in member_nodes(jn, "ret_code"):
            if not jn.pos_dominates((wb.id, wi), (b.id, i)) or (b.id == wb.id and i <= wi):
                okj, msg = False, "line %d: ret_code is read before the native wait returned" % line(n)
        if got == 0:
            okj, msg = False, msg or "join never returns the handle's ret_code"
        # non-joinable refused before waiting
        seenf = []

        def s3(st, b, i, stmt):
            for c in calls(stmt):
                if c.get("callee") == "p_uthread_wait_internal":
                    seenf.append(st)
            return [guards.transfer(st, stmt)]
        Flow(jn, [guards.EMPTY], s3, lambda st, b, to, on: guards.edge_assume(st, b, on)).run()
        for f in seenf:
            if not any(fk.endswith("->joinable") and ((fop == "!=" and fv == 0) or (fop == "==" and fv == 1)) for (fk, fop, fv) in f):
                okj, msg = False, "the native wait is reached without the joinable flag tested true (joining a detached thread is undefined)"
    rep.ob("C05.3", jn, "join", okj, "join refuses non-joinable handles, waits on its own handle, then returns ret_code" if okj else msg, jn.loc[0])
    # the native thread is created joinable exactly when the handle says so: join() on a handle whose native thread was created
    # detached is undefined, and a detached-by-request thread created joinable is never reaped
    ci = pu.fn("p_uthread_create_internal").inlined()
    sd = [c for (b, i, c) in ci.calls() if c.get("callee") == "pthread_attr_setdetachstate"]
    pc = [c for (b, i, c) in ci.calls() if c.get("callee") == "pthread_create"]
    jst = [n for (b, i, f, n) in stores_in(ci) if f == "joinable"]
    okd, msgd = len(sd) == 1 and len(pc) >= 1 and len(jst) == 1, "expected one pthread_attr_setdetachstate, pthread_create and one store of the joinable flag in create_internal"
    if okd:
        jp = root_var(jst[0]["r"])
        if jp not in ci.param_names() or strip_casts(jst[0]["r"])["k"] != "ref":
            okd, msgd = False, "line %d: the handle's joinable flag is %s, not the joinable argument" % (line(jst[0]), show(jst[0]["r"]))
        else:
            def state_for(jv):
                """the constant handed to setdetachstate on every path when the joinable argument is jv (through a ternary, an if/else
                into a local, or a helper)"""
                got = set()

                def st_(st, b, i, stmt):
                    for c_ in calls(stmt):
                        if c_.get("callee") == "pthread_attr_setdetachstate":
                            got.add(guards.eval_const(c_["args"][1], st))
                    return [guards.transfer(st, stmt, kill_calls=False)]
                Flow(ci, [guards.add_fact(guards.EMPTY, jp, "==", jv)], st_, lambda st, b, to, on: guards.edge_assume(st, b, on)).run()
                return got.pop() if len(got) == 1 else None
            vt, vf = state_for(1), state_for(0)
            if (vt, vf) != (PTHREAD_CREATE_JOINABLE, PTHREAD_CREATE_DETACHED):
                okd, msgd = False, ("line %d: the native detach state is %s for a joinable handle and %s for a non-joinable one (JOINABLE = 0, DETACHED = 1): "
                                    "join waits on a detached native thread, or a detached-by-request thread is never reaped" % (line(sd[0]), vt, vf))
            elif raw_flag_reaches_native(u, cf) and state_for(2) != PTHREAD_CREATE_JOINABLE:
                # pboolean is an int and p_uthread_join refuses only `joinable == FALSE`: every true value is a joinable handle, so every
                # true value must give a joinable native thread (`joinable == TRUE ? JOINABLE : DETACHED` detaches the thread for 2 or -1,
                # and join then returns at once with code 0)
                okd, msgd = False, ("line %d: for a true joinable argument other than 1 the native thread is created %s, while p_uthread_join accepts every handle whose flag "
                                    "is not FALSE: join on it fails inside pthread_join and returns 0 while the thread still runs" % (
                                        line(sd[0]), "detached" if state_for(2) == PTHREAD_CREATE_DETACHED else "with detach state %s" % state_for(2)))
            else:
                for c_ in pc:
                    if root_var(sd[0]["args"][0]) != root_var(c_["args"][1]) or cv(c_["args"][1]) == 0:
                        okd, msgd = False, "line %d: pthread_create does not use the attribute object the detach state was set on" % line(c_)
    rep.ob("C05.3", ci, "detachstate", okd, "the native thread is created JOINABLE exactly when the handle's joinable flag (the argument) is set" if okd else msgd, sd[0] if sd else ci.loc[0])
    wi_ = pu.fn("p_uthread_wait_internal").inlined()
    pj = [c for (b, i, c) in wi_.calls() if c.get("callee") == "pthread_join"]
    okw = len(pj) == 1 and guards.key(pj[0]["args"][0]) == "%s->hdl" % wi_.param_names()[0]
    rep.ob("C05.3", wi_, "wait", okw, "pthread_join (thread->hdl)" if okw else "wait_internal does not pthread_join the handle's own native thread", wi_.loc[0])
    ex = u.fn("p_uthread_exit").inlined()
    st_ex = [(b, i, f, n) for (b, i, f, n) in stores_in(ex) if f == "ret_code"]
    exi = [(b, i, c) for (b, i, c) in ex.calls() if c.get("callee") == "p_uthread_exit_internal"]
    oke = len(st_ex) == 1 and len(exi) == 1 and root_var(st_ex[0][3]["r"]) == ex.param_names()[0] and \
        ex.pos_dominates((st_ex[0][0].id, st_ex[0][1]), (exi[0][0].id, exi[0][1]))
    # only for library threads
    if oke:
        fs = []

        def s4(st, b, i, stmt):
            for n in walk(stmt):
                if n["k"] == "asg" and strip_casts(n["l"])["k"] == "member" and strip_casts(n["l"])["field"] == "ret_code":
                    fs.append(st)
            return [guards.transfer(st, stmt)]
        Flow(ex, [guards.EMPTY], s4, lambda st, b, to, on: guards.edge_assume(st, b, on)).run()
        for f in fs:
            if not any(fk.endswith("->ours") and ((fop == "!=" and fv == 0) or (fop == "==" and fv == 1)) for (fk, fop, fv) in f):
                oke = False
    rep.ob("C05.3", ex, "exit", oke, "exit stores the code into the current library thread's handle before the native exit" if oke else
           "exit does not store its code (for library threads only) before the native exit", ex.loc[0])
    bad = [n for (b, i, f, n) in stores_in(px) if f == "ret_code"]
    ci = pu.fn("p_uthread_create_internal").inlined()
    allocs = [c for (b, i, c) in ci.calls() if c.get("callee") in ("p_malloc0", "p_malloc")]
    okz = not bad and len(allocs) == 1 and allocs[0].get("callee") == "p_malloc0"
    rep.ob("C05.3", px, "proxy:code", okz, "a thread function that simply returns leaves ret_code at its zero initialisation (p_malloc0)" if okz else
           "the proxy writes ret_code or the handle is not zero-initialised", px.loc[0])
    st_ours = [n for (b, i, f, n) in stores_in(cf) if f == "ours"]
    oko = len(st_ours) == 1 and cv(st_ours[0]["r"]) == 1
    rep.ob("C05.3", cf, "ours", oko, "created handles are marked as library threads (p_uthread_exit stores its code only for those)" if oko else
           "p_uthread_create_full does not mark the handle as a library thread: p_uthread_exit refuses to store the exit code, join then yields 0", cf.loc[0])
    st_join = [n for (b, i, f, n) in stores_in(cf) if f == "joinable"]
    okjn = len(st_join) == 1 and root_var(st_join[0]["r"]) == cf.param_names()[2]
    rep.ob("C05.3", cf, "joinable", okjn, "the handle records the joinable argument" if okjn else "the joinable flag of the handle is not the caller's argument", cf.loc[0])
    # the native thread id is consumed once: by pthread_join for a joinable handle; a detached one was created detached.  No
    # pthread_detach afterwards - after a join the id is dead and glibc reuses it for the next thread, which would be detached instead
    dets = [(f, c) for f in pu.roots() for (b, i, c) in f.calls() if c.get("callee") == "pthread_detach"]
    rep.ob("C05.3", pu.fn("p_uthread_free_internal"), "native:no-detach", not dets, "the library never calls pthread_detach: detach state is fixed at creation" if not dets else
           "line %d: %s calls pthread_detach on a handle's native id: for a handle that was already joined the id is dead (and reused by the next thread the process creates), "
           "so a later thread is detached behind its owner's back and its join returns at once with code 0" % (line(dets[0][1]), dets[0][0].name), dets[0][1] if dets else pu.fn("p_uthread_free_internal").loc[0])
    rep.floor("C05.3", 7)

    # ---- C05.4 ---------------------------------------------------------------------
    indirect = {}
    for fn in pu.functions.values():
        for b, i, c in fn.calls():
            if c.get("callee") is None and c.get("fnptr") is not None:
                fp = strip_casts(c["fnptr"])
                if fp is not None and fp["k"] == "member" and fp["field"] == "free_func":
                    indirect.setdefault(fn.name, []).append((b, i, c))
    ok4 = set(indirect) == {"p_uthread_replace_local"}
    rep.ob("C05.4", pu.fn("p_uthread_set_local").inlined(), "notifier:callers", ok4,
           "the key's notifier is invoked only from p_uthread_replace_local" if ok4 else
           "the key's notifier is invoked from %s: p_uthread_set_local must never run it and only replace_local may" % sorted(indirect), pu.fn("p_uthread_set_local").inlined().loc[0])
    rl = pu.fn("p_uthread_replace_local").inlined()
    okg, msg = True, ""
    calls_seen = []

    def s5(st, b, i, stmt):
        for c in calls(stmt):
            if c.get("callee") is None:
                calls_seen.append((st, c, b, i))
        return [guards.transfer(st, stmt)]
    Flow(rl, [guards.EMPTY], s5, lambda st, b, to, on: guards.edge_assume(st, b, on)).run()
    if not calls_seen:
        okg, msg = False, "replace_local never calls the notifier"
    sets = [(b, i) for (b, i, c) in rl.calls() if c.get("callee") == "pthread_setspecific"]
    for (f, c, b, i) in calls_seen:
        arg = guards.key(c["args"][0]) if c["args"] else "?"
        nn_old = any(fk == arg and fop == "!=" and fv == 0 for (fk, fop, fv) in f)
        nn_fn = any(fk.endswith("->free_func") and fop == "!=" and fv == 0 for (fk, fop, fv) in f)
        if not (nn_old and nn_fn):
            okg, msg = False, "line %d: the notifier is called without both the old value and the notifier tested non-NULL" % line(c)
        for (sb, si) in sets:
            if not rl.pos_dominates((b.id, i), (sb.id, si)) and rl.pos_dominates((sb.id, si), (b.id, i)):
                okg, msg = False, "line %d: the notifier runs after the new value was stored" % line(c)
        # the value passed is the one read from the slot
        getv = [c2 for (b2, i2, c2) in rl.calls() if c2.get("callee") == "pthread_getspecific"]
        if not getv or not any(fop == "=:" and fk == arg and fv == guards.key(getv[0]) for (fk, fop, fv) in f):
            okg, msg = False, "line %d: the notifier is not given the value previously stored in the slot" % line(c)
    rep.ob("C05.4", rl, "notifier:guard", okg, "the notifier gets the old slot value, under old != NULL && notifier != NULL, before the new value is stored" if okg else msg, rl.loc[0])
    gk = pu.fn("pp_uthread_get_tls_key").inlined()
    kc = [c for (b, i, c) in gk.calls() if c.get("callee") == "pthread_key_create"]
    okk = len(kc) == 1 and guards.key(kc[0]["args"][1]).endswith("->free_func")
    rep.ob("C05.4", gk, "notifier:native", okk, "the native key is created with the key's notifier as thread-exit destructor" if okk else
           "pthread_key_create is not given key->free_func: values left at thread exit are never destroyed", gk.loc[0])
    # the native key outlives every reference to it (documented: local_free "doesn't remove the TLS key itself"): values other threads
    # still hold get their notifier when those threads end.  pthread_key_delete is called in one place only - the loser of the first-use
    # race deleting the key it made and nobody has seen
    lf_clo, todo_ = [], ["p_uthread_local_free"]
    while todo_:
        nm_ = todo_.pop()
        if nm_ in lf_clo or nm_ not in pu.functions:
            continue
        lf_clo.append(nm_)
        todo_ += [c.get("callee") for (b, i, c) in pu.functions[nm_].calls() if c.get("callee")]
    kd_ = [(f.name, line(c)) for f in pu.functions.values() if f.name in lf_clo for (b, i, c) in f.calls() if c.get("callee") == "pthread_key_delete"]
    kd_ = [(fn_, ln_) for (fn_, ln_) in kd_] + [("<none>", 0)] * 0
    okkd = not kd_
    rep.ob("C05.4", pu.fn("p_uthread_local_free"), "key:kept", okkd, "releasing a key reference never reaches pthread_key_delete (only the first-use race deletes a key, one that nobody has seen)" if okkd else
           "line %d: %s deletes a published native key: pthread_key_delete runs no destructors and cancels them for every value still stored in any thread, so a value left at "
           "thread exit never reaches its notifier" % (kd_[0][1], kd_[0][0]),
           pu.fn("p_uthread_local_free").loc[0])
    rep.floor("C05.4", 4)

    # ---- C05.5 ---------------------------------------------------------------------
    P5 = []
    counts = {"loser": 0, "winner": 0}

    def s6(st, b, i, stmt):
        facts, holder, native, var = st
        # holder: none|live|freed|published ; native: none|created|deleted
        for c in calls(stmt):
            cn = c.get("callee")
            if cn == "pthread_key_create":
                native = "pending"
            elif cn == "pthread_key_delete":
                if native != "created":
                    P5.append(("pthread_key_delete on a key that was not created in this call", line(c)))
                native = "deleted"
            elif cn == "p_free" and var is not None and root_var(c["args"][0]) in gk.copies_of(var):
                if holder == "freed":
                    P5.append(("the key holder is freed twice", line(c)))
                if holder == "published":
                    P5.append(("the published key holder is freed", line(c)))
                holder = "freed"
            elif cn == "p_atomic_pointer_compare_and_exchange":
                holder = "cas"
        for n in walk(stmt):
            if n["k"] == "asg" and any(x.get("callee") in ("p_malloc0", "p_malloc") for x in calls(n["r"])):
                var = root_var(n["l"])
                holder = "alloc"
        facts2 = guards.transfer(facts, stmt)
        if stmt["k"] == "ret":
            rv = strip_casts(stmt.get("e"))
            if holder == "live" or (holder == "cas"):
                P5.append(("a path returns with the key holder allocated in this call neither published nor freed", line(stmt)))
            if holder == "freed" and rv is not None and rv["k"] == "ref" and var is not None and rv["name"] in gk.copies_of(var):
                # what the returned variable holds on THIS path: follow the alias facts (`ret = thread_key`, `thread_key = key->key`, `ret = NULL`)
                cur, val = rv["name"], None
                for _hop in range(4):
                    if guards.lookup(facts2, cur) == 0:
                        val = "null"
                        break
                    nxt = [fv for (fk, fop, fv) in facts2 if fop == "=:" and fk == cur]
                    if not nxt:
                        break
                    if not (isinstance(nxt[0], str) and nxt[0] in gk.copies_of(var)):
                        val = nxt[0]
                        break
                    cur = nxt[0]
                if val is None or (isinstance(val, str) and val.startswith(("p_malloc", "malloc"))):
                    P5.append(("the freed key holder is returned to the caller", line(stmt)))
            if holder == "lost":
                counts["loser"] += 1
            if native == "created" and holder == "freed" and not lost_flag(facts2):
                P5.append(("a failure path frees the holder but keeps the native key it created", line(stmt)))
        return [(facts2, holder, native, var)]

    def lost_flag(f):
        return False

    def e6(st, b, to, on):
        facts, holder, native, var = st
        f2 = guards.edge_assume(facts, b, on)
        if f2 is None:
            return None
        if holder == "alloc" and var is not None:
            if guards.lookup(f2, var) == 0:
                holder = "none"
            elif any(fk == var and fop == "!=" and fv == 0 for (fk, fop, fv) in f2):
                holder = "live"
        if native == "pending":
            for (fk, fop, fv) in f2:
                if fk.startswith("pthread_key_create("):
                    if (fop == "==" and fv == 0):
                        native = "created"
                    elif fop == "!=" and fv == 0:
                        native = "none"
        if holder == "cas":
            for (fk, fop, fv) in f2:
                if fk.startswith("p_atomic_pointer_compare_and_exchange("):
                    if (fop == "==" and fv == 0):
                        holder = "live"      # lost the race: still ours to free
                        counts["loser"] += 1
                    elif (fop == "!=" and fv == 0) or (fop == "==" and fv == 1):
                        holder = "published"
                        counts["winner"] += 1
        return (f2, holder, native, var)
    Flow(gk, [(guards.EMPTY, "none", "none", None)], s6, e6).run()
    seen = set()
    for (msg, ln) in P5:
        if (msg, ln) not in seen:
            seen.add((msg, ln))
            rep.ob("C05.5", gk, "holder", False, msg, ln)
    if not P5:
        rep.ob("C05.5", gk, "holder", counts["loser"] > 0 and counts["winner"] > 0,
               "winner publishes its holder; the loser deletes its native key, frees its holder and returns the published key; failure exits free the holder",
               gk.loc[0])
    # loser must delete its native key: on the path CAS failed, pthread_key_delete is called
    dels = [(b, i, c) for (b, i, c) in gk.calls() if c.get("callee") == "pthread_key_delete"]
    cas = [(b, i, c) for (b, i, c) in gk.calls() if c.get("callee") == "p_atomic_pointer_compare_and_exchange"]
    okd = len(dels) == 1 and len(cas) == 1 and gk.pos_dominates((cas[0][0].id, cas[0][1]), (dels[0][0].id, dels[0][1]))
    rep.ob("C05.5", gk, "loser:delete", okd, "the losing native key is deleted after the failed publication" if okd else "the loser of the publication race does not delete its native key", gk.loc[0])
    rep.floor("C05.5", 2)


# objects are zero-filled at birth: the functions of these units rely on it for every field their constructors do not store
_run_clauses = run


def run(prog, rep):
    _run_clauses(prog, rep)
    from plint.wiring import check_zero_init
    check_zero_init(rep, "C05.3", prog, ['puthread.c', 'puthread-posix.c'], 1)

# generic robustness battery: renaming every local/parameter in these files must not change any verdict
RENAME_LOCALS = ['src/puthread.c', 'src/puthread-posix.c']

SELFTEST = [
    dict(id="shutdown-drops-spin-through-slot-helper-neutral", expect=None, edits=[
        dict(file="src/puthread.c", old="\tif (P_LIKELY (pp_uthread_new_spin != NULL)) {\n\t\tp_spinlock_free (pp_uthread_new_spin);\n\t\tpp_uthread_new_spin = NULL;\n\t}",
             new="\tpp_uthread_drop_spin (&pp_uthread_new_spin);"),
        dict(file="src/puthread.c", old="void\np_uthread_shutdown (void)",
             new="static void\npp_uthread_drop_spin (PSpinLock **slot)\n{\n\tif (P_UNLIKELY (*slot == NULL))\n\t\treturn;\n\n\tp_spinlock_free (*slot);\n\t*slot = NULL;\n}\n\nvoid\np_uthread_shutdown (void)")]),
    dict(id="shutdown-slot-helper-forgets-reset", expect="C05.1", edits=[
        dict(file="src/puthread.c", old="\tif (P_LIKELY (pp_uthread_new_spin != NULL)) {\n\t\tp_spinlock_free (pp_uthread_new_spin);\n\t\tpp_uthread_new_spin = NULL;\n\t}",
             new="\tpp_uthread_drop_spin (&pp_uthread_new_spin);"),
        dict(file="src/puthread.c", old="void\np_uthread_shutdown (void)",
             new="static void\npp_uthread_drop_spin (PSpinLock **slot)\n{\n\tif (P_UNLIKELY (*slot == NULL))\n\t\treturn;\n\n\tp_spinlock_free (*slot);\n}\n\nvoid\np_uthread_shutdown (void)")]),
    dict(id="local-free-deletes-native-key", file="src/puthread-posix.c", expect="C05.4",
         old="p_uthread_local_free (PUThreadKey *key)\n{\n\tif (P_UNLIKELY (key == NULL))\n\t\treturn;\n", new="p_uthread_local_free (PUThreadKey *key)\n{\n\tif (P_UNLIKELY (key == NULL))\n\t\treturn;\n\n\tif (key->key != NULL)\n\t\tpthread_key_delete (*key->key);\n"),
    dict(id="shutdown-wipes-slot-without-unref", file="src/puthread.c", expect="C05.2",
         old="\t\t\tp_uthread_unref (cur_thread);\n\t\t\tp_uthread_set_local (pp_uthread_specific_data, NULL);", new="\t\t\tp_uthread_set_local (pp_uthread_specific_data, NULL);"),
    dict(id="detach-state-compares-with-true", file="src/puthread-posix.c", expect="C05.3",
         old="joinable ? PTHREAD_CREATE_JOINABLE", new="joinable == TRUE ? PTHREAD_CREATE_JOINABLE"),
    dict(id="eperm-retry-result-dropped", file="src/puthread-posix.c", expect="C05.2",
         old="#  endif\n\t\tcreate_code = pthread_create (&ret->hdl, &attr, func, ret);\n\t}", new="#  endif\n\t\tpthread_create (&ret->hdl, &attr, func, ret);\n\t}"),
    dict(id="creation-spinlock-never-created", file="src/puthread.c", expect="C05.1",
         old="\tif (P_LIKELY (pp_uthread_new_spin == NULL))\n\t\tpp_uthread_new_spin = p_spinlock_new ();", new="\tif (P_LIKELY (pp_uthread_new_spin != NULL))\n\t\tpp_uthread_new_spin = p_spinlock_new ();"),
    dict(id="shutdown-keeps-handle-in-slot", file="src/puthread.c", expect="C05.2",
         old="\t\t\tp_uthread_unref (cur_thread);\n\t\t\tp_uthread_set_local (pp_uthread_specific_data, NULL);\n", new="\t\t\tp_uthread_unref (cur_thread);\n"),
    dict(id="ref-count-one-plus-late-ref", expect="C05.2", edits=[
        dict(file="src/puthread.c", old="\t\tbase_thread->ref_count = 2;", new="\t\tbase_thread->ref_count = 1;"),
        dict(file="src/puthread.c", old="\tp_spinlock_unlock (pp_uthread_new_spin);\n\n\tif (base_thread->name != NULL)", new="\tp_spinlock_unlock (pp_uthread_new_spin);\n\n\tp_uthread_ref ((PUThread *) base_thread);\n\n\tif (base_thread->name != NULL)")]),
    dict(id="proxy-skips-handshake", file="src/puthread.c", expect="C05.1",
         old="\tp_spinlock_lock (pp_uthread_new_spin);\n\tp_spinlock_unlock (pp_uthread_new_spin);\n\n\tif (base_thread->name != NULL)", new="\tif (base_thread->name != NULL)"),
    dict(id="creator-stores-after-unlock", file="src/puthread.c", expect="C05.1",
         old="\t\tbase_thread->name      = p_strdup (name);\n\t}\n\n\tp_spinlock_unlock (pp_uthread_new_spin);\n",
         new="\t}\n\n\tp_spinlock_unlock (pp_uthread_new_spin);\n\n\tif (base_thread != NULL)\n\t\tbase_thread->name = p_strdup (name);\n"),
    dict(id="plain-ref-increment", file="src/puthread.c", expect="C05.2",
         old="\tp_atomic_int_inc (&((PUThreadBase *) thread)->ref_count);", new="\t((PUThreadBase *) thread)->ref_count++;"),
    dict(id="unref-frees-when-nonzero", file="src/puthread.c", expect="C05.2",
         old="\tif (p_atomic_int_dec_and_test (&base_thread->ref_count) == TRUE) {", new="\tif (p_atomic_int_dec_and_test (&base_thread->ref_count) == FALSE) {"),
    dict(id="tls-slot-without-destructor", file="src/puthread.c", expect="C05.2",
         old="p_uthread_local_new ((PDestroyFunc) pp_uthread_cleanup);", new="p_uthread_local_new (NULL);"),
    dict(id="join-reads-code-before-wait", file="src/puthread.c", expect="C05.3",
         old="\tp_uthread_wait_internal (thread);\n\n\treturn base_thread->ret_code;", new="\t{ pint code = base_thread->ret_code; p_uthread_wait_internal (thread); return code; }"),
    dict(id="detach-state-arms-swapped", file="src/puthread-posix.c", expect="C05.3",
         old="joinable ? PTHREAD_CREATE_JOINABLE\n\t\t\t\t\t\t\t      : PTHREAD_CREATE_DETACHED", new="joinable ? PTHREAD_CREATE_DETACHED\n\t\t\t\t\t\t\t      : PTHREAD_CREATE_JOINABLE"),
    dict(id="free-internal-detaches", file="src/puthread-posix.c", expect="C05.3",
         old="p_uthread_free_internal (PUThread *thread)\n{\n", new="p_uthread_free_internal (PUThread *thread)\n{\n\tif (thread->base.joinable == TRUE)\n\t\tpthread_detach (thread->hdl);\n\n"),
    dict(id="create-full-frees-started-handle", file="src/puthread.c", expect="C05.2",
         old="\t\tbase_thread->name      = p_strdup (name);\n\t}\n", new="\t\tbase_thread->name      = p_strdup (name);\n\n\t\tif (name != NULL && base_thread->name == NULL) {\n\t\t\tp_uthread_free_internal ((PUThread *) base_thread);\n\t\t\tbase_thread = NULL;\n\t\t}\n\t}\n"),
    dict(id="join-detached", file="src/puthread.c", expect="C05.3",
         old="\tif (base_thread->joinable == FALSE)\n\t\treturn -1;\n\n\tp_uthread_wait_internal (thread);", new="\tp_uthread_wait_internal (thread);"),
    dict(id="exit-code-after-native-exit", file="src/puthread.c", expect="C05.3",
         old="\tbase_thread->ret_code = code;\n\n\tp_uthread_exit_internal ();", new="\tp_uthread_exit_internal ();\n\n\tbase_thread->ret_code = code;"),
    dict(id="ours-not-set", file="src/puthread.c", expect="C05.3",
         old="\t\tbase_thread->ours      = TRUE;\n", new=""),
    dict(id="set-local-destroys", file="src/puthread-posix.c", expect="C05.4",
         old="\tif (P_LIKELY (tls_key != NULL)) {\n\t\tif (P_UNLIKELY (pthread_setspecific (*tls_key, value) != 0))",
         new="\tif (P_LIKELY (tls_key != NULL)) {\n\t\tif (key->free_func != NULL && pthread_getspecific (*tls_key) != NULL)\n\t\t\tkey->free_func (pthread_getspecific (*tls_key));\n\t\tif (P_UNLIKELY (pthread_setspecific (*tls_key, value) != 0))"),
    dict(id="replace-no-null-test", file="src/puthread-posix.c", expect="C05.4",
         old="\tif (old_value != NULL && key->free_func != NULL)", new="\tif (key->free_func != NULL)"),
    dict(id="key-create-no-destructor", file="src/puthread-posix.c", expect="C05.4",
         old="pthread_key_create (thread_key, key->free_func) != 0", new="pthread_key_create (thread_key, NULL) != 0"),
    dict(id="loser-keeps-native-key", file="src/puthread-posix.c", expect="C05.5",
         old="\t\t\tif (P_UNLIKELY (pthread_key_delete (*thread_key) != 0)) {\n\t\t\t\tP_ERROR (\"PUThread::pp_uthread_get_tls_key: pthread_key_delete() failed\");\n\t\t\t\tp_free (thread_key);\n\t\t\t\treturn NULL;\n\t\t\t}\n\n\t\t\tp_free (thread_key);",
         new="\t\t\tp_free (thread_key);"),
    dict(id="loser-leaks-holder", file="src/puthread-posix.c", expect="C05.5",
         old="\t\t\t\treturn NULL;\n\t\t\t}\n\n\t\t\tp_free (thread_key);\n\n\t\t\tthread_key = key->key;", new="\t\t\t\treturn NULL;\n\t\t\t}\n\n\t\t\tthread_key = key->key;"),
    dict(id="unref-not-form-neutral", file="src/puthread.c", expect=None,
         old="\tif (p_atomic_int_dec_and_test (&base_thread->ref_count) == TRUE) {", new="\tif (p_atomic_int_dec_and_test (&base_thread->ref_count)) {"),
]
