"""C13 Balance: only the must-rebalance clause is statically decided (thin claim, see DESIGN.md)."""
from plint import symx
from plint.symx import C
from plint.ir import line
from plint.units import AnalysisBroken
from rules.treecommon import TreeRun, variant_roles, field_writers

BAL_FIELDS = {"ptree-rb.c": "color", "ptree-avl.c": "balance_factor"}


def run(prog, rep):
    rep.rule("C13.1", "must-rebalance: in the red-black and AVL variants every insertion path that links a new node, and every removal path, passes through a "
                      "helper that (transitively) rewrites colours / balance factors before the structural change is finished: insert after linking the node, AVL remove "
                      "before the node is freed, RB remove on the childless-black path before the node is unlinked")
    rep.note("C13 claims only C13.1. The height and colour invariants themselves and the comparison bounds are NOT decided (shape + arithmetic over unbounded trees); "
             "a left/right mirror comparison of the fix-up code was rejected because it fires on one-sided behaviour-preserving refactors.")
    n = 0
    for un, fld in sorted(BAL_FIELDS.items()):
        u = prog.unit(un)
        tag = "rb" if "rb" in un else "avl"
        fw = field_writers(u)
        balancers = set(f for f, w in fw.items() if fld in w and f.startswith("pp_"))
        rot = set(f for f, w in fw.items() if {"left", "right"} <= w and f.startswith("pp_"))
        if not balancers:
            raise AnalysisBroken("%s: no helper writes %s" % (un, fld))
        # ---- insert ----
        fn = u.fn("p_tree_%s_insert" % tag)
        r = TreeRun(fn, "insert", variant_roles(fn)).run()
        ok, msg, where = True, "", fn.loc[0]
        nnew = 0
        for (st, stmt, cur) in r.rets:
            al = st.tags.get("alloc")
            if al is None:
                continue
            nnew += 1
            hs = [h for h in st.tags.get("helpers", ()) if h[0] in balancers and h[0] in rot]
            if not hs:
                ok, msg, where = False, "line %d: a path links a new node and returns without calling a rebalancing helper (%s): the tree degenerates into a list under sorted insertions" % (
                    line(stmt), ", ".join(sorted(balancers & rot))), line(stmt)
                continue
            if not any(al in h[1] for h in hs):
                ok, msg, where = False, "line %d: the rebalancing helper is not given the node that was just linked" % hs[0][2], hs[0][2]
            linked = [p for p in st.tags.get("pstores", ()) if p[1] == al]
            if not linked:
                ok, msg, where = False, "line %d: the new node is not linked before rebalancing" % line(stmt), line(stmt)
            # the new node's parent/balance fields are initialised before the helper runs
            init = [s for s in st.tags.get("stores", ()) if s[0][1] == al and s[0][2] in ("parent", fld)]
            if len(init) < 2:
                ok, msg, where = False, "line %d: the new node's parent link / %s is not initialised before rebalancing" % (line(stmt), fld), line(stmt)
        rep.ob("C13.1", fn, "insert", ok and nnew > 0, "%d new-node return state(s): linked, parent and %s initialised, then rebalanced through %s" %
               (nnew, fld, sorted(balancers & rot)) if ok and nnew else (msg or "no new-node path"), where)
        n += 1
        # ---- remove ----
        fn = u.fn("p_tree_%s_remove" % tag)
        r = TreeRun(fn, "remove", variant_roles(fn)).run()
        ok, msg, where = True, "", fn.loc[0]
        nt = 0
        for (st, stmt, cur) in r.rets:
            if st.ret != C(1):
                continue
            nt += 1
            hs = [h for h in st.tags.get("helpers", ()) if h[0] in balancers and h[0] in rot]
            if tag == "avl":
                if not hs:
                    ok, msg, where = False, "line %d: an AVL removal path frees a node without retracing the balance factors" % line(stmt), line(stmt)
                elif any(h[3] > 0 for h in hs):
                    ok, msg, where = False, "line %d: the AVL rebalancing helper runs after the node was freed" % hs[0][2], hs[0][2]
            else:
                for h in hs:
                    if h[3] > 0:
                        ok, msg, where = False, "line %d: the red-black fix-up runs after the node was freed" % h[2], h[2]
        if tag == "rb":
            # the fix-up must be reachable at all and sit before the unlink stores
            allh = [h for (st, stmt, cur) in r.rets for h in st.tags.get("helpers", ()) if h[0] in balancers and h[0] in rot]
            if not allh:
                ok, msg = False, "p_tree_rb_remove never calls the red-black removal fix-up"
            elif any(h[4] > link_base(r) for h in allh):
                ok, msg = False, "the red-black fix-up is called after the node was already unlinked (it walks parent links of the node)"
            else:
                # the colour-test call sites whose TRUE outcome leads to the fix-up (childless black node):
                # no successful path may see such a test succeed and skip the fix-up
                def true_tests(st):
                    out = set()
                    for (c, truth) in st.conds:
                        if c[0] == "cmp" and isinstance(c[2], tuple) and c[2][0] == "call" and c[2][1] not in balancers and c[2][1] in u.functions:
                            if (c[1] == "!=" and truth) or (c[1] == "==" and not truth):
                                out.add(c[2])
                    return out
                with_fix = [st for (st, stmt, cur) in r.rets if st.ret == C(1) and any(h[0] in balancers and h[0] in rot for h in st.tags.get("helpers", ()))]
                guard_sites = set.intersection(*[true_tests(st) for st in with_fix]) if with_fix else set()
                if not guard_sites:
                    ok, msg = False, "the red-black fix-up is not guarded by the colour test of the removed node"
                for (st, stmt, cur) in r.rets:
                    if st.ret == C(1) and st not in with_fix and (true_tests(st) & guard_sites):
                        ok, msg, where = False, "line %d: a childless black node is removed on a path that skips the red-black fix-up" % line(stmt), line(stmt)
        rep.ob("C13.1", fn, "remove", ok and nt > 0, "%d successful removal state(s): rebalancing helper runs before the node is released%s" %
               (nt, "" if tag == "avl" else " / before it is unlinked on the black-leaf path") if ok and nt else (msg or "no successful path"), where)
        n += 1
    rep.floor("C13.1", 4)


def leaf_path(st):
    """The path took the `child == NULL` branch: some condition says a loaded child link is NULL."""
    for (c, truth) in st.conds:
        if c[0] == "cmp" and c[3] == C(0) and ((c[1] == "==" and truth) or (c[1] == "!=" and not truth)):
            t = c[2]
            if isinstance(t, tuple) and (t[0] == "sel" or (t[0] == "m0" and t[1][0] == "fld" and t[1][2] in ("left", "right")) or t[0] == "hv"):
                return True
    return False


def link_base(r):
    # number of link stores made by the pair swap of the two-children case is zero (it stores keys/values only)
    return 0


# generic robustness battery: renaming every local/parameter in these files must not change any verdict
RENAME_LOCALS = ['src/ptree-rb.c', 'src/ptree-avl.c']

SELFTEST = [
    dict(id="rb-insert-no-balance", file="src/ptree-rb.c", expect="C13.1",
         old="\t/* Balance the tree */\n\tpp_tree_rb_balance_insert ((PTreeRBNode *) *cur_node, root_node);\n", new=""),
    dict(id="avl-insert-no-balance", file="src/ptree-avl.c", expect="C13.1",
         old="\t/* Balance the tree */\n\tpp_tree_avl_balance_insert (((PTreeAVLNode *) *cur_node), root_node);\n", new=""),
    dict(id="avl-remove-leaf-no-balance", file="src/ptree-avl.c", expect="C13.1",
         old="\tif (child_node == NULL)\n\t\tpp_tree_avl_balance_remove ((PTreeAVLNode *) cur_node, root_node);\n", new=""),
    dict(id="rb-remove-no-fixup", file="src/ptree-rb.c", expect="C13.1",
         old="\tif (child_node == NULL && pp_tree_rb_is_black ((PTreeRBNode *) cur_node) == TRUE)\n\t\tpp_tree_rb_balance_remove ((PTreeRBNode *) cur_node, root_node);\n", new=""),
    dict(id="rb-insert-parent-not-set", file="src/ptree-rb.c", expect="C13.1",
         old="\t((PTreeRBNode *) *cur_node)->parent = (PTreeRBNode *) parent_node;\n", new=""),
    dict(id="avl-insert-balance-before-link-neutral", file="src/ptree-avl.c", expect=None,
         old="\t((PTreeAVLNode *) *cur_node)->balance_factor = 0;\n\t((PTreeAVLNode *) *cur_node)->parent         = (PTreeAVLNode *) parent_node;",
         new="\t((PTreeAVLNode *) *cur_node)->parent         = (PTreeAVLNode *) parent_node;\n\t((PTreeAVLNode *) *cur_node)->balance_factor = 0;"),
]
