"""C13 Balance: must-rebalance (term flow) and the fix-up / retracing code itself (shape analysis by materialisation:
each fix-up function is shown to re-establish the red-black / AVL invariant from its loop invariant, for every local
heap the invariant admits)."""
from plint import symx
from plint.symx import C
from plint.ir import line, strip_casts, cv, show, walk
from plint.units import AnalysisBroken
from plint import shape, treeshape
from rules.treecommon import TreeRun, variant_roles, field_writers, fixup_functions, tree_view

BAL_FIELDS = {"ptree-rb.c": "color", "ptree-avl.c": "balance_factor"}


def run(prog, rep):
    rep.rule("C13.1", "must-rebalance: in the red-black and AVL variants every insertion path that links a new node, and every removal path, passes through a "
                      "helper that (transitively) rewrites colours / balance factors before the structural change is finished: insert after linking the node, AVL remove "
                      "before the node is freed, RB remove on the childless-black path before the node is unlinked")
    rep.rule("C13.2", "red-black fix-ups (shape analysis): from the loop invariant (insert: a red node whose subtree is valid; remove: a subtree one black level short) "
                      "every path of the fix-up function, over every local heap the red-black invariant admits, either returns with equal black heights, no red node "
                      "with a red child, the in-order sequence, the parent links and *root intact, or continues one level up with the invariant re-established")
    rep.rule("C13.3", "AVL retracing (shape analysis): from the loop invariant (the subtree at the node grew / shrank by one, ancestors still hold the old factors) every "
                      "path of the retracing function and the rotations it calls either returns with every stored balance factor equal to the height difference, "
                      "|difference| <= 1 and the old height restored, or continues one level up with the invariant re-established")
    rep.note("C13.2/C13.3 prove the inductive step of the balance invariant for the fix-up functions (induction over the loop, all shapes, symbolic heights). "
             "The numeric comparison bounds (1.44*log2, 2*log2) follow from the invariants by the textbook argument and are not re-derived.")
    n = 0
    for un, fld in sorted(BAL_FIELDS.items()):
        u = prog.unit(un)
        tag = "rb" if "rb" in un else "avl"
        fw = field_writers(u)
        balancers = fixup_functions(u, fld)
        rot = set(balancers)
        if not balancers:
            raise AnalysisBroken("%s: no helper writes %s" % (un, fld))
        # ---- insert ----
        fn = u.fn("p_tree_%s_insert" % tag)
        r = TreeRun(fn, "insert", variant_roles(fn)).run()
        ok, msg, where = True, "", fn.loc[0]
        nnew = 0
        for (st, stmt, cur) in r.rets:
            al = st.tags.get("alloc")
            if al is None:
                continue
            nnew += 1
            hs = [h for h in st.tags.get("helpers", ()) if h[0] in balancers and h[0] in rot]
            if not hs:
                ok, msg, where = False, "line %d: a path links a new node and returns without calling a rebalancing helper (%s): the tree degenerates into a list under sorted insertions" % (
                    line(stmt), ", ".join(sorted(balancers & rot))), line(stmt)
                continue
            if not any(al in h[1] for h in hs):
                ok, msg, where = False, "line %d: the rebalancing helper is not given the node that was just linked" % hs[0][2], hs[0][2]
            linked = [p for p in st.tags.get("pstores", ()) if p[1] == al]
            if not linked:
                ok, msg, where = False, "line %d: the new node is not linked before rebalancing" % line(stmt), line(stmt)
            # the new node's parent/balance fields are initialised before the helper runs
            init = [s for s in st.tags.get("stores", ()) if s[0][1] == al and s[0][2] in ("parent", fld)]
            if len(init) < 2:
                ok, msg, where = False, "line %d: the new node's parent link / %s is not initialised before rebalancing" % (line(stmt), fld), line(stmt)
        rep.ob("C13.1", fn, "insert", ok and nnew > 0, "%d new-node return state(s): linked, parent and %s initialised, then rebalanced through %s" %
               (nnew, fld, sorted(balancers & rot)) if ok and nnew else (msg or "no new-node path"), where)
        n += 1
        # ---- remove ----
        fn = u.fn("p_tree_%s_remove" % tag)
        r = TreeRun(fn, "remove", variant_roles(fn)).run()
        ok, msg, where = True, "", fn.loc[0]
        nt = 0
        for (st, stmt, cur) in r.rets:
            if st.ret != C(1):
                continue
            nt += 1
            hs = [h for h in st.tags.get("helpers", ()) if h[0] in balancers and h[0] in rot]
            if tag == "avl":
                if not hs:
                    ok, msg, where = False, "line %d: an AVL removal path frees a node without retracing the balance factors" % line(stmt), line(stmt)
                elif any(h[3] > 0 for h in hs):
                    ok, msg, where = False, "line %d: the AVL rebalancing helper runs after the node was freed" % hs[0][2], hs[0][2]
            else:
                for h in hs:
                    if h[3] > 0:
                        ok, msg, where = False, "line %d: the red-black fix-up runs after the node was freed" % h[2], h[2]
        if tag == "rb":
            # the fix-up must be reachable at all and sit before the unlink stores
            allh = [h for (st, stmt, cur) in r.rets for h in st.tags.get("helpers", ()) if h[0] in balancers and h[0] in rot]
            if not allh:
                ok, msg = False, "p_tree_rb_remove never calls the red-black removal fix-up"
            elif any(h[4] > link_base(r) for h in allh):
                ok, msg = False, "the red-black fix-up is called after the node was already unlinked (it walks parent links of the node)"
            else:
                # the colour-test call sites whose TRUE outcome leads to the fix-up (childless black node):
                # no successful path may see such a test succeed and skip the fix-up
                def true_tests(st):
                    out = set()
                    for (c, truth) in st.conds:
                        if c[0] == "cmp" and isinstance(c[2], tuple) and c[2][0] == "call" and c[2][1] not in balancers and c[2][1] in u.functions:
                            if (c[1] == "!=" and truth) or (c[1] == "==" and not truth):
                                out.add(c[2])
                    return out
                succ = [st for (st, stmt, cur) in r.rets if st.ret == C(1)]
                with_fix = [st for st in succ if any(h[0] in balancers and h[0] in rot for h in st.tags.get("helpers", ()))]
                guard_sites = set.intersection(*[true_tests(st) for st in with_fix]) if with_fix else set()
                if not guard_sites:
                    ok, msg = False, "the red-black fix-up is not guarded by the colour test of the removed node"
                # what singles out the fix-up paths: the conditions all of them satisfy and not every successful path does (the node is
                # childless, and black - the colour may be tested once and cached, so the test's site alone does not tell the paths apart)
                # (the colour may be tested once and cached, so the test's site alone does not tell the childless path from the
                # one-child path: a path on which a child takes the node's place stores that child's parent link)
                has_child = lambda st: any(ent[0][0] == "fld" and ent[0][2] == "parent" for ent in st.tags.get("stores", ()))
                for (st, stmt, cur) in r.rets:
                    if st.ret == C(1) and st not in with_fix and (true_tests(st) & guard_sites) and not has_child(st):
                        ok, msg, where = False, "line %d: a childless black node is removed on a path that skips the red-black fix-up" % line(stmt), line(stmt)
        rep.ob("C13.1", fn, "remove", ok and nt > 0, "%d successful removal state(s): rebalancing helper runs before the node is released%s" %
               (nt, "" if tag == "avl" else " / before it is unlinked on the black-leaf path") if ok and nt else (msg or "no successful path"), where)
        n += 1
    rep.floor("C13.1", 4)

    # ---- C13.2 / C13.3: shape analysis of the fix-up functions ----------------------------------------------
    for un, fld in sorted(BAL_FIELDS.items()):
        u = prog.unit(un)
        tag = "rb" if "rb" in un else "avl"
        rule = "C13.2" if tag == "rb" else "C13.3"
        fw = field_writers(u)
        fixers = fixup_functions(u, fld)
        for mode in ("insert", "remove"):
            top = u.fn("p_tree_%s_%s" % (tag, mode), raw=True)
            called = sorted(set(c.get("callee") for (b, i, c) in tree_view(top).calls() if c.get("callee") in fixers))     # (also through a non-balancing helper)
            if not called:
                rep.ob(rule, top, "%s-fixup" % mode, False, "p_tree_%s_%s calls no helper that rewrites %s and rotates: nothing restores the balance invariant" % (tag, mode, fld), top.loc[0])
                continue
            if len(called) != 1:
                raise AnalysisBroken("%s: p_tree_%s_%s calls %d fix-up helpers (%s)" % (un, tag, mode, len(called), called))
            fx = u.fn(called[0], raw=True)
            if len(fx.params) != 2:
                raise AnalysisBroken("%s: %s does not take (node, root)" % (un, fx.name))
            if tag == "rb":
                RED, BLACK = u.enum_value("P_TREE_RB_COLOR_RED"), u.enum_value("P_TREE_RB_COLOR_BLACK")
                if RED is None or BLACK is None or RED == BLACK:
                    raise AnalysisBroken("%s: colour constants not found" % un)
                mk = lambda mode=mode, fx=fx: treeshape.RBDomain(mode, RED, BLACK, fx.param_names())
            else:
                mk = lambda mode=mode, fx=fx: treeshape.AVLDomain(mode, fx.param_names())
            stats, viol = shape.explore(u, fx, mk)
            okp = not viol and stats["returns"] > 0 and stats["backedges"] > 0
            if viol:
                v = viol[0]
                msg = "%s on the path through lines %s with the local shape {%s} (%d of %d paths fail)" % (
                    v[0], ", ".join(str(x) for x in v[3][-8:]), "; ".join(v[2]), len(viol), stats["paths"])
                where = v[1]
            else:
                msg = "%d paths over every admitted local shape: %d return with the %s invariant restored, %d continue one level up with the loop invariant re-established (%d shape choices were inconsistent with the invariant)" % (
                    stats["paths"], stats["returns"], "red-black" if tag == "rb" else "AVL", stats["backedges"], stats["infeasible"])
                where = fx.loc[0]
                if not okp:
                    msg = "the fix-up has %d returning and %d continuing paths: the loop structure is not the one analysed" % (stats["returns"], stats["backedges"])
            rep.ob(rule, fx, "%s-fixup" % mode, okp, msg, where)
    rep.floor("C13.2", 2)
    rep.floor("C13.3", 2)

    # ---- C13.4: the callers establish the fix-ups' entry invariant, and the paths around them keep the balance ---------
    rep.rule("C13.4", "entry conditions: a new node is linked with NULL children, parent set and colour RED / factor 0 before its fix-up; the AVL retrace is started "
                      "at the leaf before it is unlinked or at the child after it was relinked; a red-black node removed together with its only child paints that child black")
    for un, fld in sorted(BAL_FIELDS.items()):
        u = prog.unit(un)
        tag = "rb" if "rb" in un else "avl"
        want = C(u.enum_value("P_TREE_RB_COLOR_RED")) if tag == "rb" else C(0)
        fn = u.fn("p_tree_%s_insert" % tag)
        r = TreeRun(fn, "insert", variant_roles(fn)).run()
        ok, msg, where = True, "", fn.loc[0]
        nnew = 0
        zeroing = all(c.get("callee") == "p_malloc0" for (b, i, c) in fn.calls() if c.get("callee") in ("p_malloc", "p_malloc0"))
        fixers_i = fixup_functions(u, fld)
        for (st, stmt, cur) in r.rets:
            al = st.tags.get("alloc")
            if al is None:
                hs = [h for h in st.tags.get("helpers", ()) if h[0] in fixers_i]
                if hs:
                    ok, msg, where = False, "line %d: %s runs on a path that links no new node (a replaced pair or a failed allocation): its loop assumes the subtree at the node just grew, so ancestors' %s values are shifted and a spurious rotation can follow" % (
                        hs[0][2], hs[0][0], fld), hs[0][2]
                continue
            nnew += 1
            stores = st.tags.get("stores", ())
            val = [s_[1] for s_ in stores if s_[0] == ("fld", al, fld)]
            if not val or val[-1] != want:
                ok, msg, where = False, "line %d: the new node enters its fix-up with %s = %s, the fix-up's invariant needs %s" % (
                    line(stmt), fld, symx.show(val[-1]) if val else "an unset value", "RED" if tag == "rb" else "0"), line(stmt)
            for side in ("left", "right"):
                sv = [s_[1] for s_ in stores if s_[0][0] == "fld" and s_[0][2] == side and (s_[0][1] == al or s_[0][1] == ("fld", al, "base"))]
                if (sv and sv[-1] != C(0)) or (not sv and not zeroing):
                    ok, msg, where = False, "line %d: the new node's %s link is not NULL when it is rebalanced" % (line(stmt), side), line(stmt)
        rep.ob("C13.4", fn, "insert-entry", ok and nnew > 0, "the new node is %s with NULL children when the fix-up starts" % ("RED" if tag == "rb" else "balanced (factor 0)")
               if ok and nnew else (msg or "no new-node path"), where)

        fn = u.fn("p_tree_%s_remove" % tag)
        r = TreeRun(fn, "remove", variant_roles(fn)).run()
        ok, msg, where = True, "", fn.loc[0]
        nchild = 0
        fixers = fixup_functions(u, fld)
        for (st, stmt, cur) in r.rets:
            if st.ret != C(1):
                continue
            X = st.tags.get("found")
            stores = st.tags.get("stores", ())
            # the child that takes the removed node's place: the node whose parent link is rewritten
            ch = [s_[0][1] for s_ in stores if s_[0][0] == "fld" and s_[0][2] == "parent"]
            hs = [h for h in st.tags.get("helpers", ()) if h[0] in fixers]
            if tag == "avl":
                for h in hs:
                    arg = h[1][0] if h[1] else None
                    if ch and arg == ch[-1]:
                        continue                     # retrace from the relinked child
                    if not ch and h[4] == 0:
                        continue                     # retrace from the leaf, before it is unlinked
                    ok, msg, where = False, "line %d: the AVL retrace starts at %s, which is neither the still linked leaf nor the relinked child" % (h[2], symx.show(arg)), h[2]
            else:
                if ch:
                    nchild += 1
                    col = [s_[1] for s_ in stores if s_[0] == ("fld", ch[-1], "color")]
                    red_removed = any(c_[0] == "cmp" and isinstance(c_[2], tuple) and c_[2][0] == "call" and "black" in str(c_[2][1]) and
                                      ((c_[1] == "!=" and not truth) or (c_[1] == "==" and truth)) for (c_, truth) in st.conds)
                    if not red_removed and (not col or col[-1] != C(u.enum_value("P_TREE_RB_COLOR_BLACK"))):
                        ok, msg, where = False, "line %d: a black node is removed together with its only child and the child is not painted black: that side loses a black level" % line(stmt), line(stmt)
        if tag == "rb":
            ok = ok and nchild > 0
        rep.ob("C13.4", fn, "remove-entry", ok, ("the retrace starts at the leaf before the unlink or at the relinked child" if tag == "avl" else
               "%d one-child removal state(s): the child that replaces a black node is painted black" % nchild) if ok else (msg or "no one-child removal path found"), where)
    # the balance attribute must hold the values the fix-up compares against on every platform
    au = prog.unit("ptree-avl.c")
    for rec in au.records.values():
        f_ = rec.field("balance_factor") if hasattr(rec, "field") else None
        if f_ is None:
            continue
        t_ = au.types[f_["t"]]
        plain_char = t_.get("s") == "char"
        ok_t = t_.get("k") == "int" and t_.get("sg") is True and not plain_char
        rep.ob("C13.4", au.fn("p_tree_avl_insert", raw=True), "factor-type", ok_t,
               "balance_factor is stored in %s: -1, 0 and 1 read back unchanged on every platform" % t_.get("s") if ok_t else
               "balance_factor is declared %s (%s): %s, so a stored -1 reads back as a positive value, every `== -1` test of the retracing code fails and right-heavy nodes are never rotated" % (
                   f_.get("ts"), t_.get("s"), "plain char is unsigned on ARM, PowerPC and s390 (and with -funsigned-char)" if plain_char else "the type is not a signed integer"),
               au.fn("p_tree_avl_insert", raw=True).loc[0])
    # outside the fix-ups a balance factor is only ever set to 0: a fresh node is balanced, and the only child that takes the place of a
    # removed AVL node is a leaf (factor 0) - copying the removed node's factor onto it leaves a leaf that claims a subtree, which the
    # next insert below it believes (its retrace stops early, ancestors never learn the subtree grew)
    from rules.treecommon import balancing_closure
    clo = balancing_closure(au)
    for f_ in sorted(au.functions.values(), key=lambda f: f.loc[0]):
        if f_.name in clo:
            continue
        sts = [n for (b, i, n) in f_.nodes(elsewhere=True) if (n["k"] == "asg" and strip_casts(n["l"]) is not None and strip_casts(n["l"])["k"] == "member"
                                                                and strip_casts(n["l"])["field"] == "balance_factor")
               or (n["k"] == "un" and ("++" in n.get("op", "") or "--" in n.get("op", "")) and strip_casts(n["e"]) is not None and strip_casts(n["e"])["k"] == "member"
                   and strip_casts(n["e"])["field"] == "balance_factor")]
        if not sts:
            continue
        badf = [n for n in sts if not (n["k"] == "asg" and n["op"] == "=" and cv(n["r"]) == 0)]
        rep.ob("C13.4", f_, "factor-stores", not badf, "outside the retracing helpers %s sets a balance factor only to 0 (%d store(s))" % (f_.name, len(sts)) if not badf else
               "line %d: %s stores %s into a balance factor outside the retracing helpers: a node that is new, or a leaf moved into a removed node's place, has factor 0; "
               "a stale factor makes a later retrace stop early and the tree loses its height bound" % (line(badf[0]), f_.name, show(badf[0].get("r")) if badf[0]["k"] == "asg" else "an increment"), badf[0] if badf else f_.loc[0])
    # ... and only on a node made in this call: on the path of every such store an allocation succeeded before it.  (The replace path
    # of insert keeps the node with its children: resetting its factor there leaves a leaning node that claims to be balanced, and a
    # later removal picks its rotation from the stale factor - a double rotation through a child that is not there.)
    from plint import guards as _g
    from plint.flow import Flow as _Flow
    for f_ in sorted(au.functions.values(), key=lambda f: f.loc[0]):
        if f_.name in clo:
            continue
        fv_ = tree_view(f_)
        stale = []

        def fs(st, b, i, stmt, stale=stale):
            facts, fresh = st
            for n in walk(stmt):
                if n["k"] == "call" and n.get("callee") in ("p_malloc0", "p_malloc"):
                    fresh = True
            for n in walk(stmt):
                if n["k"] == "asg" and strip_casts(n["l"]) is not None and strip_casts(n["l"])["k"] == "member" and strip_casts(n["l"])["field"] == "balance_factor" and not fresh:
                    stale.append(line(n))
            return [(_g.transfer(facts, stmt), fresh)]

        def fe(st, b, to, on):
            f2 = _g.edge_assume(st[0], b, on)
            return None if f2 is None else (f2, st[1])
        if not any(n["k"] == "asg" and strip_casts(n["l"]) is not None and strip_casts(n["l"])["k"] == "member" and strip_casts(n["l"])["field"] == "balance_factor" for (b, i, n) in fv_.nodes(elsewhere=True)):
            continue
        if not any(c.get("callee") in ("p_malloc0", "p_malloc") for (b, i, c) in fv_.calls()):
            continue          # a function that makes no node (remove: the leaf moved into a removed node's place gets 0, the previous clause)
        _Flow(fv_, [(_g.EMPTY, False)], fs, fe, max_states=20000).run()
        rep.ob("C13.4", f_, "factor-stores:fresh", not stale, "outside the retracing helpers %s sets a balance factor only on a path that allocated the node in this call" % f_.name if not stale else
               "line %d: %s stores into the balance factor of a node that was already part of the tree (no allocation on this path - the replace path): the node keeps its "
               "children but forgets which way it leans, and a later removal chooses its rotation from the wrong factor" % (stale[0], f_.name), stale[0] if stale else f_.loc[0])
    rep.floor("C13.4", 6)
    # ---- C13.5: the balancing decisions read live nodes ----------------------------------------------------
    rep.rule("C13.5", "live node: in ptree-rb.c / ptree-avl.c no path reads a node (its colour or factor for a repaint or retrace decision, its links) after the node was "
                      "handed to p_free: with an allocator that reuses or scrubs freed blocks the decision is made on garbage and the tree loses its balance invariant")
    from plint import uaf
    rel = uaf.releasers_for(prog)
    for un in sorted(BAL_FIELDS):
        bu = prog.unit(un)
        for f_ in sorted(bu.functions.values(), key=lambda f: f.loc[0]):
            if not any(c.get("callee") in rel for (b, i, c) in f_.calls()):
                continue
            ps = uaf.check_function(f_, rel)
            if ps:
                k, pth, ln, w, at = ps[0]
                rep.ob("C13.5", f_, "live", False, "line %d: %s is read after the node was released at line %s: the repaint / retrace decision that follows is made on what the allocator "
                       "left in the freed block" % (ln, pth, at), ln, w)
            else:
                rep.ob("C13.5", f_, "live", True, "nothing of a node is read after its release", f_.loc[0])
    rep.floor("C13.5", 2)


def leaf_path(st):
    """The path took the `child == NULL` branch: some condition says a loaded child link is NULL."""
    for (c, truth) in st.conds:
        if c[0] == "cmp" and c[3] == C(0) and ((c[1] == "==" and truth) or (c[1] == "!=" and not truth)):
            t = c[2]
            if isinstance(t, tuple) and (t[0] == "sel" or (t[0] == "m0" and t[1][0] == "fld" and t[1][2] in ("left", "right")) or t[0] == "hv"):
                return True
    return False


def link_base(r):
    # number of link stores made by the pair swap of the two-children case is zero (it stores keys/values only)
    return 0


# generic robustness battery: renaming every local/parameter in these files must not change any verdict
RENAME_LOCALS = ['src/ptree-rb.c', 'src/ptree-avl.c']

SELFTEST = [
    dict(id="avl-replace-resets-factor", file="src/ptree-avl.c", expect="C13.4",
         old="\t\t(*cur_node)->key   = key;\n\t\t(*cur_node)->value = value;\n\n\t\treturn FALSE;", new="\t\t(*cur_node)->key   = key;\n\t\t(*cur_node)->value = value;\n\t\t((PTreeAVLNode *) *cur_node)->balance_factor = 0;\n\n\t\treturn FALSE;"),
    # ---- C13.4 entry conditions ----
    dict(id="rb-new-node-black", file="src/ptree-rb.c", expect="C13.4",
         old="\t((PTreeRBNode *) *cur_node)->color  = P_TREE_RB_COLOR_RED;", new="\t((PTreeRBNode *) *cur_node)->color  = P_TREE_RB_COLOR_BLACK;"),
    dict(id="rb-remove-child-not-repainted", file="src/ptree-rb.c", expect="C13.4",
         old="\t\tif (pp_tree_rb_is_black ((PTreeRBNode *) cur_node) == TRUE)\n\t\t\t\t((PTreeRBNode *) child_node)->color = P_TREE_RB_COLOR_BLACK;\n", new=""),
    dict(id="avl-new-node-factor-one", file="src/ptree-avl.c", expect="C13.4",
         old="\t((PTreeAVLNode *) *cur_node)->balance_factor = 0;", new="\t((PTreeAVLNode *) *cur_node)->balance_factor = 1;"),
    dict(id="avl-retrace-from-removed-node", file="src/ptree-avl.c", expect="C13.4",
         old="\t\tpp_tree_avl_balance_remove ((PTreeAVLNode *) child_node, root_node);", new="\t\tpp_tree_avl_balance_remove ((PTreeAVLNode *) cur_node, root_node);"),
    dict(id="avl-replace-runs-retrace", file="src/ptree-avl.c", expect="C13.4",
         old="\t\t(*cur_node)->key   = key;\n\t\t(*cur_node)->value = value;\n\n\t\treturn FALSE;",
         new="\t\t(*cur_node)->key   = key;\n\t\t(*cur_node)->value = value;\n\n\t\tpp_tree_avl_balance_insert (((PTreeAVLNode *) *cur_node), root_node);\n\n\t\treturn FALSE;"),
    dict(id="avl-transplanted-child-keeps-factor", file="src/ptree-avl.c", expect="C13.4",
         old="\t\t((PTreeAVLNode *) child_node)->parent = child_parent;\n", new="\t\t((PTreeAVLNode *) child_node)->parent = child_parent;\n\t\t((PTreeAVLNode *) child_node)->balance_factor = ((PTreeAVLNode *) cur_node)->balance_factor;\n"),
    dict(id="avl-transplanted-child-factor-zero-neutral", file="src/ptree-avl.c", expect=None,
         old="\t\t((PTreeAVLNode *) child_node)->parent = child_parent;\n", new="\t\t((PTreeAVLNode *) child_node)->parent = child_parent;\n\t\t((PTreeAVLNode *) child_node)->balance_factor = 0;\n"),
    dict(id="avl-factor-plain-char", file="src/ptree-avl.c", expect="C13.4",
         old="\tpint\t\t\tbalance_factor;", new="\tpchar\t\t\tbalance_factor;"),
    dict(id="avl-factor-unsigned", file="src/ptree-avl.c", expect="C13.4",
         old="\tpint\t\t\tbalance_factor;", new="\tpuint\t\t\tbalance_factor;"),
    dict(id="avl-factor-int8-neutral", file="src/ptree-avl.c", expect=None,
         old="\tpint\t\t\tbalance_factor;", new="\tpint8\t\t\tbalance_factor;"),
    # ---- C13.2 red-black fix-ups ----
    dict(id="rb-remove-fixup-stops-below-root", file="src/ptree-rb.c", expect="C13.2",
         old="\t\tif (P_UNLIKELY (node->parent == NULL))\n\t\t\tbreak;\n\n\t\tsibling = pp_tree_rb_get_sibling (node);",
         new="\t\tif (P_UNLIKELY (node->parent == NULL || node->parent->parent == NULL))\n\t\t\tbreak;\n\n\t\tsibling = pp_tree_rb_get_sibling (node);"),
    dict(id="rb-remove-case3-sibling-not-recoloured", file="src/ptree-rb.c", expect="C13.2",
         old="\t\t\tsibling->color = P_TREE_RB_COLOR_RED;\n\n\t\t\tif (pp_tree_rb_is_black (node->parent) == TRUE) {",
         new="\t\t\tif (pp_tree_rb_is_black (node->parent) == TRUE) {"),
    dict(id="rb-remove-case5-sibling-black", file="src/ptree-rb.c", expect="C13.2",
         old="\t\tsibling->color      = node->parent->color;", new="\t\tsibling->color      = P_TREE_RB_COLOR_BLACK;"),
    dict(id="rb-remove-case2-rotations-swapped", file="src/ptree-rb.c", expect="C13.2",
         old="\t\t\tif ((PTreeBaseNode *) node == node->parent->base.left)\n\t\t\t\tpp_tree_rb_rotate_left (node->parent, root);\n\t\t\telse\n\t\t\t\tpp_tree_rb_rotate_right (node->parent, root);\n\n\t\t\tsibling = pp_tree_rb_get_sibling (node);",
         new="\t\t\tif ((PTreeBaseNode *) node == node->parent->base.left)\n\t\t\t\tpp_tree_rb_rotate_right (node->parent, root);\n\t\t\telse\n\t\t\t\tpp_tree_rb_rotate_left (node->parent, root);\n\n\t\t\tsibling = pp_tree_rb_get_sibling (node);"),
    dict(id="rb-remove-case3-red-parent-continues", file="src/ptree-rb.c", expect="C13.2",
         old="\t\t\t\tnode->parent->color = P_TREE_RB_COLOR_BLACK;\n\t\t\t\tbreak;\n\t\t\t}", new="\t\t\t\tnode = node->parent;\n\t\t\t\tcontinue;\n\t\t\t}"),
    dict(id="rb-remove-case4-far-nephew-not-black", file="src/ptree-rb.c", expect="C13.2",
         old="\t\t\t((PTreeRBNode *) sibling->base.right)->color = P_TREE_RB_COLOR_BLACK;\n\t\t\tpp_tree_rb_rotate_left (node->parent, root);",
         new="\t\t\tpp_tree_rb_rotate_left (node->parent, root);"),
    dict(id="rb-insert-case3-uncle-not-black", file="src/ptree-rb.c", expect="C13.2",
         old="\t\t\tuncle->color        = P_TREE_RB_COLOR_BLACK;\n", new=""),
    dict(id="rb-insert-root-left-red", file="src/ptree-rb.c", expect="C13.2",
         old="\t\tif (P_UNLIKELY (node->parent == NULL)) {\n\t\t\tnode->color = P_TREE_RB_COLOR_BLACK;\n\t\t\tbreak;\n\t\t}", new="\t\tif (P_UNLIKELY (node->parent == NULL))\n\t\t\tbreak;"),
    dict(id="rb-insert-case3-gparent-not-red", file="src/ptree-rb.c", expect="C13.2",
         old="\t\t\tgparent->color      = P_TREE_RB_COLOR_RED;\n\n\t\t\t/* Continue iteratively from gparent */", new="\t\t\t/* Continue iteratively from gparent */"),
    dict(id="rb-insert-case4-inner-rotation-dropped", file="src/ptree-rb.c", expect="C13.2",
         old="\t\t\t\tpp_tree_rb_rotate_left (node->parent, root);\n\n\t\t\t\tnode = (PTreeRBNode *) node->base.left;\n", new=""),
    dict(id="rb-rotate-left-inner-parent-link", file="src/ptree-rb.c", expect="C13.2",
         old="\tif (tmp_node->left != NULL)\n\t\t((PTreeRBNode *) tmp_node->left)->parent = node;\n", new=""),
    dict(id="rb-rotate-root-not-updated", file="src/ptree-rb.c", expect="C13.2", count=2,
         old="\tif (P_UNLIKELY (((PTreeRBNode *) tmp_node)->parent == NULL))\n\t\t*root = tmp_node;\n", new=""),
    dict(id="rb-remove-case2-colour-order-neutral", file="src/ptree-rb.c", expect=None,
         old="\t\t\tnode->parent->color = P_TREE_RB_COLOR_RED;\n\t\t\tsibling->color      = P_TREE_RB_COLOR_BLACK;",
         new="\t\t\tsibling->color      = P_TREE_RB_COLOR_BLACK;\n\t\t\tnode->parent->color = P_TREE_RB_COLOR_RED;"),
    dict(id="rb-insert-parent-red-test-neutral", file="src/ptree-rb.c", expect=None,
         old="\t\tif (pp_tree_rb_is_black (node->parent) == TRUE)\n\t\t\tbreak;", new="\t\tif (pp_tree_rb_is_red (node->parent) == FALSE)\n\t\t\tbreak;"),
    dict(id="rb-remove-case5-rotate-before-recolour-neutral", file="src/ptree-rb.c", expect=None,
         old="\t\tif ((PTreeBaseNode *) node == node->parent->base.left) {\n\t\t\t((PTreeRBNode *) sibling->base.right)->color = P_TREE_RB_COLOR_BLACK;\n\t\t\tpp_tree_rb_rotate_left (node->parent, root);",
         new="\t\tif ((PTreeBaseNode *) node == node->parent->base.left) {\n\t\t\tpp_tree_rb_rotate_left (node->parent, root);\n\t\t\t((PTreeRBNode *) sibling->base.right)->color = P_TREE_RB_COLOR_BLACK;"),
    # ---- C13.3 AVL retracing ----
    dict(id="avl-rotate-left-factor-sign", file="src/ptree-avl.c", expect="C13.3",
         old="\t((PTreeAVLNode *) node)->balance_factor +=1;", new="\t((PTreeAVLNode *) node)->balance_factor -=1;"),
    dict(id="avl-double-rotation-factors-swapped", file="src/ptree-avl.c", expect="C13.3", count=2,
         old="\tif (tmp_node->balance_factor == 1) {\n\t\t((PTreeAVLNode *) tmp_node->base.left)->balance_factor  = 0;\n\t\t((PTreeAVLNode *) tmp_node->base.right)->balance_factor = -1;",
         new="\tif (tmp_node->balance_factor == 1) {\n\t\t((PTreeAVLNode *) tmp_node->base.left)->balance_factor  = -1;\n\t\t((PTreeAVLNode *) tmp_node->base.right)->balance_factor = 0;"),
    dict(id="avl-remove-continues-after-neutral-rotation", file="src/ptree-avl.c", expect="C13.3", count=2,
         old="\t\t\t\tif (sibling_balance == 0)\n\t\t\t\t\tbreak;\n", new=""),
    dict(id="avl-remove-always-stops-after-rotation", file="src/ptree-avl.c", expect="C13.3", count=2,
         old="\t\t\t\tif (sibling_balance == 0)\n\t\t\t\t\tbreak;\n", new="\t\t\t\tbreak;\n"),
    dict(id="avl-insert-absorbed-growth-continues", file="src/ptree-avl.c", expect="C13.3",
         old="\t\t\t\t/* Case 3: Increase parent balance factor */\n\t\t\t\tparent->balance_factor = 0;\n\t\t\t\tbreak;", new="\t\t\t\t/* Case 3: Increase parent balance factor */\n\t\t\t\tparent->balance_factor = 0;"),
    dict(id="avl-insert-case4-wrong-sign", file="src/ptree-avl.c", expect="C13.3",
         old="\t\t\t\t/* Case 4: Increase parent balance factor */\n\t\t\t\tparent->balance_factor = 1;", new="\t\t\t\t/* Case 4: Increase parent balance factor */\n\t\t\t\tparent->balance_factor = -1;"),
    dict(id="avl-insert-wrong-rotation-chosen", file="src/ptree-avl.c", expect="C13.3",
         old="\t\t\t\tif (node->balance_factor == -1)\n\t\t\t\t\t/* Case 1: Left-right rotate", new="\t\t\t\tif (node->balance_factor == 1)\n\t\t\t\t\t/* Case 1: Left-right rotate"),
    dict(id="avl-remove-case3-continues", file="src/ptree-avl.c", expect="C13.3",
         old="\t\t\t\t/* Case 3 */\n\t\t\t\tparent->balance_factor = -1;\n\t\t\t\tbreak;", new="\t\t\t\t/* Case 3 */\n\t\t\t\tparent->balance_factor = -1;"),
    dict(id="avl-remove-case4-stops", file="src/ptree-avl.c", expect="C13.3",
         old="\t\t\t} else\n\t\t\t\t/* Case 4 */\n\t\t\t\tparent->balance_factor = 0;\n\t\t} else {", new="\t\t\t} else {\n\t\t\t\t/* Case 4 */\n\t\t\t\tparent->balance_factor = 0;\n\t\t\t\tbreak;\n\t\t\t}\n\t\t} else {"),
    dict(id="avl-rotate-right-inner-parent-link", file="src/ptree-avl.c", expect="C13.3",
         old="\tif (node->base.right != NULL)\n\t\t((PTreeAVLNode *) node->base.right)->parent = (PTreeAVLNode *) node->parent;\n", new=""),
    dict(id="avl-rotate-left-root-not-updated", file="src/ptree-avl.c", expect="C13.3",
         old="\t\telse\n\t\t\tnode->parent->base.right = (PTreeBaseNode *) node;\n\t} else\n\t\t*root = (PTreeBaseNode *) node;\n\n\t/* Restore balance factor */\n\t((PTreeAVLNode *) node)->balance_factor +=1;",
         new="\t\telse\n\t\t\tnode->parent->base.right = (PTreeBaseNode *) node;\n\t}\n\n\t/* Restore balance factor */\n\t((PTreeAVLNode *) node)->balance_factor +=1;"),
    dict(id="avl-insert-step-up-via-local-neutral", file="src/ptree-avl.c", expect=None,
         old="\t\t\t\tparent->balance_factor = -1;\n\t\t}\n\n\t\tnode = node->parent;", new="\t\t\t\tparent->balance_factor = -1;\n\t\t}\n\n\t\tnode = parent;"),
    dict(id="rb-insert-no-balance", file="src/ptree-rb.c", expect="C13.1",
         old="\t/* Balance the tree */\n\tpp_tree_rb_balance_insert ((PTreeRBNode *) *cur_node, root_node);\n", new=""),
    dict(id="avl-insert-no-balance", file="src/ptree-avl.c", expect="C13.1",
         old="\t/* Balance the tree */\n\tpp_tree_avl_balance_insert (((PTreeAVLNode *) *cur_node), root_node);\n", new=""),
    dict(id="avl-remove-leaf-no-balance", file="src/ptree-avl.c", expect="C13.1",
         old="\tif (child_node == NULL)\n\t\tpp_tree_avl_balance_remove ((PTreeAVLNode *) cur_node, root_node);\n", new=""),
    dict(id="rb-remove-no-fixup", file="src/ptree-rb.c", expect="C13.1",
         old="\tif (child_node == NULL && pp_tree_rb_is_black ((PTreeRBNode *) cur_node) == TRUE)\n\t\tpp_tree_rb_balance_remove ((PTreeRBNode *) cur_node, root_node);\n", new=""),
    dict(id="rb-insert-parent-not-set", file="src/ptree-rb.c", expect="C13.1",
         old="\t((PTreeRBNode *) *cur_node)->parent = (PTreeRBNode *) parent_node;\n", new=""),
    dict(id="avl-insert-balance-before-link-neutral", file="src/ptree-avl.c", expect=None,
         old="\t((PTreeAVLNode *) *cur_node)->balance_factor = 0;\n\t((PTreeAVLNode *) *cur_node)->parent         = (PTreeAVLNode *) parent_node;",
         new="\t((PTreeAVLNode *) *cur_node)->parent         = (PTreeAVLNode *) parent_node;\n\t((PTreeAVLNode *) *cur_node)->balance_factor = 0;"),
]
