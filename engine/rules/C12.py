"""C12 Trees behave as a sorted map: structural clauses."""
from plint import guards, symx
from plint.flow import Flow
from plint.symx import C
from plint.ir import calls, strip_casts, cv, line, show, root_var, walk
from plint.units import AnalysisBroken
from rules.treecommon import TreeRun, VARIANTS, variant_roles, fnptr_name, tree_view


def fn_of_ref(e):
    e = strip_casts(e)
    if e is not None and e["k"] == "ref" and e.get("decl") == "func":
        return e["name"]
    return None


def descent_check(rep, fn, cmp_is, key_name, data_pred):
    """Orientation of every loop that calls the comparator."""
    cmp_calls = [(b, i, c) for (b, i, c) in fn.calls() if c.get("callee") is None and cmp_is(c)]
    if not cmp_calls:
        rep.ob("C12.2", fn, "descent", False, "%s never calls the comparator" % fn.name, fn.loc[0])
        return
    problems = []
    for (b, i, c) in cmp_calls:
        a = c["args"]
        a1 = strip_casts(a[1]) if len(a) > 1 else None
        okargs = len(a) >= 3 and root_var(a[0]) == key_name and strip_casts(a[0])["k"] == "ref" \
            and a1 is not None and a1["k"] == "member" and a1["field"] == "key" and data_pred(a[2])
        if not okargs:
            problems.append(("line %d: the comparator is called as (%s): expected (search key, node key, user data)" % (line(c), ", ".join(show(x) for x in a)), line(c)))
    loops = [body for (h, body) in fn.loops() if any(b.id in body for (b, i, c) in cmp_calls)]
    body = set().union(*loops) if loops else set()
    moves = {"left": 0, "right": 0}

    def on_stmt(st, b, i, stmt):
        if b.id in body:
            for n in walk(stmt):
                # every evaluated read of a child link inside the descent loop is a move (also when it is one arm of a
                # conditional expression, which the CFG evaluates in a block of its own)
                if n["k"] == "member" and n["field"] in ("left", "right") and n.get("rec", "").startswith("PTreeBaseNode"):
                    r = n
                    if True:
                        # what is known about the comparison result here?
                        def rel(op, st=st):
                            for (fk, fop, fv) in st:
                                if "(" in fk or fv != 0:
                                    continue
                                if fop == op:
                                    return True
                                if fop == op + "=" and any(f2 == fk and o2 == "!=" and v2 == 0 for (f2, o2, v2) in st):
                                    return True
                            return False
                        lt, gt = rel("<"), rel(">")
                        want = "left" if lt else ("right" if gt else None)
                        moves[r["field"]] += 1
                        if want is None:
                            problems.append(("line %d: the descent moves %s without the comparison result having been tested" % (line(n), r["field"]), line(n)))
                        elif want != r["field"]:
                            problems.append(("line %d: the descent goes %s when the search key compares %s the node key: lookups and updates disagree on the order" %
                                             (line(n), r["field"], "below" if lt else "above"), line(n)))
        return [guards.transfer(st, stmt)]
    Flow(fn, [guards.EMPTY], on_stmt, lambda st, b, to, on: guards.edge_assume(st, b, on)).run()
    if moves["left"] == 0 or moves["right"] == 0:
        problems.append(("the descent never moves %s" % ("left" if moves["left"] == 0 else "right"), fn.loc[0]))
    seen = set()
    for (m, ln) in problems:
        if (m, ln) not in seen:
            seen.add((m, ln))
            rep.ob("C12.2", fn, "descent", False, m, ln)
    if not problems:
        rep.ob("C12.2", fn, "descent", True, "comparator (search key, node key, data); < 0 goes left, > 0 goes right", fn.loc[0])


def field_of(e):
    e = strip_casts(e)
    if e is not None and e["k"] == "member":
        return e["field"]
    return None


def run(prog, rep):
    rep.rule("C12.1", "dispatch: every PTreeType enumerator has a case whose insert/remove/node_free triple comes from one variant unit; the range test covers exactly the enumerators")
    rep.rule("C12.2", "orientation agreement: every descent loop (lookup, three inserts, three removes) calls the comparator as (search key, node key, data) and goes left on < 0, right on > 0")
    rep.rule("C12.3", "result <=> structure: insert returns TRUE exactly on the paths that allocate a node and link it into the empty slot found, FALSE on replace and on allocation failure (nothing linked); remove returns TRUE exactly on paths that free one node, FALSE without any store")
    rep.rule("C12.4", "count: nnodes is incremented only when insert returned TRUE, decremented only when remove returned TRUE and once per node released by clear, which also resets the root")
    rep.rule("C12.5", "traversal restores the tree: every thread link is counted, every unthread uncounted, an early return requires the counter to be zero, the callback is not invoked once a stop was requested")
    tu = prog.unit("ptree.c")
    # ---- C12.1 ---------------------------------------------------------------------------
    nw = tu.fn("p_tree_new_full")
    enum = tu.enums.get("PTreeType_")
    if not enum:
        raise AnalysisBroken("enum PTreeType_ not found")
    # which functions are installed for which tree type: facts on the type parameter at every store into a *_func slot
    # (a switch, an if/else-if chain, in place or in a static helper - the inlined view covers all of them)
    tp = nw.param_names()[0]
    cases = {}
    home = {}
    for (un, tag) in VARIANTS:
        for f in prog.unit(un).functions.values():
            home[f.name] = un

    def on_slot(st, b, i, stmt):
        for n in walk(stmt):
            if n["k"] == "asg":
                l = strip_casts(n["l"])
                if l is not None and l["k"] == "member" and l["field"].endswith("_node_func"):
                    v = guards.lookup(st, tp)
                    if v is not None:
                        cases.setdefault(v, {})[l["field"]] = fn_of_ref(n["r"])
                    else:
                        row_stores.append((l["field"], n["r"]))
        return [guards.transfer(st, stmt)]
    row_stores = []
    Flow(nw, [guards.EMPTY], on_slot, lambda st, b, to, on: guards.edge_assume(st, b, on)).run()
    if not cases and row_stores:
        # table-driven form: the triple is copied from the row of a constant table selected by the (range-checked) type
        from plint.wiring import table_item
        for (name, val) in enum:
            for (fld, rhs) in row_stores:
                it = table_item(nw, tu, rhs, tp, val)
                if it is not None:
                    cases.setdefault(val, {})[fld] = fn_of_ref(it)
    if not cases:
        raise AnalysisBroken("p_tree_new_full: no store into the insert/remove/free slots under a known tree type")
    for (name, val) in enum:
        slots = cases.get(val)
        ok = slots is not None and set(slots) == {"insert_node_func", "remove_node_func", "free_node_func"} and \
            len(set(home.get(f) for f in slots.values())) == 1 and None not in [home.get(f) for f in slots.values()] and \
            slots["insert_node_func"].endswith("_insert") and slots["remove_node_func"].endswith("_remove") and slots["free_node_func"].endswith("_node_free")
        rep.ob("C12.1", nw, "case:" + name, ok, "%s: insert/remove/node_free from %s" % (name, home.get(slots["insert_node_func"])) if ok else
               "%s: dispatch triple is %s" % (name, slots), nw.loc[0])
    vals = [v for (n, v) in enum]
    got = []
    for b, i, s in nw.stmts():
        for n in walk(s):
            if n["k"] == "bin" and n["op"] in (">=", "<=", ">", "<") and cv(n["r"]) is not None and root_var(n["l"]) == nw.param_names()[0]:
                got.append((n["op"], cv(n["r"])))
    lo_, hi_ = min(vals), max(vals)
    okr = any(sorted(got) == sorted(f_) for f_ in ([(">=", lo_), ("<=", hi_)], [(">", lo_ - 1), ("<", hi_ + 1)], [("<", lo_), (">", hi_)], [("<=", lo_ - 1), (">=", hi_ + 1)]))
    rep.ob("C12.1", nw, "range", okr, "the type range test accepts exactly the enumerators" if okr else "range test %s vs enumerators %s" % (got, vals), nw.loc[0])
    # keys, values and the comparator's data are opaque to the library: a map holds *any* pointer, NULL included (a tree used as a
    # set stores NULL values).  In the public operations and in the variants' insert / remove functions a parameter of type
    # `void *` is handed on (call argument) or stored (right-hand side) - it is never tested, compared, negated or dereferenced,
    # so no key or value can veto an operation or steer it
    nopq = 0
    opq_fns = [tu.fn(n_, raw=True) for n_ in ("p_tree_insert", "p_tree_remove", "p_tree_lookup")]
    for (un, tag) in VARIANTS:
        for op_ in ("insert", "remove"):
            opq_fns.append(prog.unit(un).fn("p_tree_%s_%s" % (tag, op_), raw=True))
    for f_ in opq_fns:
        ps_ = [p_["name"] for p_ in f_.d.get("params", []) if (p_.get("ts") or "").replace("const ", "").strip() in ("ppointer", "pconstpointer", "void *", "const void *")]
        if not ps_:
            continue

        def is_p(e_, ps_=ps_):
            e_ = strip_casts(e_)
            return e_ is not None and e_["k"] == "ref" and e_.get("decl") == "param" and e_["name"] in ps_
        used = []
        for b_ in f_.blocks.values():
            if b_.cond is not None and is_p(b_.cond):
                used.append((b_.cond, "tested"))
        for (b_, i_, n_) in f_.nodes(elsewhere=True):
            k_ = n_["k"]
            if k_ == "bin" and (is_p(n_["l"]) or is_p(n_["r"])):
                used.append((n_, "an operand of `%s`" % n_["op"]))
            elif k_ == "un" and n_.get("op") in ("!", "*", "-", "~") and is_p(n_["e"]):
                used.append((n_, "an operand of `%s`" % n_["op"]))
            elif k_ == "member" and is_p(n_["base"]):
                used.append((n_, "dereferenced"))
            elif k_ == "idx" and (is_p(n_["base"]) or is_p(n_["i"])):
                used.append((n_, "subscripted"))
            elif k_ == "cond" and is_p(n_["c"]):
                used.append((n_, "tested"))
            elif k_ == "call" and n_.get("callee") == "__builtin_expect" and n_.get("args") and is_p(n_["args"][0]):
                used.append((n_, "tested"))
        nopq += 1
        rep.ob("C12.1", f_, "opaque", not used, "the user's pointers (%s) are only handed on or stored, never inspected" % ", ".join(ps_) if not used else
               "line %d: in `%s` a user pointer is %s: the map treats one key or value differently from the others (NULL is an ordinary value - a tree used as a set holds nothing else), so the operation "
               "is refused or steered by what the caller stores" % (line(used[0][0]), show(used[0][0])[:60], used[0][1]), used[0][0] if used else f_.loc[0])
    rep.floor("C12.1", 4 + 9)

    # ---- C12.2 ----------------------------------------------------------------------------
    lk = tu.fn("p_tree_lookup")
    descent_check(rep, lk, lambda c: fnptr_name(c) == "compare_func", lk.param_names()[1],
                  lambda a: strip_casts(a) is not None and strip_casts(a)["k"] == "member" and strip_casts(a)["field"] == "data")
    for (un, tag) in VARIANTS:
        u = prog.unit(un)
        for op, kidx in (("insert", 5), ("remove", 5)):
            fn = tree_view(u.fn("p_tree_%s_%s" % (tag, op)))
            ps = fn.param_names()
            descent_check(rep, fn, lambda c, ps=ps: fnptr_name(c) == ps[1], ps[kidx], lambda a, ps=ps: root_var(a) == ps[2])
    rep.floor("C12.2", 7)

    # ---- C12.3 ----------------------------------------------------------------------------
    for (un, tag) in VARIANTS:
        u = prog.unit(un)
        fn = u.fn("p_tree_%s_insert" % tag)
        r = TreeRun(fn, "insert", variant_roles(fn)).run()
        ok, msg, where = True, "", fn.loc[0]
        kinds = set()
        keyp, valp = ("p", fn.param_names()[5]), ("p", fn.param_names()[6])
        for (st, stmt, cur) in r.rets:
            al = st.tags.get("alloc")
            rv = st.ret
            if rv is None or rv[0] != "c":
                ok, msg, where = False, "line %d: insert returns %s" % (line(stmt), symx.show(rv)), line(stmt)
                continue
            if al is not None:
                kinds.add("new")
                linked = [p for p in st.tags.get("pstores", ()) if p[1] == al]
                keyed = [s for s in st.tags.get("stores", ()) if s[0] == ("fld", al, "key") and s[1] == keyp]
                valued = [s for s in st.tags.get("stores", ()) if s[0] == ("fld", al, "value") and s[1] == valp]
                if rv != C(1):
                    ok, msg, where = False, "line %d: a new node was allocated but insert returns FALSE (the node count is not incremented)" % line(stmt), line(stmt)
                if not linked:
                    ok, msg, where = False, "line %d: the new node is not linked into the slot found by the descent" % line(stmt), line(stmt)
                if not keyed or not valued:
                    ok, msg, where = False, "line %d: the new node does not receive the given key and value" % line(stmt), line(stmt)
            elif st.tags.get("alloc_failed"):
                kinds.add("nomem")
                if rv != C(0) or st.tags.get("nstores", 0) > 1:
                    ok, msg, where = False, "line %d: allocation failure path returns %s after %d stores" % (line(stmt), symx.show(rv), st.tags.get("nstores", 0)), line(stmt)
            else:
                kinds.add("replace")
                if rv != C(0):
                    ok, msg, where = False, "line %d: replacing an existing pair returns TRUE (the node count would grow although no key was added)" % line(stmt), line(stmt)
                X = st.tags.get("found")
                if X is not None:
                    for fld, newv in (("key", keyp), ("value", valp)):
                        mine = [s_ for s_ in st.tags.get("stores", ()) if s_[0] == ("fld", X, fld)]
                        if len(mine) != 1 or mine[0][1] != newv:
                            ok, msg, where = False, "line %d: inserting an equal key does not store the new %s into the found node: the map keeps the old %s of the pair" % (line(stmt), fld, fld), line(stmt)
        if not {"new", "replace"} <= kinds:
            ok, msg = False, msg or "insert lacks a %s path" % sorted({"new", "replace"} - kinds)
        rep.ob("C12.3", fn, "insert:result", ok, "TRUE exactly when a new node with the given pair is linked in; FALSE on replace and on allocation failure" if ok else msg, where)
        fn = u.fn("p_tree_%s_remove" % tag)
        r = TreeRun(fn, "remove", variant_roles(fn)).run()
        ok, msg, where = True, "", fn.loc[0]
        ntrue = 0
        for (st, stmt, cur) in r.rets:
            rv = st.ret
            nf = len(st.tags.get("freed", ()))
            if rv == C(1):
                ntrue += 1
                if nf != 1:
                    ok, msg, where = False, "line %d: remove returns TRUE on a path that frees %d nodes" % (line(stmt), nf), line(stmt)
                if st.tags.get("nlink", 0) < 1:
                    ok, msg, where = False, "line %d: remove returns TRUE without unlinking a node" % line(stmt), line(stmt)
            elif rv == C(0):
                if nf or st.tags.get("nstores", 0):
                    ok, msg, where = False, "line %d: remove returns FALSE after modifying the tree" % line(stmt), line(stmt)
                # not found: the descent ended on NULL, no comparison returned 0
            else:
                ok, msg, where = False, "line %d: remove returns %s" % (line(stmt), symx.show(rv)), line(stmt)
        rep.ob("C12.3", fn, "remove:result", ok and ntrue > 0, "TRUE exactly on paths that unlink and free one node; FALSE leaves the tree untouched" if ok and ntrue else (msg or "no successful path"), where)
    rep.floor("C12.3", 6)

    # ---- C12.4 ----------------------------------------------------------------------------
    for fname, slot, op in (("p_tree_insert", "insert_node_func", "inc"), ("p_tree_remove", "remove_node_func", "dec")):
        fn = tu.fn(fname)
        sites = []

        def on_stmt(st, b, i, stmt, sites=sites):
            for n in walk(stmt):
                if n["k"] == "un" and ("++" in n["op"] or "--" in n["op"]):
                    t = strip_casts(n["e"])
                    if t is not None and t["k"] == "member" and t["field"] == "nnodes":
                        sites.append((st, n))
                if n["k"] == "asg" and strip_casts(n["l"])["k"] == "member" and strip_casts(n["l"])["field"] == "nnodes":
                    sites.append((st, n))
            return [guards.transfer(st, stmt)]
        Flow(fn, [guards.EMPTY], on_stmt, lambda st, b, to, on: guards.edge_assume(st, b, on)).run()
        vc = [c for (b, i, c) in fn.calls() if c.get("callee") is None and fnptr_name(c) == slot]
        ok = len(vc) == 1 and len(sites) >= 1
        msg = ""
        for (f, n) in sites:
            want = "++" if op == "inc" else "--"
            if n["k"] != "un" or want not in n["op"]:
                ok, msg = False, "line %d: nnodes is changed by %s" % (line(n), show(n))
                continue
            ck = guards.key(vc[0]) if vc else "?"
            t = guards.lookup(f, ck) == 1 or any(fk == ck and fop == "!=" and fv == 0 for (fk, fop, fv) in f)
            if not t:
                ok, msg = False, "line %d: nnodes is %s on a path where the variant's %s did not return TRUE (replacing a pair or a failed allocation changes the count)" % (
                    line(n), "incremented" if op == "inc" else "decremented", slot.replace("_node_func", ""))
        rep.ob("C12.4", fn, "count", ok, "nnodes is %s exactly when the variant function returned TRUE" % ("incremented" if op == "inc" else "decremented") if ok else (msg or "count update missing"), fn.loc[0])
    cl = tu.fn("p_tree_clear")
    okc, msg = True, ""
    frees = [(b, i, c) for (b, i, c) in cl.calls() if c.get("callee") is None and fnptr_name(c) == "free_node_func"]
    decs = []
    for b, i, n in cl.nodes():
        if n["k"] == "un" and "--" in n["op"] and strip_casts(n["e"])["k"] == "member" and strip_casts(n["e"])["field"] == "nnodes":
            decs.append((b, i))
    if len(frees) != 1 or len(decs) != 1 or frees[0][0].id != decs[0][0].id:
        okc, msg = False, "clear does not decrement nnodes once per released node"
    rootreset = [n for (b, i, n) in cl.nodes() if n["k"] == "asg" and strip_casts(n["l"])["k"] == "member" and strip_casts(n["l"])["field"] == "root" and cv(n["r"]) == 0]
    if not rootreset:
        okc, msg = False, "clear does not reset the root"
    else:
        # after the loop
        rb = [b for (b, i, n) in cl.nodes() if n is rootreset[0]][0]
        if cl.in_loop(rb.id):
            okc, msg = False, "the root is reset inside the dismantling loop"
    rep.ob("C12.4", cl, "clear", okc, "clear decrements nnodes once per released node and resets the root afterwards" if okc else msg, cl.loc[0])
    rep.floor("C12.4", 3)

    # ---- C12.5 ----------------------------------------------------------------------------
    fe = tu.fn("p_tree_foreach")
    thread, unthread, cbs, rets = [], [], [], []
    counter = None
    stopvar = None
    for b, i, s in fe.stmts():
        for n in walk(s):
            if n["k"] == "asg":
                l = strip_casts(n["l"])
                if l is not None and l["k"] == "member" and l["field"] == "right":
                    if cv(n["r"]) == 0:
                        unthread.append((b, i, n))
                    else:
                        thread.append((b, i, n))
                r = strip_casts(n["r"])
                if r is not None and r["k"] == "call" and r.get("callee") is None and l is not None and l["k"] == "ref":
                    stopvar = l["name"]
    ok5, msg5 = True, ""
    if len(thread) != 1 or len(unthread) != 1:
        ok5, msg5 = False, "expected one thread store and one unthread store, found %d/%d" % (len(thread), len(unthread))
    else:
        def counter_in(block, ops):
            for s in block.stmts:
                for n in walk(s):
                    if n["k"] == "un" and any(o in n["op"] for o in ops) and strip_casts(n["e"])["k"] == "ref":
                        return strip_casts(n["e"])["name"]
            return None
        c1 = counter_in(thread[0][0], ("++",))
        c2 = counter_in(unthread[0][0], ("--",))
        if c1 is None or c1 != c2:
            ok5, msg5 = False, "thread links are not counted up and unthreads counted down on one counter (%s / %s)" % (c1, c2)
        counter = c1
    if ok5:
        events = []

        def on_stmt(st, b, i, stmt):
            for c in calls(stmt):
                if c.get("callee") is None:
                    # the variable that receives this callback's result is the stop flag as seen at this site (after inlining
                    # a visit helper it is that helper's copy of the flag, tested right before the call)
                    tgt = None
                    for n in walk(stmt):
                        if n["k"] == "asg" and any(x is c for x in calls(n["r"])) and strip_casts(n["l"])["k"] == "ref":
                            tgt = strip_casts(n["l"])["name"]
                    events.append(("cb", st, c, tgt))
            if stmt["k"] == "ret" and any(fe.dominates(h, b.id) for (h, body_) in fe.loops()):
                events.append(("ret", st, stmt, None))
            return [guards.transfer(st, stmt)]
        Flow(fe, [guards.EMPTY], on_stmt, lambda st, b, to, on: guards.edge_assume(st, b, on)).run()
        for (k, f, n, tgt) in events:
            if k == "ret":
                if guards.lookup(f, counter) != 0:
                    ok5, msg5 = False, "line %d: foreach returns inside the traversal without the thread counter known to be zero: thread links stay in the tree (a cycle)" % line(n)
            else:
                if tgt is None or guards.lookup(f, tgt) != 0:
                    ok5, msg5 = False, "line %d: the callback is invoked on a path where a stop request is not excluded" % line(n)
        if not any(k == "cb" for (k, f, n, tgt) in events):
            ok5, msg5 = False, "the callback is never invoked"
    # in-order direction: the predecessor search starts at the left child and follows right links;
    # after a visit the cursor moves right; the thread link is stored in a right link (checked above)
    okd, msgd = True, ""
    starts = [n for (b, i, n) in fe.nodes() if n["k"] == "asg" and strip_casts(n["l"])["k"] == "ref" and strip_casts(n["r"]) is not None
              and strip_casts(n["r"])["k"] == "member" and root_var(n["r"]) != root_var(n["l"])]
    pred_start = [n for n in starts if strip_casts(n["r"])["field"] == "left" and thread and root_var(n["l"]) == root_var(thread[0][2]["l"])]
    if not pred_start:
        okd, msgd = False, "the predecessor search does not start at the left child of the current node"
    walks = [n for (b, i, n) in fe.nodes() if n["k"] == "asg" and strip_casts(n["l"])["k"] == "ref" and strip_casts(n["r"]) is not None
             and strip_casts(n["r"])["k"] == "member" and root_var(n["r"]) == root_var(n["l"])]
    predv = root_var(thread[0][2]["l"]) if thread else None
    for n in walks:
        if root_var(n["l"]) == predv and strip_casts(n["r"])["field"] != "right":
            okd, msgd = False, "line %d: the predecessor search follows %s links" % (line(n), strip_casts(n["r"])["field"])
    # cursor moves: after a callback in the same block the cursor goes right
    for b in fe.blocks.values():
        has_cb = any(c.get("callee") is None for s_ in b.stmts for c in calls(s_))
    cur_moves = [n for n in walks if root_var(n["l"]) != predv]
    fields = sorted(set(strip_casts(n["r"])["field"] for n in cur_moves))
    if fields != ["left", "right"]:
        okd, msgd = False, msgd or "the traversal cursor moves only along %s" % fields
    # the cursor goes left exactly in the block that stores the thread link
    for n in cur_moves:
        blk = [b for (b, i, x) in fe.nodes() if x is n][0]
        in_thread_block = thread and blk.id == thread[0][0].id
        if strip_casts(n["r"])["field"] == "left" and not in_thread_block:
            okd, msgd = False, "line %d: the cursor descends left without threading the predecessor" % line(n)
        if strip_casts(n["r"])["field"] == "right" and in_thread_block:
            okd, msgd = False, "line %d: the cursor moves right in the block that threads the predecessor (pairs would be visited in descending order or skipped)" % line(n)
    rep.ob("C12.5", fe, "direction", okd, "in-order: predecessor = rightmost node of the left subtree; visit, then move right; descend left only after threading" if okd else msgd, fe.loc[0])
    if ok5 and counter is not None:
        # the counter can hold as many pending thread links as the tree can have nodes on one left spine: it is as wide as nnodes
        cdecl = [n for (b, i, n) in fe.nodes(elsewhere=True) if n["k"] == "decl" and n["name"] == counter]
        trec = tu.records.get("PTree_")
        nn = trec.field("nnodes") if trec is not None else None
        cw = tu.types[cdecl[0]["t"]].get("w") if cdecl else None
        nw_ = nn.get("bits") if nn else None
        if cw is None or nw_ is None:
            raise AnalysisBroken("p_tree_foreach: width of the thread counter or of nnodes not found")
        if cw < nw_:
            ok5, msg5 = False, ("line %d: the thread counter %s has %d bits, the node count %d: with more than %d thread links pending (an unbalanced tree's left spine) it wraps to zero, "
                                "an early stop returns with links still installed and the tree keeps a cycle" % (line(cdecl[0]), counter, cw, nw_, (1 << (cw - 1)) - 1))
    rep.ob("C12.5", fe, "threads", ok5, "thread/unthread are counted on %s; early return only with the counter zero; no callback after a stop request" % counter if ok5 else msg5, fe.loc[0])
    rep.floor("C12.5", 2)

    # ---- C12.6 link surgery ----------------------------------------------------------------------
    rep.rule("C12.6", "link surgery: a child link replaced under the test `parent->F == node` is parent->F on the true edge and the other link on the false edge; "
                      "the node substituted for a two-children node is reached by one step to one side and then steps to the other side until that link is NULL; "
                      "in the parent-linked variants the descent records the owner of every slot it steps into and the new node's parent link is that owner")
    nrel = npred = nown = 0
    for (un, tag) in VARIANTS:
        u = prog.unit(un)
        for fn in u.functions.values():
            # (a) relink side agreement
            for blk in fn.blocks.values():
                c = blk.cond
                if c is None or len(blk.succs) != 2:
                    continue
                cs = strip_casts(c)
                if cs is None or cs["k"] != "bin" or cs["op"] not in ("==", "!="):
                    continue
                side = None
                for opnd in (cs["l"], cs["r"]):
                    m = strip_casts(opnd)
                    if m is not None and m["k"] == "member" and m["field"] in ("left", "right"):
                        side = m
                if side is None:
                    continue
                base = guards.key(side["base"])
                firsts = {}
                for (to, on) in blk.succs:
                    for st_ in fn.blocks[to].stmts:
                        if st_["k"] == "asg":
                            l = strip_casts(st_["l"])
                            if l is not None and l["k"] == "member" and l["field"] in ("left", "right") and guards.key(l["base"]) == base:
                                firsts[on] = (l["field"], st_)
                            break
                if set(firsts) != {"true", "false"}:
                    continue
                nrel += 1
                eq_edge = "true" if cs["op"] == "==" else "false"
                other = "false" if eq_edge == "true" else "true"
                okr = firsts[eq_edge][0] == side["field"] and firsts[other][0] != side["field"]
                rep.ob("C12.6", fn, "relink:%d" % line(c), okr, "`%s` selects %s on the equal edge and the other link otherwise" % (show(c), side["field"]) if okr else
                       "line %d: under `%s` the equal edge stores into ->%s and the other edge into ->%s: the replacement is hung on the wrong side (the node is lost or a sibling subtree is overwritten)" % (
                           line(c), show(c), firsts[eq_edge][0], firsts[other][0]), firsts[eq_edge][1])
        # (b) predecessor / successor walk in remove
        fn = tree_view(u.fn("p_tree_%s_remove" % tag))
        loops = fn.loops()
        for hdr, body in loops:
            hb = fn.blocks[hdr]
            c = strip_casts(hb.cond) if hb.cond is not None else None
            if c is None or c["k"] != "bin" or c["op"] != "!=" or cv(c["r"]) != 0:
                continue
            m = strip_casts(c["l"])
            if m is None or m["k"] != "member" or m["field"] not in ("left", "right"):
                continue
            wv = root_var(m)
            steps = [n for (b, i, n) in fn.nodes() if b.id in body and n["k"] == "asg" and strip_casts(n["l"])["k"] == "ref" and strip_casts(n["l"])["name"] == wv]
            inits = [n for (b, i, n) in fn.nodes() if b.id not in body and n["k"] == "asg" and strip_casts(n["l"])["k"] == "ref" and strip_casts(n["l"])["name"] == wv
                     and field_of(n["r"]) in ("left", "right") and fn.pos_dominates((b.id, i), (hdr, 0))]
            if not steps or not inits:
                continue
            npred += 1
            sf = set(field_of(n["r"]) for n in steps)
            inf = field_of(inits[-1]["r"])
            okp = sf == {m["field"]} and inf in ("left", "right") and inf != m["field"] and all(root_var(n["r"]) == wv for n in steps)
            rep.ob("C12.6", fn, "neighbour-walk", okp, "the substitute is reached by one step %s and then %s steps until that link is NULL: the in-order neighbour" % (inf, m["field"]) if okp else
                   "line %d: the substitute for a two-children node starts with a step ->%s and walks ->%s while ->%s != NULL: that is not the in-order neighbour, the keys end up out of order" % (
                       line(c), inf, "/".join(sorted(x or "?" for x in sf)), m["field"]), c)
        # (c) slot owner bookkeeping in insert (variants with parent links)
        if tag != "bst":
            fn = tree_view(u.fn("p_tree_%s_insert" % tag))
            # steps into a child slot: `slot = &node->left`, also as the arms of `slot = (c < 0) ? &node->left : &node->right`
            takes = []
            for (b, i, n) in fn.stmts():
                if n["k"] != "asg":
                    continue
                for m_ in walk(n["r"], elsewhere=True):
                    if m_["k"] == "un" and m_.get("op") == "&" and field_of(m_["e"]) in ("left", "right"):
                        takes.append((b, i, n, m_))
            pstores = [n for (b, i, n) in fn.nodes() if n["k"] == "asg" and field_of(n["l"]) == "parent"]
            oko, msg = bool(takes) and len(pstores) == 1, "no slot step / parent store found"
            owner = None
            if oko:
                pv = strip_casts(pstores[0]["r"])
                owner = pv["name"] if pv is not None and pv["k"] == "ref" else None
                if owner is None:
                    oko, msg = False, "line %d: the new node's parent link is %s, not the recorded owner of the slot" % (line(pstores[0]), show(pstores[0]["r"]))
            if oko:
                owners = set(fn.copies_of(owner))
                grew_ = True
                while grew_:          # ... and the variables whose value is handed to it (`*parent = link_parent;` at the end of a helper)
                    grew_ = False
                    for (b_, i_, n_) in fn.nodes(elsewhere=True):
                        if n_["k"] == "asg" and n_["op"] == "=" and strip_casts(n_["l"]) is not None and strip_casts(n_["l"])["k"] == "ref" and strip_casts(n_["l"])["name"] in owners:
                            r_ = strip_casts(n_["r"])
                            if r_ is not None and r_["k"] == "ref" and r_.get("decl") == "local" and r_["name"] not in owners:
                                owners.add(r_["name"])
                                grew_ = True
                for (b, i, n, addr_) in takes:
                    slotv = root_var(n["l"])
                    inner = strip_casts(addr_["e"])           # member(left|right) of base
                    node_expr = guards.key(inner["base"])
                    # the latest store into the owner variable that every path to this step passes (same block before it, or a dominating block)
                    prev = [s_ for s_ in b.stmts[:i] if s_["k"] == "asg" and strip_casts(s_["l"])["k"] == "ref" and strip_casts(s_["l"])["name"] in owners]
                    if not prev:
                        doms = [(b2, i2, s_) for (b2, i2, s_) in fn.stmts() if s_["k"] == "asg" and strip_casts(s_["l"]) is not None and strip_casts(s_["l"])["k"] == "ref"
                                and strip_casts(s_["l"])["name"] in owners and b2.id != b.id and fn.dominates(b2.id, b.id) and any(b2.id in body and b.id in body for (h, body) in fn.loops())]
                        if doms:
                            last = doms[0]
                            for d_ in doms[1:]:
                                if fn.pos_dominates((last[0].id, last[1]), (d_[0].id, d_[1])):
                                    last = d_
                            prev = [last[2]]
                    if not prev or guards.key(prev[-1]["r"]) != node_expr:
                        oko, msg = False, "line %d: the descent steps into a child slot of %s without recording that node in %s: the new node's parent link will name another node" % (
                            line(n), node_expr, owner)
                # initial value: the owner variable starts as the root (or NULL) and the parent store uses it
                nown += 1
            rep.ob("C12.6", fn, "slot-owner", oko, "every step into a child slot records the slot's node in %s, which becomes the new node's parent" % owner if oko else msg, pstores[0] if pstores else fn.loc[0])
    rep.floor("C12.6", 3 + 3 + 2)


# objects are zero-filled at birth: the functions of these units rely on it for every field their constructors do not store
_run_clauses = run


def run(prog, rep):
    _run_clauses(prog, rep)
    from plint.wiring import check_zero_init
    check_zero_init(rep, "C12.4", prog, ['ptree.c'], 1)

# generic robustness battery: renaming every local/parameter in these files must not change any verdict
RENAME_LOCALS = ['src/ptree.c', 'src/ptree-bst.c', 'src/ptree-rb.c', 'src/ptree-avl.c']

SELFTEST = [
    dict(id="insert-refuses-null-value", file="src/ptree.c", expect="C12.1",
         old="\tpboolean result;\n\n\tif (P_UNLIKELY (tree == NULL))\n\t\treturn;\n", new="\tpboolean result;\n\n\tif (P_UNLIKELY (tree == NULL || value == NULL))\n\t\treturn;\n"),
    dict(id="lookup-refuses-null-key", file="src/ptree.c", expect="C12.1",
         old="\tif (P_UNLIKELY (tree == NULL))\n\t\treturn NULL;\n\n\tcur_node = tree->root;", new="\tif (P_UNLIKELY (tree == NULL || !key))\n\t\treturn NULL;\n\n\tcur_node = tree->root;"),
    dict(id="rb-pred-walks-left", file="src/ptree-rb.c", expect="C12.6",
         old="\t\twhile (prev_node->right != NULL)\n\t\t\tprev_node = prev_node->right;", new="\t\twhile (prev_node->left != NULL)\n\t\t\tprev_node = prev_node->left;"),
    dict(id="avl-pred-from-right", file="src/ptree-avl.c", expect="C12.6",
         old="\t\tprev_node = cur_node->left;\n\n\t\twhile (prev_node->right != NULL)\n\t\t\tprev_node = prev_node->right;", new="\t\tprev_node = cur_node->right;\n\n\t\twhile (prev_node->right != NULL)\n\t\t\tprev_node = prev_node->right;"),
    dict(id="rb-relink-sides-swapped", file="src/ptree-rb.c", expect="C12.6",
         old="\t\tif (child_parent->base.left == cur_node)\n\t\t\tchild_parent->base.left = child_node;\n\t\telse\n\t\t\tchild_parent->base.right = child_node;", new="\t\tif (child_parent->base.left == cur_node)\n\t\t\tchild_parent->base.right = child_node;\n\t\telse\n\t\t\tchild_parent->base.left = child_node;"),
    dict(id="rb-insert-parent-wrong", file="src/ptree-rb.c", expect="C12.6",
         old="\t((PTreeRBNode *) *cur_node)->parent = (PTreeRBNode *) parent_node;", new="\t((PTreeRBNode *) *cur_node)->parent = (PTreeRBNode *) *root_node;"),
    dict(id="avl-insert-owner-not-recorded", file="src/ptree-avl.c", expect="C12.6",
         old="\t\t} else if (cmp_result > 0) {\n\t\t\tparent_node = *cur_node;\n\t\t\tcur_node    = &(*cur_node)->right;", new="\t\t} else if (cmp_result > 0) {\n\t\t\tcur_node    = &(*cur_node)->right;"),
    dict(id="avl-successor-instead-of-predecessor-neutral", file="src/ptree-avl.c", expect=None,
         old="\t\tprev_node = cur_node->left;\n\n\t\twhile (prev_node->right != NULL)\n\t\t\tprev_node = prev_node->right;", new="\t\tprev_node = cur_node->right;\n\n\t\twhile (prev_node->left != NULL)\n\t\t\tprev_node = prev_node->left;"),
    dict(id="rb-relink-test-right-neutral", file="src/ptree-rb.c", expect=None,
         old="\t\tif (child_parent->base.left == cur_node)\n\t\t\tchild_parent->base.left = child_node;\n\t\telse\n\t\t\tchild_parent->base.right = child_node;", new="\t\tif (child_parent->base.right == cur_node)\n\t\t\tchild_parent->base.right = child_node;\n\t\telse\n\t\t\tchild_parent->base.left = child_node;"),
    dict(id="avl-remove-directions-swapped", file="src/ptree-avl.c", expect="C12.2",
         old="\t\tif (cmp_result < 0)\n\t\t\tcur_node = cur_node->left;\n\t\telse if (cmp_result > 0)\n\t\t\tcur_node = cur_node->right;",
         new="\t\tif (cmp_result < 0)\n\t\t\tcur_node = cur_node->right;\n\t\telse if (cmp_result > 0)\n\t\t\tcur_node = cur_node->left;"),
    dict(id="lookup-args-swapped", file="src/ptree.c", expect="C12.2",
         old="\t\tcmp_result = tree->compare_func (key, cur_node->key, tree->data);", new="\t\tcmp_result = tree->compare_func (cur_node->key, key, tree->data);"),
    dict(id="count-unconditional", file="src/ptree.c", expect="C12.4",
         old="\tif (result == TRUE)\n\t\t++tree->nnodes;", new="\t++tree->nnodes;"),
    dict(id="replace-returns-true", file="src/ptree-rb.c", expect="C12.3",
         old="\t\t(*cur_node)->key   = key;\n\t\t(*cur_node)->value = value;\n\n\t\treturn FALSE;", new="\t\t(*cur_node)->key   = key;\n\t\t(*cur_node)->value = value;\n\n\t\treturn TRUE;"),
    dict(id="remove-missing-returns-true", file="src/ptree-bst.c", expect="C12.3",
         old="\tif (P_UNLIKELY (cur_node == NULL))\n\t\treturn FALSE;", new="\tif (P_UNLIKELY (cur_node == NULL))\n\t\treturn TRUE;"),
    dict(id="foreach-thread-counter-8bit", file="src/ptree.c", expect="C12.5",
         old="\tpint\t\tmod_counter;", new="\tpint8\t\tmod_counter;"),
    dict(id="foreach-early-return-no-counter", file="src/ptree.c", expect="C12.5",
         old="\t\t\t\tif (need_stop == TRUE && mod_counter == 0)\n\t\t\t\t\treturn;", new="\t\t\t\tif (need_stop == TRUE)\n\t\t\t\t\treturn;"),
    dict(id="foreach-callback-after-stop", file="src/ptree.c", expect="C12.5",
         old="\t\t\tif (need_stop == FALSE)\n\t\t\t\tneed_stop = traverse_func (cur_node->key,\n\t\t\t\t\t\t\t   cur_node->value,\n\t\t\t\t\t\t\t   user_data);\n\n\t\t\tcur_node = cur_node->right;\n\t\t} else {",
         new="\t\t\tneed_stop = traverse_func (cur_node->key,\n\t\t\t\t\t\t   cur_node->value,\n\t\t\t\t\t\t   user_data);\n\n\t\t\tcur_node = cur_node->right;\n\t\t} else {"),
    dict(id="foreach-mirror", file="src/ptree.c", expect="C12.5", count=1,
         old="\t\t\tprev_node = cur_node->left;\n\n\t\t\twhile (prev_node->right != NULL && prev_node->right != cur_node)\n\t\t\t\tprev_node = prev_node->right;",
         new="\t\t\tprev_node = cur_node->left;\n\n\t\t\twhile (prev_node->right != NULL && prev_node->right != cur_node)\n\t\t\t\tprev_node = prev_node->left;"),
    dict(id="clear-forgets-count", file="src/ptree.c", expect="C12.4",
         old="\t\t\ttree->free_node_func (cur_node);\n\t\t\t--tree->nnodes;", new="\t\t\ttree->free_node_func (cur_node);"),
    dict(id="dispatch-mixed-variant", file="src/ptree.c", expect="C12.1",
         old="\t\tret->remove_node_func = p_tree_avl_remove;", new="\t\tret->remove_node_func = p_tree_rb_remove;"),
    dict(id="lookup-gt-first-neutral", file="src/ptree.c", expect=None,
         old="\t\tif (cmp_result < 0)\n\t\t\tcur_node = cur_node->left;\n\t\telse if (cmp_result > 0)\n\t\t\tcur_node = cur_node->right;\n\t\telse\n\t\t\treturn cur_node->value;",
         new="\t\tif (cmp_result > 0)\n\t\t\tcur_node = cur_node->right;\n\t\telse if (cmp_result == 0)\n\t\t\treturn cur_node->value;\n\t\telse\n\t\t\tcur_node = cur_node->left;"),
]
