"""C14 Tree ownership: each key/value destroyed exactly once, when it leaves the tree."""
from plint import symx, guards
from plint.flow import Flow
from plint.ir import root_var
from plint.symx import C, norm
from plint.ir import strip_casts, line, show, walk, calls
from plint.units import AnalysisBroken
from rules.treecommon import TreeRun, VARIANTS, variant_roles, fnptr_name


def content(st, node, field):
    loc = ("fld", node, field)
    return st.mem.get(loc, ("m0", loc))


def nodes_in_mem(st):
    out = set()
    for k in st.mem:
        if isinstance(k, tuple) and k[0] == "fld" and k[2] in ("key", "value"):
            out.add(k[1])
    return out


def notifier_known(st, run, role_name):
    """Truth of (notifier != NULL) on the path, for the callable bound to role kd/vd."""
    via = [k for k, v in run.roles.items() if v == role_name]
    if not via:
        return None
    return st.cond_known(("cmp", "!=", run.callable_term(st, via[0]), C(0)))


def run(prog, rep):
    rep.rule("C14.1", "pair identity at removal: on every successful removal path the key and the value of the node whose key compared equal are each passed to "
                      "their notifier exactly once, nothing still stored in a surviving node is passed to a notifier, exactly one node is freed")
    rep.rule("C14.2", "replace: on the equal-key path of insert the old key and value are passed to the notifiers before the new ones are stored, once each")
    rep.rule("C14.3", "clear/free: every node released by clear has its key and value passed to the notifiers first; free goes through clear")
    rep.rule("C14.4", "optional notifiers: every call through a destroy notifier is guarded by a non-NULL test of that notifier; no other code frees or writes through user keys and values")
    for (un, tag) in VARIANTS:
        u = prog.unit(un)
        # ---- remove ----------------------------------------------------------------------
        fn = u.fn("p_tree_%s_remove" % tag)
        r = TreeRun(fn, "remove", variant_roles(fn)).run()
        ok1, msg1, where1, path1 = True, "", fn.loc[0], None
        ok4, msg4 = True, ""
        nsucc = 0
        for (st, stmt, cur) in r.rets:
            kd, vd = st.tags.get("kd", ()), st.tags.get("vd", ())
            freed = st.tags.get("freed", ())
            for (arg, guarded, ln) in kd + vd:
                if not guarded:
                    ok4, msg4 = False, "line %d: a destroy notifier is called without a preceding non-NULL test of it" % ln
            if st.ret == C(0):
                if kd or vd or freed or st.tags.get("nstores", 0):
                    ok1, msg1, where1 = False, "line %d: the not-found path of remove destroys, frees or modifies something" % line(stmt), line(stmt)
                continue
            if st.ret != C(1):
                ok1, msg1, where1 = False, "line %d: remove returns %s" % (line(stmt), symx.show(st.ret)), line(stmt)
                continue
            nsucc += 1
            X = st.tags.get("found")
            if X is None:
                ok1, msg1, where1 = False, "line %d: a successful removal path never compared a node's key" % line(stmt), line(stmt)
                continue
            T = {"key": ("m0", ("fld", X, "key")), "value": ("m0", ("fld", X, "value"))}
            if len(freed) != 1:
                ok1, msg1, where1 = False, "line %d: a successful removal frees %d nodes" % (line(stmt), len(freed)), line(stmt)
                continue
            F = freed[0][0]
            for role, lst, fld in (("kd", kd, "key"), ("vd", vd, "value")):
                kn = notifier_known(st, r, role)
                if kn is not False:
                    if len(lst) != 1:
                        ok1, msg1, where1 = False, "line %d: with a %s notifier set, it is called %d times on a removal path" % (line(stmt), fld, len(lst)), line(stmt)
                    elif lst[0][0] != T[fld]:
                        ok1, where1 = False, lst[0][2]
                        msg1 = "line %d: the %s passed to the destroy notifier is %s, not the %s of the removed node (%s): the removed pair leaks" % (
                            lst[0][2], fld, symx.show(lst[0][0]), fld, symx.show(T[fld]))
                        path1 = r.sf.witness_lines(cur)
                elif kn is False and lst:
                    ok4, msg4 = False, "line %d: the %s notifier is called on a path where it is NULL" % (lst[0][2], fld)
                # nothing still stored in a surviving node may be destroyed
                for (arg, guarded, ln) in lst:
                    for Y in nodes_in_mem(st) | {X}:
                        if Y == F:
                            continue
                        if content(st, Y, fld) == arg:
                            ok1, where1 = False, ln
                            msg1 = "line %d: the %s handed to the destroy notifier is still stored in a node that stays in the tree (%s): it is destroyed while in use and again later" % (
                                ln, fld, symx.show(Y))
                            path1 = r.sf.witness_lines(cur)
                # the removed pair must not survive in another node
                for Y in nodes_in_mem(st) | {X}:
                    if Y != F and content(st, Y, fld) == T[fld]:
                        ok1, where1 = False, line(stmt)
                        msg1 = "line %d: the removed node's %s is still stored in surviving node %s after the removal" % (line(stmt), fld, symx.show(Y))
        rep.ob("C14.1", fn, "remove", ok1 and nsucc > 0,
               "%d successful removal state(s): removed key and value each go to their notifier once; nothing stored in a surviving node is destroyed; one node freed" % nsucc
               if ok1 and nsucc else (msg1 or "no successful removal path"), where1, path1)
        rep.ob("C14.4", fn, "guard", ok4, "every notifier call in remove is guarded by a non-NULL test" if ok4 else msg4, fn.loc[0])

        # ---- insert (replace path) -----------------------------------------------------------
        fn = u.fn("p_tree_%s_insert" % tag)
        r = TreeRun(fn, "insert", variant_roles(fn)).run()
        keyp, valp = ("p", fn.param_names()[5]), ("p", fn.param_names()[6])
        ok2, msg2, where2 = True, "", fn.loc[0]
        ok4, msg4 = True, ""
        nrep = 0
        for (st, stmt, cur) in r.rets:
            kd, vd = st.tags.get("kd", ()), st.tags.get("vd", ())
            for (arg, guarded, ln) in kd + vd:
                if not guarded:
                    ok4, msg4 = False, "line %d: a destroy notifier is called without a preceding non-NULL test of it" % ln
            if st.tags.get("alloc") is not None or st.tags.get("alloc_failed"):
                if kd or vd:
                    ok2, msg2, where2 = False, "line %d: a notifier runs on the path that adds a new pair" % line(stmt), line(stmt)
                continue
            X = st.tags.get("found")
            stores = [s for s in st.tags.get("stores", ()) if s[0][0] == "fld" and s[0][2] in ("key", "value")]
            if X is None:
                continue
            nrep += 1
            if not stores:
                ok2, msg2, where2 = False, "line %d: insert returns on the equal-key path without storing the new pair: the old key stays in the tree and is not handed to " \
                                           "its notifier at the replacing call, the caller's new key is neither stored nor destroyed" % line(stmt), line(stmt)
                continue
            for fld, role, lst, newv in (("key", "kd", kd, keyp), ("value", "vd", vd, valp)):
                old = ("m0", ("fld", X, fld))
                mine = [s for s in stores if s[0] == ("fld", X, fld)]
                if len(mine) != 1 or mine[0][1] != newv:
                    ok2, msg2, where2 = False, "line %d: the replace path does not store the new %s into the found node exactly once" % (line(stmt), fld), line(stmt)
                    continue
                kn = notifier_known(st, r, role)
                nbefore = mine[0][3] if role == "kd" else mine[0][4]
                if kn is not False:
                    if len(lst) != 1 or lst[0][0] != old:
                        ok2, msg2, where2 = False, "line %d: replacing a pair does not pass exactly the old %s to its notifier (calls: %s)" % (
                            line(stmt), fld, [symx.show(a[0]) for a in lst]), line(stmt)
                    elif nbefore < 1:
                        ok2, msg2, where2 = False, "line %d: the new %s is stored before the old one was handed to its notifier (the notifier then gets the new %s)" % (mine[0][2], fld, fld), mine[0][2]
        rep.ob("C14.2", fn, "replace", ok2 and nrep > 0, "%d replace state(s): old key and value go to the notifiers before the new pair is stored" % nrep if ok2 and nrep else
               (msg2 or "no replace path found"), where2)
        rep.ob("C14.4", fn, "guard", ok4, "every notifier call in insert is guarded by a non-NULL test" if ok4 else msg4, fn.loc[0])

        # ---- no other code touches user keys/values ------------------------------------------
        bad = []
        for f in u.functions.values():
            for b, i, c in f.calls():
                if c.get("callee") in ("p_free", "free"):
                    a = strip_casts(c["args"][0])
                    if a is not None and a["k"] == "member" and a["field"] in ("key", "value"):
                        bad.append((f, c))
            for b, i, n in f.nodes():
                if n["k"] == "asg":
                    l = strip_casts(n["l"])
                    if l is not None and l["k"] == "un" and l["op"] == "*":
                        inner = strip_casts(l["e"])
                        if inner is not None and inner["k"] == "member" and inner["field"] in ("key", "value"):
                            bad.append((f, n))
        rep.ob("C14.4", u.fn("p_tree_%s_insert" % tag), "no-free", not bad, "the variant never frees or writes through user keys/values itself" if not bad else
               "%s frees or writes through a user key/value at line %d" % (bad[0][0].name, line(bad[0][1])), bad[0][1] if bad else u.fn("p_tree_%s_insert" % tag).loc[0])
    # "... and never while the pair is still stored": the notifiers of a removal run after the node has left the tree.  On every
    # path of the three remove functions nothing is stored into a link, a root slot, a colour or a balance factor and no
    # balancing helper runs once the first notifier has been called - what follows a notifier is another notifier, the release
    # of the node and the return.  (A notifier may look the key up, walk the tree or remove a related pair: it must find the tree
    # without the pair and in a consistent shape.)
    from rules.treecommon import tree_view
    for (un, tag) in VARIANTS:
        u = prog.unit(un)
        fv = tree_view(u.fn("p_tree_%s_remove" % tag))
        notifs = set(p_ for (p_, r_) in variant_roles(fv).items() if r_ in ("kd", "vd"))        # by position, as everywhere in this module
        late = []

        def ns(st, b, i, stmt, late=late, notifs=notifs):
            facts, called = st
            if called:
                for n in walk(stmt):
                    if n["k"] == "asg":
                        l = strip_casts(n["l"])
                        if l is not None and (l["k"] == "member" or (l["k"] == "un" and l.get("op") == "*")):
                            late.append((line(n), "stores into %s" % show(l)))
                    elif n["k"] == "call" and n.get("callee") not in (None, "p_free", "__builtin_expect"):
                        late.append((line(n), "calls %s" % n.get("callee")))
            for n in walk(stmt):
                if n["k"] == "call" and n.get("callee") is None and n.get("fnptr") is not None and root_var(n["fnptr"]) in notifs:
                    called = True
            return [(guards.transfer(facts, stmt), called)]

        def ne(st, b, to, on):
            f2 = guards.edge_assume(st[0], b, on)
            return None if f2 is None else (f2, st[1])
        if notifs:
            Flow(fv, [(guards.EMPTY, False)], ns, ne, max_states=20000).run()
        rep.ob("C14.1", fv, "after-unlink", bool(notifs) and not late, "the removal's notifiers run after the last link, colour or factor store and after the re-balancing" if (notifs and not late) else
               ("line %d: remove %s after a destroy notifier was called: the notifier ran while the pair was still stored in the tree (a lookup from inside it finds the value being "
                "destroyed, a traversal visits it, a nested removal works on a half-unlinked node)" % late[0] if late else "no notifier parameter found"), late[0][0] if late else fv.loc[0])
    rep.floor("C14.1", 3 + 3)
    rep.floor("C14.2", 3)

    # ---- C14.3 clear / free ------------------------------------------------------------------------
    tu = prog.unit("ptree.c")
    cl = tu.fn("p_tree_clear")
    roles = {"key_destroy_func": "kd", "value_destroy_func": "vd", "free_node_func": "free_node"}
    r = TreeRun(cl, "clear", roles)
    probs = []
    nfree = [0]

    def on_widen(st, hdr):
        # obligations are per released node: check what was released in the iteration that just ended, then reset
        check(st)
        for k in ("kd", "vd", "freed", "stores", "pstores", "helpers", "nstores", "nlink"):
            st.tags.pop(k, None)

    def check(st):
        freed = st.tags.get("freed", ())
        for (Z, ln) in freed:
            nfree[0] += 1
            for role, fld in (("kd", "key"), ("vd", "value")):
                lst = st.tags.get(role, ())
                kn = notifier_known(st, r, role)
                want = ("m0", ("fld", Z, fld))
                got = [a for a in lst if a[0] == want]
                if kn is not False and len(got) != 1:
                    probs.append("line %d: a node is released by clear without its %s having gone to the %s notifier exactly once" % (ln, fld, fld))
                if kn is not True and lst and not all(a[1] for a in lst):
                    probs.append("line %d: a notifier is called without a non-NULL test" % lst[0][2])
    r.sf.on_widen = on_widen
    r.run()
    for (st, stmt, cur) in r.rets:
        check(st)
    rep.ob("C14.3", cl, "clear", not probs and nfree[0] > 0,
           "every node released by clear first hands its key and value to the (non-NULL) notifiers" if not probs and nfree[0] else (probs[0] if probs else "clear releases no node"), cl.loc[0])
    fr = tu.fn("p_tree_free")
    cs = [c.get("callee") for (b, i, c) in fr.calls()]
    okf = cs[:1] == ["p_tree_clear"] and "p_free" in cs
    if not okf and "p_free" in cs and "p_tree_clear" not in cs:
        # free shares the dismantling loop with clear instead of calling it: the same obligations, on free itself
        r2 = TreeRun(fr, "clear", roles)
        probs2, n2 = [], [0]

        def check2(st):
            for (Z, ln) in st.tags.get("freed", ()):
                n2[0] += 1
                for role, fld in (("kd", "key"), ("vd", "value")):
                    lst = st.tags.get(role, ())
                    kn = notifier_known(st, r2, role)
                    if kn is not False and len([a for a in lst if a[0] == ("m0", ("fld", Z, fld))]) != 1:
                        probs2.append(ln)
                    if kn is not True and lst and not all(a[1] for a in lst):
                        probs2.append(ln)

        def on_widen2(st, hdr):
            check2(st)
            for k in ("kd", "vd", "freed", "stores", "pstores", "helpers", "nstores", "nlink"):
                st.tags.pop(k, None)
        r2.sf.on_widen = on_widen2
        r2.run()
        for (st, stmt, cur) in r2.rets:
            check2(st)
        okf = not probs2 and n2[0] > 0
    rep.ob("C14.3", fr, "free", okf, "p_tree_free clears the tree (destroying every pair) before releasing it" if okf else "p_tree_free does not clear the tree first (calls %s)" % cs, fr.loc[0])
    # notifiers are forwarded unchanged to the variant functions
    for fname, role in (("p_tree_insert", "insert_node_func"), ("p_tree_remove", "remove_node_func")):
        f = tu.fn(fname)
        okw = False
        for b, i, c in f.calls():
            if c.get("callee") is None and fnptr_name(c) == role:
                a = [strip_casts(x) for x in c["args"]]
                okw = len(a) >= 5 and a[3] is not None and a[3]["k"] == "member" and a[3]["field"] == "key_destroy_func" \
                    and a[4] is not None and a[4]["k"] == "member" and a[4]["field"] == "value_destroy_func"
        rep.ob("C14.3", f, "forward", okw, "%s forwards the tree's key and value notifiers in this order" % fname if okw else
               "%s does not forward key_destroy_func/value_destroy_func in the right positions" % fname, f.loc[0])
    rep.floor("C14.3", 4)
    rep.floor("C14.4", 9)
    # ---- C14.5: what the notifiers receive is read from a live node --------------------------------
    rep.rule("C14.5", "live node: in the tree units no path reads a node (its key and value for the notifiers, its links) or releases it again after the node "
                      "was handed to p_free - the notifiers must receive what the node held, not what the allocator left in the released block")
    from plint import uaf
    rel = uaf.releasers_for(prog)
    n5 = 0
    for un in ("ptree.c", "ptree-bst.c", "ptree-rb.c", "ptree-avl.c"):
        tu = prog.unit(un)
        for fn in sorted(tu.functions.values(), key=lambda f: f.loc[0]):
            slot_rel = [c for (b, i, c) in fn.calls() if c.get("callee") is None and fnptr_name(c) == "free_node_func"]
            if not any(c.get("callee") in rel for (b, i, c) in fn.calls()) and not slot_rel:
                continue
            n5 += 1
            fchk, relx = fn, rel
            if slot_rel:
                # the node goes back through the tree's free_node slot: the same release as a direct p_free (a private copy of the
                # function with the slot call named, so the release typestate sees it)
                import copy
                from plint.ir import Function
                fchk = Function(copy.deepcopy(fn.raw.d if hasattr(fn, "raw") else fn.d), tu)
                for (b, i, c) in fchk.calls():
                    if c.get("callee") is None and fnptr_name(c) == "free_node_func":
                        c["callee"] = "__free_node_slot"
                relx = dict(rel)
                relx["__free_node_slot"] = 0
            ps = uaf.check_function(fchk, relx)
            if ps:
                k, pth, ln, w, at = ps[0]
                rep.ob("C14.5", fn, "live", False, "line %d: %s %s after the node was released at line %s: with an allocator that reuses or scrubs freed blocks the "
                       "notifier receives a pointer that was never stored and the removed pair is never destroyed" % (
                           ln, pth, {"use": "is read", "double": "is released again", "pass": "is passed to a call", "return": "is returned"}[k], at), ln, w)
            else:
                rep.ob("C14.5", fn, "live", True, "nothing of a node is touched after its release", fn.loc[0])
    rep.floor("C14.5", 5)


# generic robustness battery: renaming every local/parameter in these files must not change any verdict
RENAME_LOCALS = ['src/ptree.c', 'src/ptree-bst.c', 'src/ptree-rb.c', 'src/ptree-avl.c']

SELFTEST = [
    dict(id="clear-frees-node-before-value-notifier", file="src/ptree.c", expect="C14.5", count=1,
         old="\t\t\tif (tree->value_destroy_func != NULL)\n\t\t\t\ttree->value_destroy_func (cur_node->value);\n\n\t\t\ttree->free_node_func (cur_node);\n\t\t\t--tree->nnodes;",
         new="\t\t\ttree->free_node_func (cur_node);\n\t\t\t--tree->nnodes;\n\n\t\t\tif (tree->value_destroy_func != NULL)\n\t\t\t\ttree->value_destroy_func (cur_node->value);"),
    dict(id="bst-node-freed-before-notifiers", expect="C14.5", edits=[
        dict(file="src/ptree-bst.c", old="\t*node_pointer = cur_node->left == NULL ? cur_node->right : cur_node->left;\n", new="\t*node_pointer = cur_node->left == NULL ? cur_node->right : cur_node->left;\n\tp_free (cur_node);\n"),
        dict(file="src/ptree-bst.c", old="\t\tvalue_destroy_func (cur_node->value);\n\n\tp_free (cur_node);\n\n\treturn TRUE;", new="\t\tvalue_destroy_func (cur_node->value);\n\n\treturn TRUE;")]),
    dict(id="bst-copy-without-swap", file="src/ptree-bst.c", expect="C14.1",
         old="\t\tprev_node->key   = tmp_key;\n\t\tprev_node->value = tmp_value;\n", new=""),
    dict(id="rb-destroy-both-pairs", file="src/ptree-rb.c", expect="C14.1",
         old="\t\tprev_node->key   = tmp_key;\n\t\tprev_node->value = tmp_value;\n",
         new="\t\tprev_node->key   = tmp_key;\n\t\tprev_node->value = tmp_value;\n\n\t\tif (key_destroy_func != NULL)\n\t\t\tkey_destroy_func (cur_node->key);\n"),
    dict(id="avl-swap-value-only", file="src/ptree-avl.c", expect="C14.1",
         old="\t\tprev_node->key   = tmp_key;\n\t\tprev_node->value = tmp_value;\n", new="\t\tprev_node->value = tmp_value;\n"),
    dict(id="bst-replace-assign-before-destroy", file="src/ptree-bst.c", expect="C14.2",
         old="\t\tif (key_destroy_func != NULL)\n\t\t\tkey_destroy_func ((*cur_node)->key);\n\n\t\tif (value_destroy_func != NULL)\n\t\t\tvalue_destroy_func ((*cur_node)->value);\n\n\t\t(*cur_node)->key   = key;\n\t\t(*cur_node)->value = value;",
         new="\t\t(*cur_node)->key   = key;\n\n\t\tif (key_destroy_func != NULL)\n\t\t\tkey_destroy_func ((*cur_node)->key);\n\n\t\tif (value_destroy_func != NULL)\n\t\t\tvalue_destroy_func ((*cur_node)->value);\n\n\t\t(*cur_node)->value = value;"),
    dict(id="rb-replace-keeps-old-key", file="src/ptree-rb.c", expect="C14.2",
         old="\t\t(*cur_node)->key   = key;\n\t\t(*cur_node)->value = value;\n\n\t\treturn FALSE;", new="\t\t(*cur_node)->value = value;\n\n\t\treturn FALSE;"),
    dict(id="bst-replace-skipped-for-same-value", file="src/ptree-bst.c", expect="C14.2",
         old="\t} else {\n\t\tif (key_destroy_func != NULL)\n\t\t\tkey_destroy_func ((*cur_node)->key);",
         new="\t} else {\n\t\tif ((*cur_node)->value == value)\n\t\t\treturn FALSE;\n\n\t\tif (key_destroy_func != NULL)\n\t\t\tkey_destroy_func ((*cur_node)->key);"),
    dict(id="avl-destroy-without-null-test", file="src/ptree-avl.c", expect="C14.4", count=1,
         old="\tif (key_destroy_func != NULL)\n\t\tkey_destroy_func (cur_node->key);", new="\tkey_destroy_func (cur_node->key);"),
    dict(id="clear-skips-value", file="src/ptree.c", expect="C14.3",
         old="\t\t\tif (tree->value_destroy_func != NULL)\n\t\t\t\ttree->value_destroy_func (cur_node->value);\n\n\t\t\ttree->free_node_func (cur_node);",
         new="\t\t\ttree->free_node_func (cur_node);"),
    dict(id="free-without-clear", file="src/ptree.c", expect="C14.3",
         old="\tp_tree_clear (tree);\n\tp_free (tree);", new="\tp_free (tree);"),
    dict(id="insert-notifiers-swapped", file="src/ptree.c", expect="C14.3",
         old="\t\t\t\t\t tree->key_destroy_func,\n\t\t\t\t\t tree->value_destroy_func,\n\t\t\t\t\t key,\n\t\t\t\t\t value);",
         new="\t\t\t\t\t tree->value_destroy_func,\n\t\t\t\t\t tree->key_destroy_func,\n\t\t\t\t\t key,\n\t\t\t\t\t value);"),
    dict(id="bst-destroy-before-unlink", file="src/ptree-bst.c", expect="C14.1",
         old="\t*node_pointer = cur_node->left == NULL ? cur_node->right : cur_node->left;\n\n\tif (key_destroy_func != NULL)\n\t\tkey_destroy_func (cur_node->key);\n\n\tif (value_destroy_func != NULL)\n\t\tvalue_destroy_func (cur_node->value);\n",
         new="\tif (key_destroy_func != NULL)\n\t\tkey_destroy_func (cur_node->key);\n\n\tif (value_destroy_func != NULL)\n\t\tvalue_destroy_func (cur_node->value);\n\n\t*node_pointer = cur_node->left == NULL ? cur_node->right : cur_node->left;\n"),
    dict(id="avl-left-only-via-predecessor-neutral", file="src/ptree-avl.c", expect=None,
         old="\tif (cur_node->left != NULL && cur_node->right != NULL) {\n\t\tprev_node = cur_node->left;", new="\tif (cur_node->left != NULL) {\n\t\tprev_node = cur_node->left;"),
]
