"""C07 Shared memory (POSIX model): structural clauses."""
from plint import guards
from plint.flow import Flow
from plint.ir import calls, strip_casts, cv, line, show, root_var, walk, ap
from plint.units import AnalysisBroken
from plint.wiring import wrapper_paths, check_wrapper

O_CREAT, O_EXCL = 0o100, 0o200
MAP_SHARED, MAP_PRIVATE = 1, 2
PROT_READ, PROT_WRITE = 1, 2
EEXIST = 17


def field_of(e):
    e = strip_casts(e)
    if e is not None and e["k"] == "member":
        return e["field"]
    return None


def run(prog, rep):
    rep.rule("C07.1", "mapping parameters: MAP_SHARED, offset 0, the descriptor returned by shm_open of platform_key, length = the handle's size field; protection follows perms")
    rep.rule("C07.2", "creator/follower split: ftruncate only after the exclusive create succeeded; on the EEXIST path the size always comes from fstat of that descriptor; shm_created only for the creator or take_ownership; shm_unlink only when owner")
    rep.rule("C07.3", "descriptor discipline: the shm_open descriptor is closed exactly once on every path out of the create function")
    rep.rule("C07.4", "lock wiring: lock semaphore opened on the same platform key with value 1, CREATE iff this handle created the segment; lock/unlock -> acquire/release of shm->sem; take_ownership forwards")
    rep.rule("C07.5", "mapping length frozen: the field munmap uses as length equals the mmap length and is not changed between the mapping and the unmapping")
    u = prog.unit("pshm-posix.c")
    ch = u.fn("pp_shm_create_handle").inlined()
    cl = u.fn("pp_shm_clean_handle").inlined()
    sp = ch.param_names()[0]
    KEY = "%s->platform_key" % sp
    mmaps = [(b, i, c) for (b, i, c) in ch.calls() if c.get("callee") == "mmap"]
    if len(mmaps) != 1:
        raise AnalysisBroken("pp_shm_create_handle: expected one mmap call")
    mb, mi, mc = mmaps[0]
    size_field = field_of(mc["args"][1])
    if size_field is None:
        raise AnalysisBroken("mmap length is not a field of the handle")
    SIZEK = "%s->%s" % (sp, size_field)

    P = []
    seen = {"trunc": 0, "fstat_size": 0, "mmap_exists": 0, "mmap_creator": 0, "sem_open": 0, "sem_create": 0, "owner": 0}

    def on_stmt(st, b, i, stmt):
        facts, fdst, role, size_src, fdvar = st
        # fdst: none|open|closed ; role: unknown|creator|exists ; size_src: arg|fstat
        for c in calls(stmt):
            cn = c.get("callee")
            if cn == "shm_open":
                fl = guards.eval_const(c["args"][1], facts)
                if guards.key(c["args"][0]) != KEY:
                    P.append(("C07.1", "name", "shm_open names %s, not %s" % (show(c["args"][0]), KEY), line(c), None))
                if fl is None:
                    P.append(("C07.2", "open:flags", "shm_open flags are not constant", line(c), None))
                elif not (fl & O_CREAT and fl & O_EXCL) and role != "exists":
                    P.append(("C07.2", "open:first", "the first shm_open is not an exclusive create: creator and follower cannot be told apart", line(c), flow.witness_lines(*flow.cur)))
                elif (fl & O_CREAT) and role == "exists":
                    P.append(("C07.2", "open:follower", "the follower re-open passes O_CREAT", line(c), flow.witness_lines(*flow.cur)))
            elif cn == "ftruncate":
                seen["trunc"] += 1
                if role != "creator":
                    P.append(("C07.2", "ftruncate", "ftruncate is reached on a path where this handle did not create the segment (role %s): a follower resizes the shared segment" % role,
                              line(c), flow.witness_lines(*flow.cur)))
                if root_var(c["args"][0]) != fdvar:
                    P.append(("C07.2", "ftruncate:fd", "ftruncate on %s, not the opened descriptor" % show(c["args"][0]), line(c), None))
                if guards.key(c["args"][1]) != SIZEK:
                    P.append(("C07.2", "ftruncate:size", "ftruncate to %s, not %s" % (show(c["args"][1]), SIZEK), line(c), None))
            elif cn == "fstat":
                if root_var(c["args"][0]) != fdvar:
                    P.append(("C07.2", "fstat:fd", "fstat on %s, not the opened descriptor" % show(c["args"][0]), line(c), None))
            elif cn == "mmap":
                if role == "exists":
                    seen["mmap_exists"] += 1
                    if size_src != "fstat":
                        P.append(("C07.2", "size:follower", "the segment already exists but the mapped length on this path is the caller's size argument, not the size "
                                  "reported by fstat: bytes beyond the real segment are mapped (SIGBUS) or handles disagree on the size", line(c), flow.witness_lines(*flow.cur)))
                elif role == "creator":
                    seen["mmap_creator"] += 1
                    if size_src != "arg":
                        P.append(("C07.2", "size:creator", "the creator does not map the size it asked for", line(c), flow.witness_lines(*flow.cur)))
                else:
                    P.append(("C07.2", "role", "mmap on a path where it is not known whether the segment was created or found", line(c), flow.witness_lines(*flow.cur)))
                fl = guards.eval_const(c["args"][3], facts)
                if fl is None or not (fl & MAP_SHARED) or (fl & MAP_PRIVATE):
                    P.append(("C07.1", "mmap:flags", "mmap flags are %s: the mapping is not MAP_SHARED, stores are invisible to other handles" % fl, line(c), None))
                if guards.eval_const(c["args"][5], facts) != 0:
                    P.append(("C07.1", "mmap:offset", "mmap offset is not 0", line(c), None))
                if root_var(c["args"][4]) != fdvar or fdst != "open":
                    P.append(("C07.1", "mmap:fd", "mmap is not given the open shm descriptor (%s, state %s)" % (show(c["args"][4]), fdst), line(c), None))
                prot = guards.eval_const(c["args"][2], facts)
                ro = guards.lookup(facts, "%s->perms" % sp) == 0
                if prot is not None:
                    if ro and prot != PROT_READ:
                        P.append(("C07.1", "mmap:prot", "read-only handle mapped with protection %s" % prot, line(c), None))
                    if not ro and prot != (PROT_READ | PROT_WRITE):
                        P.append(("C07.1", "mmap:prot", "read-write handle mapped with protection %s" % prot, line(c), None))
                else:
                    P.append(("C07.1", "mmap:prot", "the protection is not a constant on this path", line(c), flow.witness_lines(*flow.cur)))
            elif cn in ("p_sys_close", "close"):
                if root_var(c["args"][0]) == fdvar:
                    if fdst == "closed":
                        P.append(("C07.3", "fd:double", "the shm descriptor is closed twice on a path", line(c), flow.witness_lines(*flow.cur)))
                    elif fdst != "open":
                        P.append(("C07.3", "fd:invalid", "close of a descriptor that is not open", line(c), flow.witness_lines(*flow.cur)))
                    fdst = "closed"
            elif cn == cl.name:
                # unwinding on a failure exit: a segment this call created must be removed again
                if role == "creator" and guards.lookup(facts, "%s->shm_created" % sp) != 1:
                    P.append(("C07.2", "owner:late", "a failure exit after the exclusive create unwinds with shm_created not yet set: the freshly created name stays in the system "
                              "and nobody owns it (later creators find a zero-sized segment)", line(c), flow.witness_lines(*flow.cur)))
            elif cn == "p_semaphore_new":
                seen["sem_open"] += 1
                if guards.key(c["args"][0]) != KEY:
                    P.append(("C07.4", "sem:name", "the lock semaphore is opened on %s, not on the segment's platform key" % show(c["args"][0]), line(c), None))
                if guards.eval_const(c["args"][1], facts) != 1:
                    P.append(("C07.4", "sem:value", "the lock semaphore's initial value is %s, not 1" % show(c["args"][1]), line(c), None))
                mode = guards.eval_const(c["args"][2], facts)
                want = 1 if role == "creator" else 0
                if mode == 1:
                    seen["sem_create"] += 1
                if mode != want:
                    P.append(("C07.4", "sem:mode", "the lock semaphore is opened in mode %s on the %s path (expected %s)" %
                              (mode, role, "CREATE" if want else "OPEN"), line(c), flow.witness_lines(*flow.cur)))
        for n in walk(stmt):
            if n["k"] == "asg":
                l = strip_casts(n["l"])
                if l is not None and l["k"] == "member" and root_var(l) == sp:
                    if l["field"] == size_field:
                        r = strip_casts(n["r"])
                        for _hop in range(4):           # `off_t existing = st.st_size; psize sz = (psize) existing; shm->size = sz;`
                            if r is not None and r["k"] == "ref" and r.get("decl") == "local" and ch.resolve(r) is not None:
                                r = strip_casts(ch.resolve(r))
                        if r is not None and r["k"] == "member" and r["field"] == "st_size":
                            size_src = "fstat"
                            seen["fstat_size"] += 1
                        elif r is not None and r["k"] == "ref" and r.get("decl") == "param":
                            size_src = "arg"              # the requested size handed down as a parameter
                        else:
                            size_src = "other"
                    if l["field"] == "shm_created" and cv(n["r"]) != 0:
                        seen["owner"] += 1
                        if role != "creator":
                            P.append(("C07.2", "owner", "shm_created is set on a path where the exclusive create did not succeed", line(n), flow.witness_lines(*flow.cur)))
                # the descriptor variable
                if n["op"] == "=" and any(x.get("callee") == "shm_open" for x in calls(n["r"])):
                    fdvar = root_var(n["l"])
                elif n["op"] == "=" and fdvar is not None and strip_casts(n["l"])["k"] == "ref" and strip_casts(n["r"]) is not None \
                        and strip_casts(n["r"])["k"] == "ref" and strip_casts(n["r"])["name"] == fdvar:
                    fdvar = strip_casts(n["l"])["name"]          # the descriptor is handed on (`return fd;` of a helper, `fd = opened;`)
        facts2 = guards.transfer(facts, stmt, stable=("p_error_get_last_system()",))
        if stmt["k"] == "ret":
            if fdst == "open":
                P.append(("C07.3", "fd:leak", "a path returns with the shm descriptor still open", line(stmt), flow.witness_lines(*flow.cur)))
        return [(facts2, fdst, role, size_src, fdvar)]

    def on_edge(st, b, to, on):
        facts, fdst, role, size_src, fdvar = st
        f2 = guards.edge_assume(facts, b, on)
        if f2 is None:
            return None
        if fdvar is not None:
            v = guards.lookup(f2, fdvar)
            valid = any(fk == fdvar and fop == "!=" and fv == -1 for (fk, fop, fv) in f2)
            if v == -1:
                if fdst in ("none", "open") and role == "unknown" and guards.lookup(f2, "p_error_get_last_system()") == EEXIST:
                    role = "exists"
                if fdst == "open":
                    fdst = "none"
            elif valid and fdst == "none":
                fdst = "open"
                if role == "unknown":
                    role = "creator"
        return (f2, fdst, role, size_src, fdvar)

    flow = Flow(ch, [(guards.EMPTY, "none", "unknown", "arg", None)], on_stmt, on_edge)
    flow.run()
    done = set()
    by_rule = {}
    for (rule, site, msg, ln, path) in P:
        if (rule, site, ln) in done:
            continue
        done.add((rule, site, ln))
        by_rule.setdefault(rule, 0)
        by_rule[rule] += 1
        rep.ob(rule, ch, site, False, msg, ln, path)
    if "C07.1" not in by_rule:
        rep.ob("C07.1", ch, "mmap", True, "mmap (NULL, %s, prot by perms, MAP_SHARED, <shm_open descriptor>, 0)" % SIZEK, mc)
    if "C07.2" not in by_rule:
        ok = seen["trunc"] > 0 and seen["fstat_size"] > 0 and seen["mmap_exists"] > 0 and seen["mmap_creator"] > 0 and seen["owner"] > 0
        rep.ob("C07.2", ch, "split", ok, "creator: ftruncate to the requested size, owner flag set; follower: size taken from fstat on every path to the mapping"
               if ok else "create path incomplete: %s" % seen, ch.loc[0])
    if "C07.3" not in by_rule:
        rep.ob("C07.3", ch, "fd", True, "the descriptor is closed exactly once on every path after a successful shm_open", ch.loc[0])
    if "C07.4" not in by_rule:
        rep.ob("C07.4", ch, "sem", seen["sem_open"] > 0 and seen["sem_create"] > 0,
               "lock semaphore: platform key, value 1, CREATE for the creator and OPEN for followers", ch.loc[0])

    # clean-up: unlink only when owner
    csp = cl.param_names()[0]
    unl = []

    def cs(st, b, i, stmt):
        for c in calls(stmt):
            if c.get("callee") == "shm_unlink":
                unl.append((st, c))
        return [guards.transfer(st, stmt)]
    Flow(cl, [guards.EMPTY], cs, lambda st, b, to, on: guards.edge_assume(st, b, on)).run()
    oku = bool(unl) and all(guards.lookup(f, "%s->shm_created" % csp) == 1 or any(fk == "%s->shm_created" % csp and fop == "!=" and fv == 0 for (fk, fop, fv) in f)
                            for (f, c) in unl) and all(guards.key(c["args"][0]) == "%s->platform_key" % csp for (f, c) in unl)
    rep.ob("C07.2", cl, "unlink", oku, "shm_unlink (platform_key) is reached only with shm_created true" if oku else
           "shm_unlink is missing, names another key, or is not guarded by ownership", cl.loc[0])
    writers = set()
    for f in u.roots():                    # a static helper only ever called by the create path belongs to the create path
        for b, i, n in f.nodes():
            if n["k"] == "asg":
                l = strip_casts(n["l"])
                if l is not None and l["k"] == "member" and l["field"] == "shm_created" and cv(n["r"]) != 0:
                    creator = any(c.get("callee") == "shm_open" and (cv(c["args"][1]) or 0) & 0o300 == 0o300 for (b2, i2, c) in f.calls())
                    writers.add("the creation path" if creator else f.name)
    okw = writers == {"the creation path", "p_shm_take_ownership"}
    rep.ob("C07.2", ch, "owner:writers", okw, "shm_created is set only by the creator path and take_ownership" if okw else "shm_created is set in %s" % sorted(writers), ch.loc[0])
    rep.floor("C07.2", 3)

    # C07.4 lock wrappers
    for fname, native in (("p_shm_lock", "p_semaphore_acquire"), ("p_shm_unlock", "p_semaphore_release")):
        fn = u.fn(fname).inlined()

        def h(arg, f):
            return (guards.key(arg) == "%s->sem" % f.param_names()[0], "not the handle's own semaphore")
        check_wrapper(rep, "C07.4", fn, native, handle=h, success=("==", 1), failure=("==", 0))
        other = [c for (b, i, c) in fn.calls() if c.get("callee") in ("p_semaphore_acquire", "p_semaphore_release") and c.get("callee") != native]
        rep.ob("C07.4", fn, "wire:only", not other, "only %s is called" % native if not other else "%s also calls %s" % (fname, other[0].get("callee")), fn.loc[0])
    to = u.fn("p_shm_take_ownership").inlined()
    fw = [c for (b, i, c) in to.calls() if c.get("callee") == "p_semaphore_take_ownership" and guards.key(c["args"][0]) == "%s->sem" % to.param_names()[0]]
    rep.ob("C07.4", to, "take_ownership", len(fw) == 1 and "p_shm_take_ownership" in writers,
           "take_ownership marks the segment and forwards to the lock semaphore" if len(fw) == 1 else "take_ownership does not forward to the lock semaphore", to.loc[0])
    rep.floor("C07.4", 8)

    # C07.5 frozen mapping length
    mun = [(f, c) for f in u.functions.values() for (b, i, c) in f.calls() if c.get("callee") == "munmap"]
    if len(mun) != 1:
        raise AnalysisBroken("expected exactly one munmap call in pshm-posix.c")
    mf, mu = mun[0]
    lf = field_of(mu["args"][1])
    af = field_of(mu["args"][0])
    okl = lf is not None and af == field_of_asg_target(ch, mc)
    problems5 = []
    if lf is None:
        problems5.append(("munmap length is %s, not a field of the handle" % show(mu["args"][1]), line(mu)))
    for f in u.functions.values():
        for b, i, n in f.nodes():
            if n["k"] != "asg":
                continue
            l = strip_casts(n["l"])
            if l is None or l["k"] != "member" or l["field"] != lf or l.get("rec") != "PShm_":
                continue
            if f.name == ch.name:
                if lf == size_field:
                    # stores to the size before the mapping are the size computation itself
                    if ch.pos_dominates((mb.id, mi), (b.id, i)) and cv(n["r"]) != 0:
                        problems5.append(("the mapped length field is changed after the mapping", line(n)))
                else:
                    # must copy the mmap length, after the mapping, with that field unchanged in between
                    if guards.key(n["r"]) != SIZEK or not ch.pos_dominates((mb.id, mi), (b.id, i)):
                        problems5.append(("%s->%s is set to %s, not to the mapped length %s after the mapping" % (sp, lf, show(n["r"]), SIZEK), line(n)))
                    for b2, i2, n2 in ch.nodes():
                        if n2["k"] == "asg" and field_of(n2["l"]) == size_field and ch.pos_dominates((mb.id, mi), (b2.id, i2)) and ch.pos_dominates((b2.id, i2), (b.id, i)):
                            problems5.append(("%s changes between the mapping and the copy into %s" % (SIZEK, lf), line(n2)))
            elif f.name == cl.name:
                if cv(n["r"]) != 0:
                    problems5.append(("clean-up stores %s into the mapped length" % show(n["r"]), line(n)))
            else:
                # any other function: only before the handle is created (i.e. before the call of the create function)
                cc = [(b3, i3) for (b3, i3, c3) in f.calls() if c3.get("callee") == ch.name]
                before = cc and all(f.pos_dominates((b.id, i), (b3, i3)) if False else f.pos_dominates((b.id, i), (b3.id, i3)) for (b3, i3) in cc)
                if not before:
                    problems5.append(("%s changes %s->%s after the segment was mapped: munmap will use a length different from the mapped one "
                                      "(part of the mapping stays mapped after p_shm_free)" % (f.name, sp, lf), line(n)))
    # with a separate length field there must be a copy in the create function
    if lf is not None and lf != size_field:
        copies = [n for (b, i, n) in ch.nodes() if n["k"] == "asg" and field_of(n["l"]) == lf and guards.key(n["r"]) == SIZEK]
        if not copies:
            problems5.append(("the length field %s used by munmap is never set from the mapped length" % lf, line(mu)))
    for (msg, ln) in problems5:
        rep.ob("C07.5", mf, "maplen", False, msg, ln)
    if not problems5:
        rep.ob("C07.5", mf, "maplen", True, "munmap (%s, %s): the length field holds the mapped length and no store changes it while the mapping exists" %
               (show(mu["args"][0]), show(mu["args"][1])), mu)
    rep.floor("C07.5", 1)
    rep.floor("C07.1", 1)
    rep.floor("C07.3", 1)
    sysv(prog, rep)


IPC_CREAT, IPC_EXCL, IPC_RMID, IPC_STAT = 0o1000, 0o2000, 0, 2


def sysv(prog, rep):
    """The System V model (pshm-sysv.c; not selectable in the Linux build, analysed with the flags of the POSIX unit)."""
    rep.rule("C07.6", "System V model: the segment is created exclusively first with the handle's size and otherwise opened without creating and with size 0; the size "
                      "every handle reports is the kernel's (shm_segsz); the lock semaphore is opened on the same key with value 1, CREATE exactly when this handle "
                      "created the segment; the segment is removed only when no attachment is left")
    u = prog.units.get("pshm-sysv.c")
    if u is None:
        raise AnalysisBroken("pshm-sysv.c was not analysed")
    # helpers inlined, except the clean-up role (the static function that detaches): its resets are not part of the protocol
    cl_ = set(f.name for f in u.functions.values() if any(c.get("callee") == "shmdt" for (b, i, c) in f.calls()))
    grew = True
    while grew:          # ... or reaches it through another static helper
        grew = False
        for f in u.functions.values():
            if f.name not in cl_ and f.static and any(c.get("callee") in cl_ for (b, i, c) in f.calls()):
                cl_.add(f.name)
                grew = True
    cleaners = tuple(sorted(n for n in cl_ if u.functions[n].static))
    ch = u.fn("pp_shm_create_handle", raw=True).inlined(skip=cleaners)
    sp = ch.param_names()[0]
    probs = []
    seen = {"excl": 0, "fallback": 0, "size": 0, "sem": 0}

    def on_stmt(st, b, i, stmt):
        facts, gets, created = st
        for c in calls(stmt):
            cn = c.get("callee")
            if cn == "shmget":
                fl = guards.eval_const(c["args"][2], facts)
                if fl is None:
                    # permission bits chosen by a flag: evaluate the flag part structurally
                    bits = [cv(n) for n in walk(c["args"][2]) if n["k"] in ("int", "ref") and cv(n) is not None]
                    fl = 0
                    for x in bits:
                        if x in (IPC_CREAT, IPC_EXCL, IPC_CREAT | IPC_EXCL):
                            fl |= x
                if gets == 0:
                    seen["excl"] += 1
                    if (fl & (IPC_CREAT | IPC_EXCL)) != (IPC_CREAT | IPC_EXCL):
                        probs.append("line %d: the first shmget is not an exclusive create: the handle cannot know whether it created the segment" % line(c))
                    if guards.key(c["args"][1]) != "%s->size" % sp:
                        probs.append("line %d: the segment is created with size %s, not the size asked for" % (line(c), show(c["args"][1])))
                else:
                    seen["fallback"] += 1
                    if fl & IPC_CREAT:
                        probs.append("line %d: the fallback shmget may create the segment" % line(c))
                    if cv(c["args"][1]) != 0:
                        probs.append("line %d: an existing segment is opened with size %s instead of 0: a follower asking for more than the segment holds fails, or the sizes disagree" % (line(c), show(c["args"][1])))
                gets += 1
            if cn == "p_semaphore_new":
                seen["sem"] += 1
                if guards.key(c["args"][0]) != "%s->platform_key" % sp or guards.eval_const(c["args"][1], facts) != 1:
                    probs.append("line %d: the lock semaphore is not opened on the segment's key with value 1" % line(c))
                mode = guards.eval_const(c["args"][2], facts)
                created = gets == 1          # the call is reached with a valid handle: it is the creator's iff no fallback lookup was needed
                if mode is None or (mode == 1) != (created is True):
                    probs.append("line %d: the lock semaphore is opened in %s mode on a path where this handle %s the segment: %s" % (
                        line(c), {0: "OPEN", 1: "CREATE"}.get(mode, "an unknown"), "created" if created else "did not create",
                        "a follower re-creates (resets) the lock others hold" if not created else "the creator attaches to a stale lock left by a crash"))
        for n in walk(stmt):
            if n["k"] == "asg":
                l = strip_casts(n["l"])
                if l is not None and l["k"] == "member" and l["field"] == "size" and root_var(l) == sp and gets > 0:
                    seen["size"] += 1
                    r = strip_casts(n["r"])
                    # (the clamp "report no more than the caller asked for" - a store that can only lower the size - is p_shm_new's
                    # business in both back ends and is judged by C08.4, wherever a refactoring puts it)
                    clamp = any(fk == "(%s->size>%s)" % (sp, guards.key(n["r"])) and ((fop == "==" and fv == 1) or (fop == "!=" and fv == 0)) for (fk, fop, fv) in facts)
                    if not (r is not None and r["k"] == "member" and r["field"] == "shm_segsz") and not clamp:
                        probs.append("line %d: the reported size is %s, not the size the kernel reports for the segment (shm_segsz)" % (line(n), show(n["r"])))
        return [(guards.transfer(facts, stmt, kill_calls=False), gets, created)]

    def on_edge(st, b, to, on):
        f2 = guards.edge_assume(st[0], b, on)
        if f2 is None:
            return None
        facts, gets, created = st
        if gets == 1 and created is None:
            hk = "%s->shm_hdl" % sp
            if any(fk == hk and fop == "!=" and fv == -1 for (fk, fop, fv) in f2):
                created = True
            elif guards.lookup(f2, hk) == -1:
                created = False
        return (f2, gets, created)
    Flow(ch, [(guards.EMPTY, 0, None)], on_stmt, on_edge).run()
    okc = not probs and seen["excl"] >= 1 and seen["fallback"] >= 1 and seen["size"] >= 1 and seen["sem"] >= 1
    rep.ob("C07.6", ch, "create", okc, "exclusive create with the requested size, plain open with size 0 otherwise, size from shm_segsz, lock CREATE iff creator" if okc else
           (probs[0] if probs else "creation protocol not recognised (%s)" % seen), ch.loc[0])
    cl = u.fn("pp_shm_clean_handle")
    rm = []
    nat = []

    def on_stmt2(st, b, i, stmt):
        for c in calls(stmt):
            if c.get("callee") == "shmctl" and cv(c["args"][1]) == IPC_RMID:
                rm.append(c)
                if not any("shm_nattch" in fk and ((fop == "==" and fv == 0) or (fk.endswith("==0)") and fop == "==" and fv == 1)) for (fk, fop, fv) in st):
                    nat.append(line(c))
        return [guards.transfer(st, stmt, kill_calls=False)]
    Flow(cl, [guards.EMPTY], on_stmt2, lambda st, b, to, on: guards.edge_assume(st, b, on)).run()
    okr = bool(rm) and not nat
    rep.ob("C07.6", cl, "remove:last", okr, "the segment is removed only with shm_nattch known 0 (no handle is left attached)" if okr else
           ("line %d: the segment is removed while other handles may still be attached: later openers of the name get a fresh segment" % nat[0] if nat else "no IPC_RMID found"), cl.loc[0])
    for fname, callee in (("p_shm_lock", "p_semaphore_acquire"), ("p_shm_unlock", "p_semaphore_release")):
        f = u.fn(fname)
        cs = [c for (b, i, c) in f.calls() if c.get("callee") in ("p_semaphore_acquire", "p_semaphore_release")]
        okw = len(cs) == 1 and cs[0]["callee"] == callee and guards.key(cs[0]["args"][0]) == "%s->sem" % f.param_names()[0]
        rep.ob("C07.6", f, "lock:wiring", okw, "%s -> %s (shm->sem)" % (fname, callee) if okw else "%s does not call %s on shm->sem exactly once" % (fname, callee), f.loc[0])
    # 0 is a valid segment id: the handle is invalid only when it is -1
    from plint.wiring import id_validity_tests
    nid, badid = id_validity_tests(u, "shm_hdl")
    anchor = badid[0][0] if badid else sorted(u.functions.values(), key=lambda f_: f_.loc[0])[0]
    rep.ob("C07.6", anchor, "id:validity", nid >= 1 and not badid, "%d test(s) of shm_hdl separate exactly the failure value -1 from the valid ids" % nid if (nid >= 1 and not badid) else
           ("line %d: %s treats a valid segment id as no handle (`%s`)" % (line(badid[0][1]), badid[0][0].name, badid[0][2]) if badid else "no validity test of shm_hdl found"),
           badid[0][1] if badid else anchor.loc[0])
    rep.floor("C07.6", 5)


def field_of_asg_target(fn, call):
    for b, i, s in fn.stmts():
        for n in walk(s):
            if n["k"] == "asg" and any(x is call for x in calls(n["r"])):
                return field_of(n["l"])
    return None


# objects are zero-filled at birth: the functions of these units rely on it for every field their constructors do not store
_run_clauses = run


def run(prog, rep):
    _run_clauses(prog, rep)
    from plint.wiring import check_zero_init, check_error_contract
    # the size taken from fstat reaches the handle at full width: no conversion narrower than the size field between st_size and the
    # store (a 32-bit cast reports a segment of 4 GiB + 8 KiB as 8 KiB to every follower, while its creator sees all of it)
    _su = prog.unit("pshm-posix.c")
    _nar = []
    _nst = 0

    def _defs(f_, name):
        out = []
        for (b_, i_, n_) in f_.nodes(elsewhere=True):
            if n_["k"] == "asg" and n_.get("op") == "=" and strip_casts(n_["l"]) is not None and strip_casts(n_["l"])["k"] == "ref" and strip_casts(n_["l"])["name"] == name:
                out.append(n_["r"])
            elif n_["k"] == "decl" and n_.get("name") == name and n_.get("init") is not None:
                out.append(n_["init"])
        return out

    def _chain(f_, e_, hops=5, seen=None):
        """every node of e_ and of every definition of the locals it reads (with those locals' own types): `existing = st.st_size`,
        a helper's `return (psize) st.st_size` (a temporary of the folded-in view with one definition per return)"""
        seen = set() if seen is None else seen
        for x in walk(e_):
            yield x
            if x["k"] == "ref" and x.get("decl") == "local" and hops > 0 and x["name"] not in seen:
                seen.add(x["name"])
                ds = _defs(f_, x["name"])
                if ds:
                    yield {"k": "cast", "_local": x}
                for r_ in ds:
                    for y in _chain(f_, r_, hops - 1, seen):
                        yield y
    _done = set()
    for _f in _su.roots():
        for (_b, _i, _n) in _f.nodes(elsewhere=True):
            if not (_n["k"] == "asg" and strip_casts(_n["l"])["k"] == "member" and strip_casts(_n["l"])["field"] == "size"):
                continue
            if line(_n) in _done:
                continue
            _nodes = list(_chain(_f, _n["r"]))
            if any(x["k"] == "member" and x.get("field") == "st_size" for x in _nodes):
                _done.add(line(_n))
                _nst += 1
                _tw = (_su.type_of(strip_casts(_n["l"])) or {}).get("w") or 64
                for x in _nodes:
                    if x["k"] == "cast":
                        _t = _su.type_of(x["_local"]) if "_local" in x else _su.type_of(x)
                        if _t and _t.get("k") == "int" and _t.get("w") and _t["w"] < _tw:
                            _nar.append((_n, _t.get("s")))
    if _nst < 1:
        raise AnalysisBroken("pshm-posix.c: no store of st_size (directly or through locals) into the size field found")
    rep.ob("C07.2", _su.fn("pp_shm_create_handle"), "fstat:width", _nst >= 1 and not _nar, "the size of an existing segment is taken from st_size at full width" if (_nst >= 1 and not _nar) else
           ("line %d: st_size passes through %s on its way into the handle's size: a segment of 4 GiB or more is reported and mapped modulo 2^32 by every follower" % (line(_nar[0][0]), _nar[0][1])
            if _nar else "the store of st_size into the size field was not found"), _nar[0][0] if _nar else _su.fn("pp_shm_create_handle").loc[0])
    from plint.wiring import result_tests
    _ru = prog.unit("pshm-posix.c")
    _nrt, _brt = result_tests(_ru)
    if _nrt < 2:
        raise AnalysisBroken("result tests: only %d comparisons of system call results found in %s" % (_nrt, _ru.name))
    rep.ob("C07.3", _brt[0][0] if _brt else sorted(_ru.functions.values(), key=lambda f_: f_.loc[0])[0], "result-tests", not _brt,
           "%d tests of system call results put 0 (or a valid descriptor) on the success side" % _nrt if not _brt else
           ("line %d: `%s` in %s counts a successful call as failed (or descriptor 0 as no descriptor): what the call did in the kernel is not recorded in the object, or a valid "
            "descriptor is dropped" % (line(_brt[0][1]), _brt[0][2], _brt[0][0].name) if _brt else "fewer result tests than expected (%d)" % _nrt), _brt[0][1] if _brt else _ru.functions[sorted(_ru.functions)[0]].loc[0])
    check_error_contract(rep, "C07.2", prog, ['pshm-posix.c', 'pshm-sysv.c'], 15)
    check_zero_init(rep, "C07.2", prog, ['pshm-posix.c', 'pshm-sysv.c'], 1)
    from plint.wiring import clean_covers_create
    for (_un, _rule, _cr, _cl) in [('pshm-posix.c', 'C07.2', 'pp_shm_create_handle', 'pp_shm_clean_handle'), ('pshm-sysv.c', 'C07.6', 'pp_shm_create_handle', 'pp_shm_clean_handle')]:
        _u = prog.units.get(_un)
        if _u is None:
            continue
        _nf, _miss = clean_covers_create(_u, _cr, _cl)
        if _nf < 1:
            raise AnalysisBroken("%s: %s stores no field of the handle" % (_un, _cr))
        rep.ob(_rule, _u.fn(_cl, raw=True), "clean:covers-create", not _miss,
               "%s resets each of the %d fields %s stores" % (_cl, _nf, _cr) if not _miss else
               "%s no longer resets %s, which %s stores and tests: the recovery path (clean-up, then create again on the same object) finds the old value - "
               "a handle that once owned the object re-initialises the shared state it merely re-joined and removes it at free" % (_cl, ", ".join(_miss), _cr), _u.fn(_cl, raw=True).loc[0])

# generic robustness battery: renaming every local/parameter in these files must not change any verdict
RENAME_LOCALS = ['src/pshm-posix.c']

SELFTEST = [
    dict(id="follower-size-through-typed-locals-neutral", file="src/pshm-posix.c", expect=None,
         old="\t\tshm->size = (psize) stat_buf.st_size;",
         new="\t\t{\n\t\t\toff_t existing = stat_buf.st_size;\n\t\t\tpsize as_size = (psize) existing;\n\n\t\t\tshm->size = as_size;\n\t\t}"),
    dict(id="follower-size-through-narrow-local", file="src/pshm-posix.c", expect="C07.2",
         old="\t\tshm->size = (psize) stat_buf.st_size;",
         new="\t\t{\n\t\t\tpuint32 existing = (puint32) stat_buf.st_size;\n\n\t\t\tshm->size = existing;\n\t\t}"),
    dict(id="follower-size-through-32-bits", file="src/pshm-posix.c", expect="C07.2",
         old="\t\tshm->size = (psize) stat_buf.st_size;", new="\t\tshm->size = (puint) stat_buf.st_size;"),
    dict(id="create-handle-reports-success-after-fstat-failure", file="src/pshm-posix.c", expect="C07.2",
         old="\t\t\t\tP_WARNING (\"PShm::pp_shm_create_handle: p_sys_close() failed(1)\");\n\n\t\t\tpp_shm_clean_handle (shm);\n\t\t\treturn FALSE;",
         new="\t\t\t\tP_WARNING (\"PShm::pp_shm_create_handle: p_sys_close() failed(1)\");\n\n\t\t\tpp_shm_clean_handle (shm);\n\t\t\treturn TRUE;"),
    dict(id="sysv-follower-opens-with-own-size", file="src/pshm-sysv.c", expect="C07.6",
         old="\t\t\tshm->shm_hdl = shmget (shm->unix_key, 0, flags);", new="\t\t\tshm->shm_hdl = shmget (shm->unix_key, shm->size, flags);"),
    dict(id="sysv-size-not-from-kernel", file="src/pshm-sysv.c", expect="C07.6",
         old="\tshm->size = shm_stat.shm_segsz;\n", new="\tif (shm->size == 0)\n\t\tshm->size = shm_stat.shm_segsz;\n\telse\n\t\tshm->size = shm->size;\n"),
    dict(id="sysv-lock-always-open-mode", file="src/pshm-sysv.c", expect="C07.6",
         old="\t\t\t\t\t\t     is_exists ? P_SEM_ACCESS_OPEN : P_SEM_ACCESS_CREATE,", new="\t\t\t\t\t\t     P_SEM_ACCESS_OPEN,"),
    dict(id="sysv-rmid-while-attached", file="src/pshm-sysv.c", expect="C07.6",
         old="shm_stat.shm_nattch == 0 && shmctl (shm->shm_hdl, IPC_RMID, 0) == -1", new="shmctl (shm->shm_hdl, IPC_RMID, 0) == -1"),
    dict(id="map-private", file="src/pshm-posix.c", expect="C07.1",
         old="mmap (NULL, shm->size, flags, MAP_SHARED, fd, 0)", new="mmap (NULL, shm->size, flags, MAP_PRIVATE, fd, 0)"),
    dict(id="readonly-writable", file="src/pshm-posix.c", expect="C07.1",
         old="flags = (shm->perms == P_SHM_ACCESS_READONLY) ? PROT_READ : PROT_READ | PROT_WRITE;", new="flags = (shm->perms == P_SHM_ACCESS_READONLY) ? PROT_WRITE : PROT_READ | PROT_WRITE;"),
    dict(id="follower-size-from-arg", file="src/pshm-posix.c", expect="C07.2",
         old="\t\tshm->size = (psize) stat_buf.st_size;", new="\t\tif (shm->size == 0)\n\t\t\tshm->size = (psize) stat_buf.st_size;"),
    dict(id="ftruncate-always", file="src/pshm-posix.c", expect="C07.2",
         old="\t\tshm->size = (psize) stat_buf.st_size;\n\t} else {\n\t\tif (P_UNLIKELY ((ftruncate (fd, (off_t) shm->size)) == -1)) {",
         new="\t\tshm->size = (psize) stat_buf.st_size;\n\t}\n\t{\n\t\tif (P_UNLIKELY ((ftruncate (fd, (off_t) shm->size)) == -1)) {"),
    dict(id="unlink-always", file="src/pshm-posix.c", expect="C07.2",
         old="\tif (shm->shm_created == TRUE && shm_unlink (shm->platform_key) == -1)", new="\tif (shm_unlink (shm->platform_key) == -1)"),
    dict(id="fd-leak-on-mmap-failure", file="src/pshm-posix.c", expect="C07.3",
         old="\t\tshm->addr = NULL;\n\n\t\tif (P_UNLIKELY (p_sys_close (fd) != 0))\n\t\t\tP_WARNING (\"PShm::pp_shm_create_handle: p_sys_close() failed(3)\");\n", new="\t\tshm->addr = NULL;\n"),
    dict(id="fd-double-close", file="src/pshm-posix.c", expect="C07.3",
         old="\tif (P_UNLIKELY ((shm->sem = p_semaphore_new (shm->platform_key, 1,", new="\tp_sys_close (fd);\n\n\tif (P_UNLIKELY ((shm->sem = p_semaphore_new (shm->platform_key, 1,"),
    dict(id="sem-init-zero", file="src/pshm-posix.c", expect="C07.4",
         old="p_semaphore_new (shm->platform_key, 1,", new="p_semaphore_new (shm->platform_key, 0,"),
    dict(id="sem-mode-swapped", file="src/pshm-posix.c", expect="C07.4",
         old="is_exists ? P_SEM_ACCESS_OPEN : P_SEM_ACCESS_CREATE,", new="is_exists ? P_SEM_ACCESS_CREATE : P_SEM_ACCESS_OPEN,"),
    dict(id="lock-releases", file="src/pshm-posix.c", expect="C07.4",
         old="\treturn p_semaphore_acquire (shm->sem, error);", new="\treturn p_semaphore_release (shm->sem, error);"),
    dict(id="munmap-clamped-size-again", file="src/pshm-posix.c", expect="C07.5",
         old="munmap (shm->addr, shm->map_size) == -1", new="munmap (shm->addr, shm->size) == -1"),
    dict(id="maplen-copied-too-early", file="src/pshm-posix.c", expect="C07.5",
         old="\tshm->map_size = shm->size;\n", new=""),
    dict(id="prot-ifelse-neutral", file="src/pshm-posix.c", expect=None,
         old="flags = (shm->perms == P_SHM_ACCESS_READONLY) ? PROT_READ : PROT_READ | PROT_WRITE;",
         new="if (shm->perms == P_SHM_ACCESS_READONLY)\n\t\tflags = PROT_READ;\n\telse\n\t\tflags = PROT_READ | PROT_WRITE;"),
]
