"""C08 Shared-memory buffer: structural clauses decided with the term dataflow."""
import os
from plint import symx, guards
from plint.flow import Flow
from plint.symx import C, norm, SymFlow, FState, term_mentions, site_of
from plint.ir import strip_casts, line, show, calls, cv, root_var, walk, true_edge_guards
from plint.units import AnalysisBroken

MEMCPY = ("memcpy", "__builtin_memcpy", "__builtin___memcpy_chk", "memmove")
MEMSET = ("memset", "__builtin_memset", "__builtin___memset_chk")
HELPERS = ("pp_shm_buffer_get_free_space", "pp_shm_buffer_get_used_space")


def is_addr(t):
    return isinstance(t, tuple) and t[0] == "call" and t[1] == "p_shm_get_address"


def split_addr(t):
    """segment pointer term -> (addr_term, offset_term) or None."""
    if is_addr(t):
        return t, C(0)
    terms, const = symx._sum_terms(t)
    base = [x for (s, x) in terms if is_addr(x) and s == 1]
    if len(base) != 1:
        return None
    rest = [(s, x) for (s, x) in terms if not is_addr(x)]
    return base[0], symx._mk_sum(rest, const)


class Ctx:
    pass


def analyse(fn, rep):
    """Runs the term flow over one public operation; returns events and return states."""
    p0 = fn.param_names()[0]
    shm_t = ("m0", ("fld", ("p", p0), "shm"))
    size_t = ("m0", ("fld", ("p", p0), "size"))
    out = {"problems": [], "copies": [], "hdr_stores": [], "rets": [], "locks": 0, "helper_calls": []}

    def P(rule, site, msg, where, cur=None):
        out["problems"].append((rule, site, msg, where, sf.witness_lines(cur) if cur else None))

    def on_call(name, args, node, st, sx):
        if name == "p_shm_get_address":
            return [(("call", "p_shm_get_address", 0, False), st)]
        if name == "p_shm_get_size":
            return [(("call", "p_shm_get_size", 0, False), st)]
        if name in ("p_shm_lock", "p_shm_unlock"):
            if norm(args[0]) != shm_t:
                P("C08.1", "lock:other", "%s on %s, not the buffer's own segment" % (name, symx.show(args[0])), line(node), sf.flow.cur)
            if name == "p_shm_lock":
                out["locks"] += 1
                if st.tags.get("held"):
                    P("C08.1", "lock:twice", "segment locked twice on a path", line(node), sf.flow.cur)
                s1, s2 = st.copy(), st.copy()
                s1.tags["held"] = True
                s2.tags["held"] = False
                return [(C(1), s1), (C(0), s2)]
            if not st.tags.get("held"):
                P("C08.1", "unlock:unheld", "segment unlocked on a path where it is not locked", line(node), sf.flow.cur)
            s1, s2 = st.copy(), st.copy()
            s1.tags["held"] = False
            s2.tags["held"] = False
            # what other handles see after the unlock may change: header values read before are stale
            for s in (s1, s2):
                s.tags["epoch"] = s.tags.get("epoch", 0) + 1
            return [(C(1), s1), (C(0), s2)]
        if name in HELPERS:
            if not st.tags.get("held"):
                P("C08.1", "helper:unlocked", "%s (which reads the segment header) is called without the segment lock" % name, line(node), sf.flow.cur)
            out["helper_calls"].append((name, line(node)))
            return [(("call", name, st.tags.get("epoch", 0), False), st)]
        if name in MEMCPY:
            dst, src, n = norm(args[0]), norm(args[1]), norm(args[2])
            ds, ss = split_addr(dst), split_addr(src)
            if ds is not None or ss is not None:
                if not st.tags.get("held"):
                    P("C08.1", "access:unlocked", "segment memory is %s at line %d without the segment lock: concurrent operations of other handles interleave with it"
                      % ("written" if ds is not None else "read", line(node)), line(node), sf.flow.cur)
            if ss is not None and dst[0] == "addr":
                # load of a header word into a local
                off = ss[1]
                st.env[dst[1]] = ("hdr", off, st.tags.get("epoch", 0), bool(st.tags.get("held")))
                out["copies"].append(("load", off, n, list(st.conds), line(node)))
            elif ds is not None and src[0] == "addr":
                val = st.env.get(src[1], ("unk", src[1]))
                out["hdr_stores"].append((ds[1], norm(val), n, list(st.conds), line(node), sf.flow.cur))
                st.tags["written"] = True
            elif ds is not None:
                out["copies"].append(("to_ring", ds[1], src, n, list(st.conds), line(node), sf.flow.cur))
                st.tags["written"] = True
            elif ss is not None:
                out["copies"].append(("from_ring", ss[1], dst, n, list(st.conds), line(node), sf.flow.cur))
            return [(("void",), st)]
        if name in MEMSET:
            dst = norm(args[0])
            ds = split_addr(dst)
            if ds is not None:
                if not st.tags.get("held"):
                    P("C08.1", "access:unlocked", "segment memory is cleared at line %d without the segment lock" % line(node), line(node), sf.flow.cur)
                out["copies"].append(("fill", ds[1], norm(args[1]), norm(args[2]), list(st.conds), line(node), sf.flow.cur))
                st.tags["written"] = True
            return [(("void",), st)]
        if name in ("printf", "p_error_set_error_p"):
            return [(C(0), st)]
        return None

    def on_return(st, stmt, sf_):
        if st.tags.get("held"):
            P("C08.1", "lock:held-at-return", "a path returns with the segment still locked", line(stmt), sf.flow.cur)
        out["rets"].append((st, stmt, sf.flow.cur))

    sf = SymFlow(fn, on_call=on_call, on_return=on_return)
    sf.run()
    out["size_t"] = size_t
    out["sf"] = sf
    return out


def lin(t, syms):
    """Linear form of a term over the given symbols: {sym: coef, 1: const} or None."""
    terms, const = symx._sum_terms(norm(t))
    res = {1: const}
    for (s, x) in symx._merge(terms):
        if x in syms:
            res[x] = res.get(x, 0) + s
        else:
            return None
    return res


def run(prog, rep):
    rep.rule("C08.1", "critical sections: every access to segment memory and every call of the unlocked space helpers happens between a successful p_shm_lock and p_shm_unlock of the buffer's own segment; every path unlocks")
    rep.rule("C08.2", "positions stay reduced: every value stored to a header word is (...) % buf->size computed from a header value loaded under the same lock; ring offsets are pos % buf->size")
    rep.rule("C08.3", "write is all-or-nothing: the copy into the ring is reached only after free_space < len tested false, the refusal returns 0 without writing; read copies min(used, len)")
    rep.rule("C08.4", "one modulus per name: buf->size derives only from the size the shm layer reports, and that size must not depend on a follower's size argument")
    rep.rule("C08.5", "capacity identity: for each ordering of the two positions used + free + 1 == size and no subtraction can go negative")
    rep.rule("C08.6", "split-copy identity: contiguous copy only when start + n <= size; split parts have lengths size-start and n-(size-start), ring offsets start and 0, caller offsets 0 and size-start")
    u = prog.unit("pshmbuffer.c")
    ops = {}
    for name in ("p_shm_buffer_read", "p_shm_buffer_write", "p_shm_buffer_get_free_space", "p_shm_buffer_get_used_space", "p_shm_buffer_clear"):
        fn = u.fn(name).inlined(skip=HELPERS)
        ops[name] = (fn, analyse(fn, rep))

    # ---- C08.1 ---------------------------------------------------------------
    for name, (fn, r) in ops.items():
        probs = [p for p in r["problems"] if p[0] == "C08.1"]
        seen = set()
        for (rule, site, msg, where, path) in probs:
            if (site, where) in seen:
                continue
            seen.add((site, where))
            rep.ob(rule, fn, site, False, msg, where, path)
        if not probs:
            rep.ob("C08.1", fn, "section", r["locks"] > 0,
                   "every segment access lies inside the lock; all %d return state(s) leave it unlocked" % len(r["rets"]) if r["locks"] else "the operation never locks the segment", fn.loc[0])
    rep.floor("C08.1", 5)

    # ---- C08.7 ---------------------------------------------------------------
    rep.rule("C08.7", "handle lifecycle leaves the queue alone: opening, freeing or taking ownership of a handle never reaches the segment's memory (only read, write, clear "
                      "and the two space queries obtain its address) - a buffer opened while others use it carries their pending bytes and positions")
    OPS5 = set(ops)
    n7 = 0
    for f0 in sorted(u.functions.values(), key=lambda f: f.loc[0]):
        if f0.static or f0.name in OPS5:
            continue
        n7 += 1
        seen7, work7, hit7 = set(), [f0.name], None
        while work7 and hit7 is None:
            x = work7.pop()
            if x in seen7 or x not in u.functions:
                continue
            seen7.add(x)
            for (b, i, c) in u.functions[x].calls():
                cn = c.get("callee")
                if cn == "p_shm_get_address" or cn in MEMCPY or cn in ("memset", "__builtin_memset", "__builtin___memset_chk"):
                    hit7 = (x, c)
                    break
                if cn in u.functions:
                    work7.append(cn)
        rep.ob("C08.7", f0, "lifecycle", hit7 is None, "%s never obtains the segment address" % f0.name if hit7 is None else
               "line %d: %s reaches the segment memory (%s in %s): every open / free of a handle then rewrites the queue the other handles of the name are using - "
               "their pending bytes and positions are lost" % (line(hit7[1]), f0.name, hit7[1].get("callee"), hit7[0]), hit7[1] if hit7 else f0.loc[0])
    rep.floor("C08.7", 3)

    # ---- C08.8 ---------------------------------------------------------------
    rep.rule("C08.8", "full width: positions, sizes and lengths are computed at psize width - no conversion in pshmbuffer.c narrows an integer value except the documented "
                      "pint result of read / write (a position or a length kept in a 32-bit local wraps for segments and requests of 4 GiB and more)")
    psz = 64
    narrow8 = []
    n8 = 0
    for f0 in sorted(u.functions.values(), key=lambda f: f.loc[0]):
        rets = set(id(m) for (b, i, r_) in f0.returns() if r_.get("e") is not None for m in walk(r_["e"], elsewhere=True))
        # ... also where the result goes through a result variable (`ret = (pint) to_copy; goto unlock; ... return ret;`)
        rv = set(strip_casts(r_["e"])["name"] for (b, i, r_) in f0.returns() if r_.get("e") is not None and strip_casts(r_["e"]) is not None and strip_casts(r_["e"])["k"] == "ref")
        # (a pure result variable: only ever assigned and returned - a length that is also used for the copy is not one)
        lhs_ids = set(id(strip_casts(n["l"])) for (b, i, n) in f0.nodes(elsewhere=True) if n["k"] == "asg" and strip_casts(n["l"]) is not None)
        ret_ids = set(id(strip_casts(r_["e"])) for (b, i, r_) in f0.returns() if r_.get("e") is not None)
        rv = set(v for v in rv if all(id(n) in lhs_ids or id(n) in ret_ids for (b, i, n) in f0.nodes(elsewhere=True) if n["k"] == "ref" and n["name"] == v))
        for (b, i, n) in f0.nodes(elsewhere=True):
            if n["k"] == "asg" and strip_casts(n["l"]) is not None and strip_casts(n["l"])["k"] == "ref" and strip_casts(n["l"])["name"] in rv:
                rets |= set(id(m) for m in walk(n["r"], elsewhere=True))
        n8 += 1
        for (b, i, n) in f0.nodes(elsewhere=True):
            if n["k"] == "cast" and n.get("ck") == "IntegralCast" and cv(n) is None:
                to, ti = u.types[n["t"]], u.type_of(n["e"])
                if to and ti and to.get("w") and ti.get("w") and to["w"] < ti["w"] and id(n) not in rets:
                    narrow8.append((f0, n, ti.get("s"), to.get("s")))
            if n["k"] == "decl" and n.get("init") is None:
                pass
    rep.ob("C08.8", u.fn("p_shm_buffer_read"), "width", not narrow8, "no position, size or length is narrowed below %d bits in the %d functions of pshmbuffer.c" % (psz, n8) if not narrow8 else
           "line %d: %s converts %s (%s) to %s: positions and lengths wrap for segments or requests of 4 GiB and more" % (
               line(narrow8[0][1]), narrow8[0][0].name, show(narrow8[0][1]["e"]), narrow8[0][2], narrow8[0][3]), narrow8[0][1] if narrow8 else u.fn("p_shm_buffer_read").loc[0])
    rep.floor("C08.8", 1)

    # ---- helpers: C08.5 ---------------------------------------------------------
    helper_terms = {}
    for hn in HELPERS:
        hf = u.fn(hn).inlined()
        p0 = hf.param_names()[0]
        size_t = ("m0", ("fld", ("p", p0), "size"))
        R, W = ("hdr", C(0)), None
        paths = []

        def on_call(name, args, node, st, sx):
            if name == "p_shm_get_address":
                return [(("call", "p_shm_get_address", 0, False), st)]
            if name in MEMCPY:
                dst, src = norm(args[0]), norm(args[1])
                ss = split_addr(src)
                if ss is not None and dst[0] == "addr":
                    st.env[dst[1]] = ("hdr", ss[1])
                return [(("void",), st)]
            return None
        sf = SymFlow(hf, on_call=on_call)
        sf.run()
        for (st, stmt, cur) in sf.returns:
            paths.append((list(st.conds), st.ret, line(stmt)))
        helper_terms[hn] = (hf, size_t, paths)
    hdrs = set()
    for hn, (hf, size_t, paths) in helper_terms.items():
        for (conds, ret, ln) in paths:
            for (c, t) in conds:
                for x in _hdrs(c):
                    hdrs.add(x)
    if len(hdrs) != 2:
        raise AnalysisBroken("space helpers: expected two header words, found %s" % sorted(hdrs, key=repr))
    r_t, w_t = sorted(hdrs, key=lambda h: h[1][1])
    # which is the read position: the one p_shm_buffer_read stores back
    rd = ops["p_shm_buffer_read"][1]
    roffs = set(o[0] for o in rd["hdr_stores"])
    wr = ops["p_shm_buffer_write"][1]
    woffs = set(o[0] for o in wr["hdr_stores"])
    if len(roffs) != 1 or len(woffs) != 1 or roffs == woffs:
        raise AnalysisBroken("cannot tell read and write position words apart (read stores %s, write stores %s)" % (roffs, woffs))
    r_t = ("hdr", next(iter(roffs)))
    w_t = ("hdr", next(iter(woffs)))

    def select(paths, ordering):
        """return terms of the paths consistent with ordering in {'w<r','w>r','w==r'}."""
        out = []
        for (conds, ret, ln) in paths:
            okp = True
            for (c, t) in conds:
                v = eval_order(c, ordering, r_t, w_t)
                if v is not None and v != t:
                    okp = False
            if okp:
                out.append((ret, ln))
        return out
    free_hf, size_t, fpaths = helper_terms[HELPERS[0]]
    used_hf, size_t2, upaths = helper_terms[HELPERS[1]]
    for ordering in ("w<r", "w>r", "w==r"):
        fr = select(fpaths, ordering)
        us = select(upaths, ordering)
        if len(fr) != 1 or len(us) != 1:
            rep.ob("C08.5", free_hf, "order:" + ordering, False, "ordering %s selects %d free-space and %d used-space result(s); exactly one each expected" % (ordering, len(fr), len(us)), free_hf.loc[0])
            continue
        ft, ut = fr[0][0], us[0][0]
        syms = {r_t, w_t, size_t}
        lf, lu = lin(ft, syms), lin(_retag(ut, size_t2, size_t), syms)
        if lf is None or lu is None:
            rep.ob("C08.5", free_hf, "order:" + ordering, False, "space result is not linear in the positions and the size: free %s, used %s" % (symx.show(ft), symx.show(ut)), fr[0][1])
            continue
        tot = {}
        for d in (lf, lu):
            for k, v in d.items():
                tot[k] = tot.get(k, 0) + v
        tot[1] = tot.get(1, 0) + 1
        ident = tot.get(size_t, 0) == 1 and tot.get(r_t, 0) == 0 and tot.get(w_t, 0) == 0 and tot.get(1, 0) == 0
        # w == r: both positions coincide, their coefficients may cancel only in sum
        if ordering == "w==r":
            ident = tot.get(size_t, 0) == 1 and (tot.get(r_t, 0) + tot.get(w_t, 0)) == 0 and tot.get(1, 0) == 0
        nonneg = True
        why = ""
        for nm, l in (("free", lf), ("used", lu)):
            okn, w = nonneg_under(l, ordering, r_t, w_t, size_t)
            if not okn:
                nonneg, why = False, "%s space %s can wrap below zero when %s" % (nm, symx.show(ft if nm == "free" else ut), w)
        rep.ob("C08.5", free_hf, "order:" + ordering, ident and nonneg,
               "%s: free = %s, used = %s; used + free + 1 == size, both non-negative" % (ordering, symx.show(ft), symx.show(ut)) if ident and nonneg else
               ("%s: used (%s) + free (%s) + 1 != size: the queue's capacity accounting is off" % (ordering, symx.show(ut), symx.show(ft)) if not ident else why),
               fr[0][1])
    rep.floor("C08.5", 3)

    # ---- C08.2 positions reduced ---------------------------------------------------
    for name in ("p_shm_buffer_read", "p_shm_buffer_write"):
        fn, r = ops[name]
        size_t = r["size_t"]
        okp, msg, where = True, "", fn.loc[0]
        if not r["hdr_stores"]:
            okp, msg = False, "the operation never stores its position back"
        for (off, val, n, conds, ln, cur) in r["hdr_stores"]:
            if not (val[0] == "bin" and val[1] == "%" and val[3] == size_t):
                okp, msg, where = False, "line %d: the position stored to the header is %s, not reduced modulo buf->size" % (ln, symx.show(val)), ln
                break
            # the reduced value must be built from the header word of the same offset loaded under the current lock
            inner = val[2]
            hs = [x for x in _hdrs_full(inner)]
            if not hs or any(h[1] != off for h in hs):
                okp, msg, where = False, "line %d: the new position %s is not computed from the position word it replaces" % (ln, symx.show(val)), ln
                break
            if any(not h[3] for h in hs):
                okp, msg, where = False, "line %d: the new position is computed from a header value that was loaded before the lock was taken (stale when another handle moved it)" % ln, ln
                break
        # ring offsets
        for cp in r["copies"]:
            if cp[0] in ("to_ring", "from_ring"):
                off = cp[1]
                okoff = ring_offset_ok(off, size_t)
                if not okoff:
                    okp, msg, where = False, "line %d: ring offset %s is not DATA_OFFSET + (pos %% buf->size) or DATA_OFFSET" % (cp[5], symx.show(off)), cp[5]
        rep.ob("C08.2", fn, "positions", okp, "stored positions are (old + n) % buf->size from the word loaded under the lock; ring offsets are reduced" if okp else msg, where)
    # clear: zero fill of the whole segment header under the lock
    fn, r = ops["p_shm_buffer_clear"]
    fills = [c for c in r["copies"] if c[0] == "fill"]
    # one zero fill from offset 0, or several that continue each other (header first, then the data area)
    fills = sorted(fills, key=lambda c: (symx._sum_terms(norm(c[1]))[1], repr(c[1])))
    okc = bool(fills) and fills[0][1] == C(0) and all(c[2] == C(0) for c in fills)
    total = C(0)
    for k_, c in enumerate(fills):
        if okc and norm(c[1]) != norm(total):
            okc = False
        total = norm(("bin", "+", total, c[3]))
    msgc = "clear does not zero-fill the segment from its start"
    if okc:
        # ... and far enough: the whole segment as the shm layer reports it, or at least the 16-byte header holding both positions
        ln_t = norm(total)
        terms_, const_ = symx._sum_terms(ln_t)
        whole = ln_t[0] == "call" and ln_t[1] == "p_shm_get_size"
        header = const_ >= 16 and all(sg > 0 for (sg, x) in terms_)
        if not (whole or header):
            okc, msgc = False, ("line %d: clear zero-fills only %s bytes from the segment start: unless that is at least the 16-byte header, the write position "
                                "(or part of a position word) survives and every handle still sees a non-empty buffer" % (fills[0][5], symx.show(ln_t)))
    rep.ob("C08.2", fn, "clear", okc, "clear zero-fills the segment from offset 0 over its whole reported size (both positions become 0)" if okc else msgc, fills[0][5] if fills else fn.loc[0])
    # ... on every path that has something to clear: a return without the fill is excused only by a NULL buffer object, a NULL
    # segment address or a refused lock (the tests of those results decide it; with one of them inverted clear returns early for
    # every healthy buffer and "clear empties" is gone without any test noticing)
    cf = prog.unit("pshmbuffer.c").fn("p_shm_buffer_clear")
    bp = cf.param_names()[0]
    gates = [c for (b, i, c) in cf.calls() if c.get("callee") in ("p_shm_get_address", "p_shm_lock")]
    unfilled = []

    def cl_stmt(st, b, i, stmt):
        facts, filled = st
        for c in calls(stmt):
            if c.get("callee") in ("memset", "__builtin_memset", "__builtin___memset_chk") and len(c["args"]) >= 2 and cv(c["args"][1]) == 0:
                filled = True
        if stmt["k"] == "ret":
            judge(facts, filled, line(stmt))
            return []
        return [(guards.transfer(facts, stmt), filled)]

    def judge(facts, filled, ln):
        if filled or guards.lookup(facts, bp) == 0:
            return
        for g in gates:
            k_ = guards.key(g)
            if guards.lookup(facts, k_) == 0 or any(fop == "=:" and fv == k_ and guards.lookup(facts, fk) == 0 for (fk, fop, fv) in facts):
                return
        unfilled.append(ln)

    def cl_edge(st, b, to, on):
        f2 = guards.edge_assume(st[0], b, on)
        return None if f2 is None else (f2, st[1])
    fl_ = Flow(cf, [(guards.EMPTY, False)], cl_stmt, cl_edge).run()
    for (parent, (facts, filled)) in fl_.exit_states():
        judge(facts, filled, cf.loc[0])
    rep.ob("C08.2", cf, "clear:reached", len(gates) >= 2 and not unfilled, "every path through clear with a mapped segment and the lock granted performs the zero fill" if (len(gates) >= 2 and not unfilled) else
           ("line %d: clear returns without the zero fill on a path where the buffer, its segment address and the lock were all fine: the buffer keeps its content" % unfilled[0]
            if unfilled else "the address / lock calls of clear were not found"), unfilled[0] if unfilled else cf.loc[0])
    rep.floor("C08.2", 4)

    # ---- C08.3 ----------------------------------------------------------------------
    fn, r = ops["p_shm_buffer_write"]
    lenp = ("p", fn.param_names()[2])
    okw, msg, where = True, "", fn.loc[0]
    ring = [c for c in r["copies"] if c[0] == "to_ring"]
    if not ring:
        okw, msg = False, "write never copies into the ring"
    def space_guard(conds):
        """Does the path establish free >= len?  free is the helper's result, or an inline linear expression over the
        positions that equals the free space of the ordering established on the same path.  -> (guarded, note)"""
        size_t_w = r["size_t"]
        for (c, t) in conds:
            if c[0] != "cmp" or not term_mentions(c, lenp):
                continue
            if _mentions_call(c, HELPERS[0]):
                v = order_of(c, ("call", HELPERS[0]), lenp)
                if v is not None and ((v == "<" and not t) or (v == ">=" and t)):
                    return True, ""
                continue
            # inline: (X - len) op 0 with X linear in the header words and the size
            diff = norm(("bin", "-", c[2], c[3]))
            terms, const = symx._sum_terms(diff)
            terms = symx._merge(terms)
            co_len = sum(s_ for (s_, x) in terms if x == lenp)
            if co_len not in (1, -1):
                continue
            sign = -co_len          # X - len  => coefficient of len is -1
            rest = {}
            okl = True
            for (s_, x) in terms:
                if x == lenp:
                    continue
                if isinstance(x, tuple) and x[0] == "hdr":
                    if not x[3]:
                        return False, "the free space is computed from a position loaded outside the lock"
                    rest[("hdr", x[1])] = rest.get(("hdr", x[1]), 0) + s_ * sign
                elif x == size_t_w:
                    rest["size"] = rest.get("size", 0) + s_ * sign
                else:
                    okl = False
            if not okl:
                continue
            rest[1] = const * sign
            op = c[1] if sign == 1 else {"<": ">", ">": "<", "<=": ">=", ">=": "<="}.get(c[1], c[1])
            establishes = (op == "<" and not t) or (op == ">=" and t)       # X >= len
            if not establishes:
                continue
            # ordering known on this path?
            for ordering in ("w<r", "w>r", "w==r"):
                consistent = True
                decided = False
                for (c2, t2) in conds:
                    c2n = _strip_hdr(c2)
                    v2 = eval_order(c2n, ordering, r_t, w_t)
                    if v2 is not None:
                        decided = True
                        if v2 != t2:
                            consistent = False
                if not consistent or not decided:
                    continue
                want = {"w<r": {r_t: 1, w_t: -1, 1: -1}, "w>r": {"size": 1, w_t: -1, r_t: 1, 1: -1}, "w==r": {"size": 1, 1: -1}}[ordering]
                got = {k: v for k, v in rest.items() if v != 0}
                wantn = {k: v for k, v in want.items() if v != 0}
                if ordering == "w==r":
                    # positions coincide: their coefficients may cancel
                    got = dict(got)
                    if got.get(r_t, 0) + got.get(w_t, 0) == 0:
                        got.pop(r_t, None)
                        got.pop(w_t, None)
                if got != wantn:
                    return False, "when %s the inline free-space expression is %s, the free space is %s: a write of exactly free+1 bytes is accepted and the queue becomes 'empty'" % (
                        ordering, _fmt(got), _fmt(wantn))
            return True, ""
        return False, ""
    for cp in ring:
        conds = cp[4]
        guarded, note = space_guard(conds)
        if not guarded:
            okw, where = False, cp[5]
            msg = ("line %d: " % cp[5]) + (note or "data is copied into the ring on a path where 'free space < len' was not tested false: a write that does not fit overwrites unread bytes")
    for (st, stmt, cur) in r["rets"]:
        refused = any(c[0] == "cmp" and _mentions_call(c, HELPERS[0]) and ((order_of(c, ("call", HELPERS[0]), lenp) == "<" and t) or (order_of(c, ("call", HELPERS[0]), lenp) == ">=" and not t))
                      for (c, t) in st.conds)
        if refused:
            if st.tags.get("written"):
                okw, msg, where = False, "line %d: the refusal path has already written to the segment" % line(stmt), line(stmt)
            if st.ret != C(0) and st.ret != C(-1):
                okw, msg, where = False, "line %d: the refusal path returns %s, expected 0" % (line(stmt), symx.show(st.ret)), line(stmt)
        elif st.tags.get("written") and st.ret is not None and st.ret[0] == "c" and st.ret[1] == 0:
            okw, msg, where = False, "line %d: returns 0 after writing" % line(stmt), line(stmt)
        elif st.tags.get("written") and st.ret not in (lenp, C(-1)):
            okw, msg, where = False, "line %d: a successful write returns %s, expected len" % (line(stmt), symx.show(st.ret)), line(stmt)
    rep.ob("C08.3", fn, "write", okw, "the ring is written only after free < len was tested false; refusal returns 0 untouched; success returns len" if okw else msg, where)
    fn, r = ops["p_shm_buffer_read"]
    lenp = ("p", fn.param_names()[2])
    okr, msg, where = True, "", fn.loc[0]
    ring = [c for c in r["copies"] if c[0] == "from_ring"]
    if not ring:
        okr, msg = False, "read never copies out of the ring"
    # total copied per path == min(used, len)
    for (st, stmt, cur) in r["rets"]:
        pass
    used_pat = ("call", HELPERS[1])
    kinds = set()
    for (off, val, n, conds, ln, cur) in r["hdr_stores"]:
        inner = val[2] if val[0] == "bin" and val[1] == "%" else None
        if inner is None:
            continue
        tc = advance_of(inner)
        if is_min(tc, used_pat, lenp):
            kinds.update(("used", "len"))
            continue
        rel = None
        for (c, t) in conds:
            o = order_of(c, used_pat, lenp)
            if o is not None:
                rel = (o, t)
        if isinstance(tc, tuple) and tc[0] == "call" and tc[1] == HELPERS[1]:
            kinds.add("used")
            if rel is None or not ((rel[0] in ("<=", "<") and rel[1]) or (rel[0] in (">", ">=") and not rel[1])):
                okr, msg, where = False, "line %d: the whole used space is read on a path where used <= len was not established (more than len bytes are copied into the caller's storage)" % ln, ln
        elif tc == lenp:
            kinds.add("len")
            if rel is None or not ((rel[0] in ("<=", "<") and not rel[1]) or (rel[0] in (">", ">=") and rel[1])):
                okr, msg, where = False, "line %d: len bytes are read on a path where used > len was not established (bytes that were never written are returned)" % ln, ln
        else:
            okr, msg, where = False, "line %d: the number of bytes read is %s, neither the used space nor len" % (ln, symx.show(tc)), ln
    if okr and kinds != {"used", "len"}:
        okr, msg = False, "read does not take min(used space, len): cases seen %s" % sorted(kinds)
    rep.ob("C08.3", fn, "read", okr, "read copies min(used, len) bytes and advances the read position by that amount" if okr else msg, where)
    rep.floor("C08.3", 2)

    # ---- C08.6 split-copy identity -------------------------------------------------
    for name, kind in (("p_shm_buffer_read", "from_ring"), ("p_shm_buffer_write", "to_ring")):
        fn, r = ops[name]
        size_t = r["size_t"]
        groups = {}
        for cp in r["copies"]:
            if cp[0] == kind:
                key = frozenset(cp[4])
                groups.setdefault(key, []).append(cp)
        ok6, msg, where = True, "", fn.loc[0]
        nshapes = set()
        for conds, cps in groups.items():
            cps = sorted(cps, key=lambda c: c[5])
            total = norm(_sum([c[3] for c in cps]))
            if len(cps) == 1:
                nshapes.add(1)
                (k, off, other, n, cnd, ln, cur) = cps[0]
                start = ring_start(off)
                if start is None:
                    ok6, msg, where = False, "line %d: ring offset %s not understood" % (ln, symx.show(off)), ln
                    continue
                # contiguity: cond start + n <= size (or <) must hold on this path
                need = None
                for (c, t) in cnd:
                    o = order_of(c, None, None, expr=norm(("bin", "-", ("bin", "+", start, n), size_t)))
                    if o is not None:
                        need = (o, t)
                if need is None or not ((need[0] in ("<=", "<") and need[1]) or (need[0] in (">", ">=") and not need[1])):
                    ok6, msg, where = False, "line %d: a single copy of %s bytes from ring offset %s is made without start + n <= size being established: it runs past the end of the ring" % (ln, symx.show(n), symx.show(start)), ln
                if caller_off(other) != C(0):
                    ok6, msg, where = False, "line %d: the caller-side pointer of the contiguous copy is offset by %s" % (ln, symx.show(caller_off(other))), ln
            elif len(cps) == 2:
                nshapes.add(2)
                a, b = cps
                sa, sb = ring_start(a[1]), ring_start(b[1])
                first = norm(("bin", "-", size_t, sa)) if sa is not None else None
                if sa is None or sb != C(0):
                    ok6, msg, where = False, "line %d: the second part of a wrapped copy starts at ring offset %s, expected 0 (the beginning of the data area)" % (b[5], symx.show(sb) if sb is not None else symx.show(b[1])), b[5]
                elif norm(a[3]) != first:
                    ok6, msg, where = False, "line %d: the first part of a wrapped copy is %s bytes long, expected size - start" % (a[5], symx.show(a[3])), a[5]
                elif caller_off(a[2]) != C(0) or norm(caller_off(b[2])) != first:
                    ok6, msg, where = False, "line %d: the caller-side offset of the second part is %s, expected the length of the first part" % (b[5], symx.show(caller_off(b[2]))), b[5]
                else:
                    # lengths sum to n: the second is n - first, for the n of the contiguous sibling
                    pass
            else:
                ok6, msg, where = False, "a path performs %d ring copies" % len(cps), cps[0][5]
        # on every path the copied total equals the amount the position advances by
        adv = [(frozenset(conds), advance_of(val[2]) if val[0] == "bin" and val[1] == "%" else None) for (off, val, n, conds, ln, cur) in r["hdr_stores"]]
        for conds, cps in groups.items():
            total = norm(_sum([c[3] for c in cps]))
            match = [a for (ac, a) in adv if conds <= ac and a is not None]
            if not match:
                continue
            if any(norm(a) != total for a in match):
                ok6, msg, where = False, "line %d: %d byte(s) are copied (%s) but the position advances by %s" % (
                    cps[0][5], len(cps), symx.show(total), symx.show(match[0])), cps[0][5]
        if nshapes != {1, 2}:
            ok6, msg = False, msg or "expected a contiguous and a wrapped copy shape, found %s" % sorted(nshapes)
        rep.ob("C08.6", fn, "split", ok6, "contiguous copy only under start + n <= size; wrapped copy: (size - start) bytes at start, the rest at 0, caller offset = first length; same total" if ok6 else msg, where)
    rep.floor("C08.6", 2)

    # ---- C08.4 one modulus -------------------------------------------------------------
    nw = u.fn("p_shm_buffer_new")
    writers = []
    for f in u.roots():             # (the store may sit in a static helper of the constructor)
        for b, i, n in f.nodes():
            if n["k"] == "asg":
                l = strip_casts(n["l"])
                if l is not None and l["k"] == "member" and l["field"] == "size" and l.get("rec") == "PShmBuffer_":
                    writers.append((f, n))
    ok4 = len(writers) == 1 and writers[0][0].name == "p_shm_buffer_new"
    if ok4:
        nw = writers[0][0]
    msg = ""
    if ok4:
        rhs = writers[0][1]["r"]
        org = nw.origins(rhs)
        gs = [c for c in org if c["k"] == "call" and c.get("callee") == "p_shm_get_size"]
        params = set(nw.param_names())
        direct = [n for n in org if n["k"] == "ref" and n.get("decl") == "param" and n["name"] in params]
        ok4 = len(gs) == 1 and not direct
        msg = "buf->size = %s" % show(rhs)
    rep.ob("C08.4", nw, "modulus:source", ok4, "the ring modulus derives only from the size the shm layer reports (%s)" % msg if ok4 else
           "the ring modulus is %s: it depends on this handle's size argument, so two handles of one name can use different moduli" % (msg or "written in several places"), nw.loc[0])
    # ... and the ring fits: data area starts 16 bytes into the segment (two position words), so the modulus is at most the reported
    # size minus that header - `size - 16 + 1` puts the last slot of the ring one byte behind the mapping (a fault when the
    # segment ends at a page boundary, a byte no other handle sees otherwise)
    if ok4:
        terms_, const_ = [], 0
        stack = [writers[0][1]["r"]]
        sign = {id(stack[0]): 1}
        while stack:
            e = stack.pop()
            sg = sign.get(id(e), 1)
            e2 = strip_casts(e)
            if e2 is None:
                continue
            if id(e2) not in sign:
                sign[id(e2)] = sg
            if e2["k"] == "bin" and e2["op"] in ("+", "-"):
                sign[id(e2["l"])] = sg
                sign[id(e2["r"])] = sg if e2["op"] == "+" else -sg
                stack += [e2["l"], e2["r"]]
            elif cv(e2) is not None:
                const_ += sg * cv(e2)
            elif e2["k"] == "ref" and e2.get("decl") == "local" and nw.resolve(e2) is not None:
                r2 = nw.resolve(e2)
                sign[id(r2)] = sg
                stack.append(r2)
            else:
                terms_.append((sg, e2))
        whole = len(terms_) == 1 and terms_[0][0] == 1 and terms_[0][1]["k"] == "call" and terms_[0][1].get("callee") == "p_shm_get_size"
        if whole:
            rep.ob("C08.4", nw, "modulus:inside", const_ <= -16, "the ring modulus is the reported size minus the %d-byte header: every slot lies inside the segment" % -const_ if const_ <= -16 else
                   "line %d: the ring modulus is the reported size %+d: with the data area starting at byte 16 the last slot of the ring lies %d byte(s) behind the segment" % (
                       line(writers[0][1]), const_, const_ + 16), writers[0][1])
        else:
            rep.note("C08.4 modulus:inside not judged: the modulus is not `p_shm_get_size (...) + constant` in this form")
    # second half: the shm layer's reported size must not depend on a follower's argument
    su = prog.unit("pshm-posix.c")
    ch = su.fn("pp_shm_create_handle")
    for f in su.functions.values():
        if f.name in ("pp_shm_create_handle", "pp_shm_clean_handle"):
            continue
        cc = [(b3, i3) for (b3, i3, c3) in f.calls() if c3.get("callee") == ch.name]
        if not cc:
            continue
        k = 0
        for b, i, n in f.nodes():
            if n["k"] != "asg":
                continue
            l = strip_casts(n["l"])
            if l is None or l["k"] != "member" or l["field"] != "size" or l.get("rec") != "PShm_":
                continue
            after = all(f.pos_dominates((b3.id, i3), (b.id, i)) for (b3, i3) in cc)
            if not after:
                continue
            params = set(f.param_names())
            dep = [x for x in walk(n["r"]) if x["k"] == "ref" and x.get("decl") == "param" and x["name"] in params]
            k += 1
            if dep:
                # whatever else it does, the overwritten value must never exceed the size the open established: the store has to sit
                # behind the true edge of `field > argument` (or `argument < field`)
                pname = dep[0]["name"]

                def smaller_than_field(c_, pname=pname):
                    if c_["k"] != "bin" or c_["op"] not in (">", ">=", "<", "<="):
                        return False
                    big, small = (c_["l"], c_["r"]) if c_["op"] in (">", ">=") else (c_["r"], c_["l"])
                    bl, sm = strip_casts(big), strip_casts(small)
                    return bl is not None and bl["k"] == "member" and bl["field"] == "size" and sm is not None and sm["k"] == "ref" and sm["name"] == pname
                bounded = bool(true_edge_guards(f, b.id, smaller_than_field))
                rep.ob("C08.4", f, "reported-size:bounded#%d" % k, bounded,
                       "the argument replaces the reported size only when it is smaller than the size the open established" if bounded else
                       "line %d: the size reported for an existing segment is overwritten from the opener's argument without testing that the argument is smaller: "
                       "a handle opened with a larger size reports more bytes than the segment has, the ring modulus exceeds the mapping and reads/writes run past its end" % line(n), n)
            rep.ob("C08.4", f, "reported-size:store#%d" % k, not dep,
                   "the size reported for an existing segment does not depend on the opener's argument" if not dep else
                   "after opening an existing segment its reported size is overwritten from the opener's argument (%s): p_shm_buffer_new on an existing "
                   "buffer with a smaller size gets a smaller ring modulus than the other handles, so positions wrap at different points" % show(n["r"]), n)
    rep.floor("C08.4", 1)


def advance_of(inner):
    """(old_pos + n)  ->  n"""
    terms, const = symx._sum_terms(norm(inner))
    rest = [(s_, x) for (s_, x) in symx._merge(terms) if not (isinstance(x, tuple) and x[0] == "hdr")]
    return symx._mk_sum(rest, const)


def _strip_hdr(t):
    """('hdr', off, epoch, held) -> ('hdr', off) everywhere in a term"""
    if isinstance(t, tuple):
        if t[0] == "hdr":
            return ("hdr", t[1])
        return tuple(_strip_hdr(x) for x in t)
    return t


def _fmt(d):
    parts = []
    for k, v in sorted(d.items(), key=lambda kv: str(kv[0])):
        name = "1" if k == 1 else ("size" if k == "size" else ("pos@%s" % symx.show(k[1])))
        parts.append("%+d*%s" % (v, name))
    return " ".join(parts) or "0"


def _sum(ts):
    r = C(0)
    for t in ts:
        r = ("bin", "+", r, t)
    return r


def _hdrs(t):
    out = []
    if isinstance(t, tuple):
        if t[0] == "hdr":
            out.append(("hdr", t[1]))
        else:
            for x in t:
                out.extend(_hdrs(x))
    return out


def _hdrs_full(t):
    out = []
    if isinstance(t, tuple):
        if t[0] == "hdr":
            out.append(t)
        else:
            for x in t:
                out.extend(_hdrs_full(x))
    return out


def _retag(t, a, b):
    if t == a:
        return b
    if isinstance(t, tuple):
        return tuple(_retag(x, a, b) for x in t)
    return t


def _mentions_call(t, name):
    if isinstance(t, tuple):
        if t[0] == "call" and t[1] == name:
            return True
        return any(_mentions_call(x, name) for x in t)
    return False


def order_of(c, a, b, expr=None):
    """For a normalised cmp term over (a - b) or the given linear expr (compared with 0),
    return the operator as 'a op b', else None."""
    if c[0] != "cmp":
        return None
    lhs, op, rhs = c[2], c[1], c[3]
    diff = norm(("bin", "-", lhs, rhs))
    if expr is None:
        terms, const = symx._sum_terms(diff)
        terms = symx._merge(terms)
        if const != 0 or len(terms) != 2:
            return None

        def isa(x, pat):
            return x == pat or (isinstance(pat, tuple) and pat[0] == "call" and isinstance(x, tuple) and x[0] == "call" and x[1] == pat[1])
        co = {}
        for (s, x) in terms:
            if isa(x, a):
                co["a"] = s
            elif isa(x, b):
                co["b"] = s
        if co.get("a") == 1 and co.get("b") == -1:
            return op
        if co.get("a") == -1 and co.get("b") == 1:
            return {"<": ">", ">": "<", "<=": ">=", ">=": "<=", "==": "==", "!=": "!="}[op]
        return None
    e = norm(expr)
    if diff == e:
        return op
    if norm(("bin", "-", C(0), diff)) == e:
        return {"<": ">", ">": "<", "<=": ">=", ">=": "<=", "==": "==", "!=": "!="}[op]
    return None


def eval_order(c, ordering, r_t, w_t):
    """Truth of a condition over the two positions under the given ordering, or None."""
    o = order_of(c, w_t, r_t)
    if o is None:
        return None
    rel = {"w<r": -1, "w>r": 1, "w==r": 0}[ordering]
    return {"<": rel < 0, ">": rel > 0, "<=": rel <= 0, ">=": rel >= 0, "==": rel == 0, "!=": rel != 0}[o]


def nonneg_under(l, ordering, r_t, w_t, size_t):
    """l: linear form over r, w, size, 1.  Positions satisfy 0 <= r,w < size, size >= 2."""
    cr, cw, cs, c0 = l.get(r_t, 0), l.get(w_t, 0), l.get(size_t, 0), l.get(1, 0)
    if ordering == "w==r":
        # r == w: e = (cr+cw)*r + cs*size + c0, r in [0, size-1]
        k = cr + cw
        if k != 0:
            return False, "the positions are equal (the result depends on their value)"
        ok = cs >= 0 and 2 * cs + c0 >= 0
        return ok, "size is small"
    if cr + cw != 0:
        return False, "the result depends on the absolute position, not on the distance"
    # d = r - w (w<r) in [1, size-1]   or   d = w - r (w>r) in [1, size-1]
    cd = cr if ordering == "w<r" else cw
    ok1 = cs >= 0 and (2 * cs + cd + c0) >= 0                 # d = 1
    ok2 = (cs + cd) >= 0 and (2 * (cs + cd) - cd + c0) >= 0   # d = size - 1
    return ok1 and ok2, ("the positions are adjacent" if not ok1 else "the positions are size-1 apart")


def ring_start(off):
    """ring offset term -> start term inside the data area (offset minus DATA_OFFSET), None if not of that form."""
    terms, const = symx._sum_terms(norm(off))
    if const < 16:
        return None
    return symx._mk_sum(terms, const - 16)


def ring_offset_ok(off, size_t):
    st = ring_start(off)
    if st is None:
        return False
    if st == C(0):
        return True
    return st[0] == "bin" and st[1] == "%" and st[3] == size_t


def caller_off(t):
    """Offset added to a caller-side pointer parameter."""
    terms, const = symx._sum_terms(norm(t))
    rest = [(s, x) for (s, x) in symx._merge(terms) if not (isinstance(x, tuple) and x[0] == "p")]
    return symx._mk_sum(rest, const)


def is_min(t, a, b):
    """t == min(a, b) as sel(cond, x, y)."""
    if not (isinstance(t, tuple) and t[0] == "sel"):
        return False
    c, x, y = t[1], t[2], t[3]

    def isa(v, pat):
        return v == pat or (isinstance(pat, tuple) and pat[0] == "call" and isinstance(v, tuple) and v[0] == "call" and v[1] == pat[1])
    if isa(x, a) and isa(y, b):
        o = order_of(c, a, b)
        return o in ("<", "<=")
    if isa(x, b) and isa(y, a):
        o = order_of(c, b, a)
        return o in ("<", "<=")
    return False


# objects are zero-filled at birth: the functions of these units rely on it for every field their constructors do not store
_run_clauses = run


def run(prog, rep):
    _run_clauses(prog, rep)
    from plint.wiring import check_zero_init, check_error_contract
    check_error_contract(rep, "C08.1", prog, ['pshmbuffer.c'], 8)
    check_zero_init(rep, "C08.7", prog, ['pshmbuffer.c'], 1)

# generic robustness battery: renaming every local/parameter in these files must not change any verdict
RENAME_LOCALS = ['src/pshmbuffer.c']

SELFTEST = [
    dict(id="modulus-one-beyond-segment", file="src/pshmbuffer.c", expect="C08.4",
         old="\tret->size = p_shm_get_size (shm) - P_SHM_BUFFER_DATA_OFFSET;", new="\tret->size = p_shm_get_size (shm) - P_SHM_BUFFER_DATA_OFFSET + 1;"),
    dict(id="clear-address-test-inverted", file="src/pshmbuffer.c", expect="C08.2", count=1,
         old="\tif (P_UNLIKELY ((addr = p_shm_get_address (buf->shm)) == NULL)) {\n\t\tP_ERROR (\"PShmBuffer::p_shm_buffer_clear: p_shm_get_address() failed\");",
         new="\tif (P_UNLIKELY ((addr = p_shm_get_address (buf->shm)) != NULL)) {\n\t\tP_ERROR (\"PShmBuffer::p_shm_buffer_clear: p_shm_get_address() failed\");"),
    dict(id="read-length-in-32-bit-local", file="src/pshmbuffer.c", expect="C08.8", count=1,
         old="\tpsize\t\tto_copy;", new="\tpuint\t\tto_copy;"),
    dict(id="buffer-new-clears-the-segment", file="src/pshmbuffer.c", expect="C08.7",
         old="\tret->size = p_shm_get_size (shm) - P_SHM_BUFFER_DATA_OFFSET;\n\n\treturn ret;", new="\tret->size = p_shm_get_size (shm) - P_SHM_BUFFER_DATA_OFFSET;\n\n\tp_shm_buffer_clear (ret);\n\n\treturn ret;"),
    dict(id="clear-fills-ring-size-only", file="src/pshmbuffer.c", expect="C08.2",
         old="\tmemset (addr, 0, size);", new="\tmemset (addr, 0, buf->size);"),
    dict(id="clear-fills-header-and-ring-neutral", file="src/pshmbuffer.c", expect=None,
         old="\tmemset (addr, 0, size);", new="\tmemset (addr, 0, P_SHM_BUFFER_DATA_OFFSET + buf->size);"),
    dict(id="shm-reported-size-grows", file="src/pshm-posix.c", expect="C08.4", site="bounded",
         old="\tif (P_LIKELY (ret->size > size && size != 0))\n\t\tret->size = size;", new="\tif (P_LIKELY (size != 0))\n\t\tret->size = size;"),
    dict(id="shm-reported-size-guard-flipped-neutral", file="src/pshm-posix.c", expect=None,
         old="\tif (P_LIKELY (ret->size > size && size != 0))\n\t\tret->size = size;", new="\tif (P_LIKELY (size != 0 && size < ret->size))\n\t\tret->size = size;"),
    dict(id="positions-before-lock", file="src/pshmbuffer.c", expect="C08.1", count=2,
         old="\tif (P_UNLIKELY (p_shm_lock (buf->shm, error) == FALSE))\n\t\treturn -1;\n\n\tmemcpy (&read_pos, (pchar *) addr + P_SHM_BUFFER_READ_OFFSET, sizeof (read_pos));\n\tmemcpy (&write_pos, (pchar *) addr + P_SHM_BUFFER_WRITE_OFFSET, sizeof (write_pos));\n",
         new="\tmemcpy (&read_pos, (pchar *) addr + P_SHM_BUFFER_READ_OFFSET, sizeof (read_pos));\n\tmemcpy (&write_pos, (pchar *) addr + P_SHM_BUFFER_WRITE_OFFSET, sizeof (write_pos));\n\n\tif (P_UNLIKELY (p_shm_lock (buf->shm, error) == FALSE))\n\t\treturn -1;\n"),
    dict(id="read-empty-no-unlock", file="src/pshmbuffer.c", expect="C08.1",
         old="\tif (read_pos == write_pos) {\n\t\tif (P_UNLIKELY (p_shm_unlock (buf->shm, error) == FALSE))\n\t\t\treturn -1;\n\n\t\treturn 0;\n\t}", new="\tif (read_pos == write_pos)\n\t\treturn 0;"),
    dict(id="free-space-unlocked", file="src/pshmbuffer.c", expect="C08.1",
         old="\tif (P_UNLIKELY (p_shm_lock (buf->shm, error) == FALSE))\n\t\treturn -1;\n\n\tspace = pp_shm_buffer_get_free_space (buf);\n\n\tif (P_UNLIKELY (p_shm_unlock (buf->shm, error) == FALSE))\n\t\treturn -1;\n",
         new="\tspace = pp_shm_buffer_get_free_space (buf);\n"),
    dict(id="write-pos-not-reduced", file="src/pshmbuffer.c", expect="C08.2",
         old="\twrite_pos = (write_pos + len) % buf->size;", new="\twrite_pos = write_pos + len;"),
    dict(id="write-before-space-test", file="src/pshmbuffer.c", expect="C08.3",
         old="\tif (pp_shm_buffer_get_free_space (buf) < len) {\n\t\tif (P_UNLIKELY (p_shm_unlock (buf->shm, error) == FALSE))\n\t\t\treturn -1;\n\n\t\treturn 0;\n\t}\n\n\tstart_pos = write_pos % buf->size;",
         new="\tstart_pos = write_pos % buf->size;"),
    dict(id="write-space-test-inverted", file="src/pshmbuffer.c", expect="C08.3",
         old="\tif (pp_shm_buffer_get_free_space (buf) < len) {", new="\tif (pp_shm_buffer_get_free_space (buf) > len) {"),
    dict(id="read-copies-len", file="src/pshmbuffer.c", expect="C08.3",
         old="\tto_copy   = (data_aval <= len) ? data_aval : len;", new="\tto_copy   = (data_aval >= len) ? data_aval : len;"),
    dict(id="free-space-off-by-one", file="src/pshmbuffer.c", expect="C08.5",
         old="\t\treturn buf->size - (write_pos - read_pos) - 1;", new="\t\treturn buf->size - (write_pos - read_pos);"),
    dict(id="used-space-wrong-branch", file="src/pshmbuffer.c", expect="C08.5",
         old="\t\treturn (buf->size - (read_pos - write_pos));", new="\t\treturn (buf->size - (read_pos - write_pos) - 1);"),
    dict(id="wrap-second-part-offset", file="src/pshmbuffer.c", expect="C08.6",
         old="\t\tmemcpy ((pchar *) addr + P_SHM_BUFFER_DATA_OFFSET, (pchar *) data + first_part_size, len - first_part_size);",
         new="\t\tmemcpy ((pchar *) addr + P_SHM_BUFFER_DATA_OFFSET + 1, (pchar *) data + first_part_size, len - first_part_size);"),
    dict(id="wrap-first-part-short", file="src/pshmbuffer.c", expect="C08.6", count=2,
         old="\t\tpsize first_part_size = buf->size - start_pos;", new="\t\tpsize first_part_size = buf->size - start_pos - 1;"),
    dict(id="contiguity-test-too-wide", file="src/pshmbuffer.c", expect="C08.6",
         old="\tif (start_pos + len <= buf->size) {", new="\tif (start_pos + len <= buf->size + 1) {"),
    dict(id="write-inline-free-space-neutral", file="src/pshmbuffer.c", expect=None,
         old="\tif (pp_shm_buffer_get_free_space (buf) < len) {",
         new="\tif ((write_pos >= read_pos ? buf->size - (write_pos - read_pos) - 1 : read_pos - write_pos - 1) < len) {"),
    dict(id="write-inline-free-space-off-by-one", file="src/pshmbuffer.c", expect="C08.3",
         old="\tif (pp_shm_buffer_get_free_space (buf) < len) {",
         new="\tif ((write_pos >= read_pos ? buf->size - (write_pos - read_pos) - 1 : read_pos - write_pos) < len) {"),
    dict(id="contiguity-strict-neutral", file="src/pshmbuffer.c", expect=None,
         old="\tif (start_pos + len <= buf->size) {", new="\tif (start_pos + len < buf->size) {"),
    dict(id="modulus-from-argument", file="src/pshmbuffer.c", expect="C08.4",
         old="\tret->size = p_shm_get_size (shm) - P_SHM_BUFFER_DATA_OFFSET;", new="\tret->size = (size != 0) ? size + 1 : p_shm_get_size (shm) - P_SHM_BUFFER_DATA_OFFSET;"),
]
