"""C02 Read-write lock: posix wiring and the monitor discipline of the
'general' (mutex + two condition variables) model.

The general model is analysed with the term dataflow (plint.symx.SymFlow): the
packed counters are terms over the initial field values of the current
*epoch* (an epoch ends at every condition wait, where other threads may change
everything), the internal mutex is a typestate tag, and the admission / wake /
waiter-accounting obligations are checked on the path conditions that hold at
the store or at the return.
"""
from plint import symx
from plint.symx import C, norm, SymFlow, FState, term_mentions
from plint.ir import strip_casts, line, show, calls, cv, root_var
from plint.units import AnalysisBroken
from plint.wiring import check_wrapper, check_wrapper_through, handle_is_param_field, callee_of

ALL = 0xFFFFFFFF
BLOCKING = {"pthread_rwlock_rdlock", "pthread_rwlock_wrlock", "pthread_mutex_lock", "pthread_cond_wait",
            "p_cond_variable_wait", "p_uthread_sleep", "sem_wait", "nanosleep", "usleep", "sched_yield"}
RW_FAMILY = {"pthread_rwlock_rdlock", "pthread_rwlock_tryrdlock", "pthread_rwlock_wrlock",
             "pthread_rwlock_trywrlock", "pthread_rwlock_unlock", "pthread_rwlock_timedrdlock",
             "pthread_rwlock_timedwrlock"}


def is_rwlock_t(t):
    return "pthread_rwlock" in t["s"]


def run(prog, rep):
    rep.rule("C02.1", "posix model wiring: six wrappers -> pthread_rwlock_{rdlock,tryrdlock,wrlock,trywrlock,unlock} on &lock->hdl, TRUE iff 0, try-functions non-blocking")
    rep.rule("C02.2", "general model: internal mutex locked/unlocked exactly once on every path, never held at return")
    rep.rule("C02.3", "general model: active/waiting counters are read and written only with the internal mutex held")
    rep.rule("C02.4", "general model: every condition wait passes the held mutex, is followed by a re-evaluation of the admission predicate before the lock is granted, and the waiter count is restored on every path")
    rep.rule("C02.5", "general model: a reader is admitted only with the writer field of the current counter known zero, a writer only with the whole counter zero; try-functions contain no wait and no loop; packed-field masks agree between all functions")
    rep.rule("C02.6", "general model: unlock wakes what its state change makes grantable: last reader out with writers waiting -> wake write_cv; writer out -> wake write_cv if writers wait, else *broadcast* read_cv if readers wait")
    posix(prog, rep)
    general(prog, rep)


def posix(prog, rep):
    u = prog.unit("prwlock-posix.c")
    table = [("p_rwlock_reader_lock", "pthread_rwlock_rdlock", False),
             ("p_rwlock_reader_trylock", "pthread_rwlock_tryrdlock", True),
             ("p_rwlock_reader_unlock", "pthread_rwlock_unlock", False),
             ("p_rwlock_writer_lock", "pthread_rwlock_wrlock", False),
             ("p_rwlock_writer_trylock", "pthread_rwlock_trywrlock", True),
             ("p_rwlock_writer_unlock", "pthread_rwlock_unlock", False)]
    for fname, native, is_try in table:
        fn = u.fn(fname)
        check_wrapper_through(rep, "C02.1", fn, native, handle=handle_is_param_field(is_rwlock_t),
                              forbidden=BLOCKING if is_try else ())
        # no other member of the family reachable from this wrapper (directly or through its helper)
        reach = [fn] + [u.functions[c.get("callee")] for (b, i, c) in fn.calls() if c.get("callee") in u.functions]
        bad = []
        for f in reach:
            bad += [c for (b, i, c) in f.calls() if c.get("callee") in RW_FAMILY - {native}]
        rep.ob("C02.1", fn, "wire:only:" + native, not bad,
               "%s reaches only %s of the pthread_rwlock family" % (fname, native) if not bad else
               "%s also reaches %s" % (fname, bad[0].get("callee")), bad[0] if bad else fn.loc[0])
        if is_try:
            rep.ob("C02.1", fn, "noloop", not fn.loops(), "no loop in %s" % fname if not fn.loops() else "%s loops" % fname, fn.loc[0])
    # creation: the native lock has the default reader/writer preference.  PTHREAD_RWLOCK_PREFER_WRITER_NONRECURSIVE_NP refuses a new
    # read lock as soon as a writer queues, also when only readers hold the lock - readers are then no longer shared (a reader that
    # waits for a second reader, or takes the read lock twice, deadlocks behind the queued writer)
    inits = [(f, c) for f in u.roots() for (b, i, c) in f.calls() if c.get("callee") == "pthread_rwlock_init"]
    if not inits:
        raise AnalysisBroken("prwlock-posix.c: no pthread_rwlock_init call")
    for (f, c) in inits:
        a1 = strip_casts(c["args"][1])
        bad = None
        if not (cv(c["args"][1]) == 0 or (a1 is not None and cv(a1) == 0)):
            av = root_var(a1)
            for (b, i, c2) in f.calls():
                cn = c2.get("callee") or ""
                if cn.startswith("pthread_rwlockattr_set") and c2.get("args") and root_var(c2["args"][0]) == av:
                    if cn == "pthread_rwlockattr_setkind_np" and cv(c2["args"][1]) in (0, 1):
                        continue        # PREFER_READER, and PREFER_WRITER which glibc treats as reader preference
                    if cn == "pthread_rwlockattr_setpshared":
                        continue
                    bad = c2
        rep.ob("C02.1", f, "init:attributes", bad is None, "the native lock is created with the default reader/writer preference" if bad is None else
               "line %d: the native lock is created with %s (%s): with a writer-preferring non-recursive kind a read lock is refused while a writer waits although only "
               "readers hold the lock - two readers can no longer rely on sharing it" % (line(bad), bad.get("callee"), show(bad["args"][1]) if len(bad["args"]) > 1 else ""), bad or c)
    rep.floor("C02.1", 15)


# ---------------------------------------------------------------------------
# general model
# ---------------------------------------------------------------------------

def m_and(t):
    """('bin','&',x,C(m)) in either operand order -> (x, m)."""
    if isinstance(t, tuple) and t[0] == "bin" and t[1] == "&":
        if t[3][0] == "c":
            return t[2], t[3][1] & ALL
        if t[2][0] == "c":
            return t[3], t[2][1] & ALL
    return None


def ctz(m):
    if m == 0:
        return 0
    n = 0
    while not (m >> n) & 1:
        n += 1
    return n


def classify_count(t):
    """Term reading a packed field: -> (base, mask, shift)."""
    if isinstance(t, tuple) and t[0] == "bin" and t[1] == ">>" and t[3][0] == "c":
        a = m_and(t[2])
        if a:
            return a[0], a[1], t[3][1]
    a = m_and(t)
    if a:
        return a[0], a[1], 0
    return t, ALL, 0


def classify_set(t):
    """(base & ~M) | (v << s)  ->  (base, M, s, v); plain v -> (None, ALL, 0, v)."""
    if isinstance(t, tuple) and t[0] == "bin" and t[1] == "|":
        for keep, val in ((t[2], t[3]), (t[3], t[2])):
            a = m_and(keep)
            if a and val[0] != "c" or (a and bin(a[1]).count("1") > 16):
                base, km = a
                m = (~km) & ALL
                s = ctz(m)
                v = val
                if isinstance(val, tuple) and val[0] == "bin" and val[1] == "<<" and val[3][0] == "c":
                    s = val[3][1]          # the shift the code uses (checked against the mask by the layout rule)
                    v = val[2]
                elif val[0] == "c":
                    if val[1] & ~m & ALL:
                        return base, m, -1, val   # constant outside the field
                    v = C((val[1] & m) >> s)
                elif s != 0:
                    s = 0                  # symbolic value stored unshifted into a shifted field
                return base, m, s, v
    # (base & ~M) alone: field cleared (value 0)
    a = m_and(t)
    if a and bin(a[1]).count("1") > 16:
        return a[0], (~a[1]) & ALL, ctz((~a[1]) & ALL), C(0)
    return None, ALL, 0, t


def delta_of(v, base, mask, shift):
    """If v == count(base,mask,shift) + d for a constant d, return d; else None."""
    terms, const = symx._sum_terms(v)
    terms = symx._merge(terms)
    if len(terms) == 1 and terms[0][0] == 1:
        b, m, s = classify_count(terms[0][1])
        if b == base and m == mask and s == shift:
            return const
    return None


class GenModel:
    def __init__(self, rep, u):
        self.rep = rep
        self.u = u
        self.masks = {}      # (fn, field) -> [(mask, shift, delta|('set',v))]
        self.count_reads = []  # (fn, field, mask, shift, where)
        self.cv_of_wait = {}   # fn -> cv term
        self.results = {}


def analyse(gm, fn, kind, role):
    """kind: lock|trylock|unlock; role: reader|writer. Returns dict of findings."""
    rep = gm.rep
    p0 = fn.param_names()[0]
    lockp = ("p", p0)
    locA = ("fld", lockp, "active_threads")
    locW = ("fld", lockp, "waiting_threads")
    mutex_t = ("m0", ("fld", lockp, "mutex"))
    A0, W0 = ("m0", locA), ("m0", locW)
    out = {"problems": [], "admissions": [], "wstores": [], "astores": [], "waits": [], "wakes": [], "returns": 0,
           "count_reads": []}
    prob = out["problems"]

    def P(rule, site, msg, where, cur=None):
        prob.append((rule, site, msg, where, sf.witness_lines(cur) if cur else None))

    def on_call(name, args, node, st, sx):
        n = name
        if n in ("p_mutex_lock", "p_mutex_unlock"):
            if norm(args[0]) != mutex_t:
                P("C02.2", "mutex:other", "%s on %s, not the lock's own mutex" % (n, symx.show(args[0])), line(node), sf.flow.cur)
            if n == "p_mutex_lock":
                if st.tags.get("held"):
                    P("C02.2", "mutex:relock", "internal mutex locked while already held", line(node), sf.flow.cur)
                s1, s2 = st.copy(), st.copy()
                s1.tags["held"] = True
                s2.tags["held"] = False
                return [(C(1), s1), (C(0), s2)]
            if not st.tags.get("held"):
                P("C02.2", "mutex:unlock-unheld", "internal mutex unlocked on a path where it is not held", line(node), sf.flow.cur)
            s1, s2 = st.copy(), st.copy()
            s1.tags["held"] = False
            s2.tags["held"] = False
            s1.tags["unlocks"] = s1.tags.get("unlocks", 0) + 1
            s2.tags["unlocks"] = s2.tags.get("unlocks", 0) + 1
            return [(C(1), s1), (C(0), s2)]
        if n == "p_cond_variable_wait":
            cvt = norm(args[0])
            out["waits"].append((cvt, line(node)))
            if norm(args[1]) != mutex_t or not st.tags.get("held"):
                P("C02.4", "wait:mutex", "condition wait does not pass the held internal mutex (%s)" % symx.show(args[1]), line(node), sf.flow.cur)
            if kind != "lock":
                P("C02.5", "try:wait", "%s waits on a condition variable" % fn.name, line(node), sf.flow.cur)
            if not st.tags.get("wreg"):
                P("C02.4", "wait:unregistered", "waits without having registered in the waiting counter (the waker tests that counter)", line(node), sf.flow.cur)
            res = []
            for val in (1, 0):
                s = st.copy()
                # a new epoch: other threads ran while the mutex was released
                s.forget(lambda x: term_mentions(x, A0) or term_mentions(x, W0))
                s.mem.pop(locA, None)
                s.mem.pop(locW, None)
                s.tags.pop("prev_active_threads", None)
                s.tags.pop("prev_waiting_threads", None)
                s.tags["pending"] = True
                res.append((C(val), s))
            return res
        if n in ("p_cond_variable_signal", "p_cond_variable_broadcast"):
            cvt = norm(args[0])
            if not st.tags.get("held"):
                P("C02.6", "wake:unheld", "%s called without the internal mutex" % n, line(node), sf.flow.cur)
            res = []
            for val in (1, 0):
                s = st.copy()
                w = dict(s.tags.get("wakes", ()))
                prev = w.get(cvt)
                kindw = "broadcast" if n.endswith("broadcast") else "signal"
                w[cvt] = "broadcast" if "broadcast" in (prev, kindw) else "signal"
                s.tags["wakes"] = tuple(sorted(w.items(), key=repr))
                res.append((C(val), s))
            out["wakes"].append((cvt, n, line(node)))
            return res
        if n in ("printf", "fprintf", "p_error_get_last_system"):
            return [(C(0), st)]
        return None

    def on_branch(st, b, ct, want, sf_):
        # a branch on a count of the *current* counter value re-evaluates the admission predicate
        t = ct
        if isinstance(t, tuple) and t[0] == "cmp":
            t = t[2]
        base, m, s = classify_count(t)
        curA = st.load(locA)
        if base == curA:
            st.tags["pending"] = False
            out["count_reads"].append(("active", m, s, b.line()))
        elif base == st.load(locW):
            out["count_reads"].append(("waiting", m, s, b.line()))

    def on_stmt_done(st, b, i, stmt, sf_):
        for ev in st.events:
            if ev[0] in ("read", "write") and ev[1] in (locA, locW):
                if not st.tags.get("held"):
                    P("C02.3", "state:" + ev[1][2], "%s of %s without the internal mutex" % (ev[0], ev[1][2]), line(ev[2]), sf.flow.cur)
        for ev in st.events:
            if ev[0] != "write" or ev[1] not in (locA, locW):
                continue
            node = ev[2]
            field = ev[1][2]
            new = st.load(ev[1])
            base, m, s, v = classify_set(new)
            prev = st.tags.get("prev_" + field, ("m0", ev[1]))
            if base is not None and base != prev:
                P("C02.5", "store:base", "store to %s does not preserve the other field of the current value" % field, line(node), sf.flow.cur)
            d = delta_of(v, prev, m, s) if base is not None else None
            if d is None and base is not None and v[0] == "c":
                # a constant stored on a path that knows the old count (`switch (count) { case 1: ... SET (.., 0)`): the same as count + d
                for (c_, truth_) in st.conds:
                    if truth_ and c_[0] == "cmp" and c_[1] == "==" and c_[3][0] == "c":
                        cb, cm, cs = classify_count(c_[2])
                        if cb == prev and cm == m and cs == s:
                            d = v[1] - c_[3][1]
            rec = (field, m, s, d if d is not None else ("set", v), line(node))
            if field == "waiting_threads":
                out["wstores"].append(rec)
                if d is None:
                    P("C02.4", "waiters:store", "waiting counter is overwritten with %s, not adjusted by +-1" % symx.show(v), line(node), sf.flow.cur)
                else:
                    wd = dict(st.tags.get("wdelta", ()))
                    wd[(m, s)] = wd.get((m, s), 0) + d
                    st.tags["wdelta"] = tuple(sorted((k, x) for k, x in wd.items() if x != 0))
                    if d > 0:
                        st.tags["wreg"] = True
            else:
                out["astores"].append(rec)
                st.tags["astore"] = st.tags.get("astore", 0) + 1
                if kind in ("lock", "trylock"):
                    # admission: what is known about the counter's current value?
                    need = None
                    granted = []
                    def zero_form(c, truth):
                        """(X, X is known zero) for conditions of the forms X == 0, X != 0, !X, X, nested"""
                        if c[0] == "cmp" and c[3] == C(0) and c[1] in ("==", "!="):
                            x, z = c[2], (c[1] == "==") == bool(truth)
                        elif c[0] == "un" and c[1] == "!":
                            x, z = c[2], bool(truth)
                        else:
                            x, z = c, not truth
                        while isinstance(x, tuple) and x and x[0] == "un" and x[1] == "!":
                            x, z = x[2], not z
                        if isinstance(x, tuple) and x and x[0] == "cmp" and x[3] == C(0) and x[1] in ("==", "!="):
                            return zero_form(x, not z) if False else zero_form(x, (not z))
                        return x, z
                    for (c, truth) in st.conds:
                        x_, zero = zero_form(c, truth)
                        bb, mm, ss = classify_count(x_)
                        if bb != prev:
                            continue
                        if zero:
                            granted.append(mm)
                    out["admissions"].append((m, s, d if d is not None else ("set", v), tuple(granted), line(node)))
                    if st.tags.get("pending"):
                        P("C02.4", "wait:recheck", "the lock is granted after a condition wait without re-evaluating the admission predicate "
                          "(spurious or stolen wake-ups admit the thread while the lock is held)", line(node), sf.flow.cur)
                    st.tags["granted_masks"] = tuple(sorted(set(granted)))
                    st.tags["admit_field"] = (m, s)
            st.tags["prev_" + field] = new

    def on_return(st, stmt, sf_):
        out["returns"] += 1
        if st.tags.get("held"):
            P("C02.2", "mutex:held-at-return", "a path returns with the internal mutex held", line(stmt), sf.flow.cur)
        if st.tags.get("wdelta"):
            P("C02.4", "waiters:restore", "a path returns with the waiting counter changed by %s" % (st.tags.get("wdelta"),), line(stmt), sf.flow.cur)
        out.setdefault("ret_states", []).append((st, stmt, sf.flow.cur))

    sf = SymFlow(fn, on_call=on_call, on_branch=on_branch, on_stmt_done=on_stmt_done, on_return=on_return)
    sf.run()
    out["sf"] = sf
    return out


def general(prog, rep):
    u = prog.unit("prwlock-general.c")
    gm = GenModel(rep, u)
    spec = [("p_rwlock_reader_lock", "lock", "reader"), ("p_rwlock_reader_trylock", "trylock", "reader"),
            ("p_rwlock_reader_unlock", "unlock", "reader"), ("p_rwlock_writer_lock", "lock", "writer"),
            ("p_rwlock_writer_trylock", "trylock", "writer"), ("p_rwlock_writer_unlock", "unlock", "writer")]
    res = {}
    for fname, kind, role in spec:
        fn = u.fn(fname)
        res[fname] = (fn, kind, role, analyse(gm, fn, kind, role))

    # ---- field layout inferred from the lock functions ---------------------
    def single(xs, what, fn):
        s = set(xs)
        if len(s) != 1:
            raise AnalysisBroken("cannot infer %s from %s: %s" % (what, fn.name, sorted(s, key=repr)))
        return next(iter(s))

    rl, wl = res["p_rwlock_reader_lock"][3], res["p_rwlock_writer_lock"][3]
    if not rl["astores"] or not wl["astores"] or not rl["wstores"] or not wl["wstores"] or not rl["waits"] or not wl["waits"]:
        raise AnalysisBroken("general rwlock model: lock functions have no counter store / waiter store / wait (anchors changed)")
    Ar = single([(m, s) for (f, m, s, d, l) in rl["astores"]], "reader field of the active counter", res["p_rwlock_reader_lock"][0])
    Aw = single([(m, s) for (f, m, s, d, l) in wl["astores"]], "writer field of the active counter", res["p_rwlock_writer_lock"][0])
    Wr = single([(m, s) for (f, m, s, d, l) in rl["wstores"]], "reader field of the waiting counter", res["p_rwlock_reader_lock"][0])
    Ww = single([(m, s) for (f, m, s, d, l) in wl["wstores"]], "writer field of the waiting counter", res["p_rwlock_writer_lock"][0])
    cv_r = single([c for (c, l) in rl["waits"]], "readers' condition variable", res["p_rwlock_reader_lock"][0])
    cv_w = single([c for (c, l) in wl["waits"]], "writers' condition variable", res["p_rwlock_writer_lock"][0])
    fnl = res["p_rwlock_reader_lock"][0]
    lay_ok = (Ar[0] & Aw[0]) == 0 and (Wr[0] & Ww[0]) == 0 and cv_r != cv_w and Ar[0] != 0 and Aw[0] != 0
    # the shift of a field must place its values inside its mask
    for (m, s) in (Ar, Aw, Wr, Ww):
        if m and (m >> s) << s != m or (s and (m & ((1 << s) - 1))):
            lay_ok = False
    rep.ob("C02.5", fnl, "layout", lay_ok,
           "packed fields: active readers mask %#x>>%d, active writers %#x>>%d, waiting readers %#x>>%d, waiting writers %#x>>%d; disjoint; readers and writers wait on different condition variables"
           % (Ar[0], Ar[1], Aw[0], Aw[1], Wr[0], Wr[1], Ww[0], Ww[1]) if lay_ok else
           "packed-field layout is inconsistent: active readers %#x>>%d / writers %#x>>%d, waiting readers %#x>>%d / writers %#x>>%d, cv_r %s cv_w"
           % (Ar[0], Ar[1], Aw[0], Aw[1], Wr[0], Wr[1], Ww[0], Ww[1], "==" if cv_r == cv_w else "!="), fnl.loc[0])

    for fname, (fn, kind, role, r) in res.items():
        seen = set()
        for (rule, site, msg, where, path) in r["problems"]:
            if (rule, site, where) in seen:
                continue
            seen.add((rule, site, where))
            rep.ob(rule, fn, site, False, msg, where, path)
        had = set(rule for (rule, s, m, w, p) in r["problems"])
        if "C02.2" not in had:
            rep.ob("C02.2", fn, "mutex", True, "%d return state(s): mutex released on every path, never unlocked unheld" % r["returns"], fn.loc[0])
        if "C02.3" not in had:
            rep.ob("C02.3", fn, "state", True, "every access of the counters happens with the mutex held", fn.loc[0])
        # masks used by count reads agree with the layout
        bad = []
        for (which, m, s, ln) in r["count_reads"]:
            allowed = [Ar, Aw, (ALL, 0)] if which == "active" else [Wr, Ww, (ALL, 0)]
            # a field tested in place - `word & (mask << shift)` is non-zero exactly when the field is - reads the same field
            allowed = allowed + [(fm, 0) for (fm, fs) in allowed if fs] + [((fm << fs) & 0xffffffff, 0) for (fm, fs) in allowed if fs]
            if (m, s) not in allowed:
                bad.append((which, m, s, ln))
        rep.ob("C02.5", fn, "masks", not bad,
               "all %d branch tests on the counters use the fields' own masks and shifts" % len(r["count_reads"]) if not bad else
               "branch at line %d tests %s counter with mask %#x>>%d, which is no field of the layout" % (bad[0][3], bad[0][0], bad[0][1], bad[0][2]),
               bad[0][3] if bad else fn.loc[0])
        myA = Ar if role == "reader" else Aw
        myW = Wr if role == "reader" else Ww
        if kind in ("lock", "trylock"):
            adm_ok = True
            msg = ""
            if not r["admissions"]:
                adm_ok, msg = False, "no path stores the active counter: the lock is never recorded as held"
            for (m, s, d, granted, ln) in r["admissions"]:
                if (m, s) != myA:
                    adm_ok, msg = False, "line %d: %s admission updates field %#x>>%d, expected %#x>>%d" % (ln, role, m, s, myA[0], myA[1])
                    break
                if role == "reader":
                    if d != 1:
                        adm_ok, msg = False, "line %d: reader admission changes the reader count by %s, expected +1" % (ln, d)
                        break
                    if not any((g & Aw[0]) == Aw[0] for g in granted):
                        adm_ok, msg = False, "line %d: a reader is admitted without the writer field of the current counter being known zero" % ln
                        break
                else:
                    if d != ("set", C(1)):
                        adm_ok, msg = False, "line %d: writer admission stores %s in the writer field, expected 1" % (ln, d if not isinstance(d, tuple) else symx.show(d[1]))
                        break
                    need = Ar[0] | Aw[0]
                    if not any((g & need) == need for g in granted):
                        adm_ok, msg = False, "line %d: a writer is admitted without the whole active counter being known zero" % ln
                        break
            rep.ob("C02.5", fn, "admission", adm_ok,
                   "%d admission state(s): %s" % (len(r["admissions"]), "writer field known zero, reader count +1" if role == "reader" else "whole counter known zero, writer field := 1") if adm_ok else msg,
                   fn.loc[0])
            # result: TRUE exactly on paths that admitted
            res_ok = True
            rmsg = ""
            for (st, stmt, cur) in r.get("ret_states", []):
                admitted = st.tags.get("astore", 0) > 0
                rv = st.ret
                if rv is None or rv[0] != "c":
                    res_ok, rmsg = False, "line %d: returns %s (not a constant on this path)" % (line(stmt), symx.show(rv))
                    break
                if admitted and rv[1] == 0 and st.tags.get("unlocks", 0) and False:
                    pass
                if (not admitted) and rv[1] != 0:
                    res_ok, rmsg = False, "line %d: returns TRUE on a path that did not record the lock as held" % line(stmt)
                    break
            rep.ob("C02.5", fn, "result", res_ok, "TRUE is returned only on paths that recorded the lock" if res_ok else rmsg, fn.loc[0])
            if kind == "trylock":
                rep.ob("C02.5", fn, "try:nonblocking", not r["waits"] and not fn.loops(),
                       "no condition wait and no loop" if (not r["waits"] and not fn.loops()) else "trylock waits or loops", fn.loc[0])
            else:
                wok = all(c == (cv_r if role == "reader" else cv_w) for (c, l) in r["waits"])
                wreg = [(f, m, s, d, l) for (f, m, s, d, l) in r["wstores"]]
                wok2 = all((m, s) == myW for (f, m, s, d, l) in wreg) and any(d == 1 for (f, m, s, d, l) in wreg) and any(d == -1 for (f, m, s, d, l) in wreg)
                rep.ob("C02.4", fn, "wait", wok and wok2 and "C02.4" not in had,
                       "waits on its own condition variable, registered in its own waiting field (+1 before, -1 after), predicate re-evaluated before admission"
                       if (wok and wok2 and "C02.4" not in had) else
                       ("wait discipline violated (see other C02.4 reports)" if "C02.4" in had else "waiter registration uses the wrong field or is unbalanced"), fn.loc[0])
        else:
            # unlock: state change and wake obligations
            ok_store = True
            smsg = ""
            if not r["astores"]:
                ok_store, smsg = False, "unlock never updates the active counter"
            for (f, m, s, d, ln) in r["astores"]:
                if (m, s) != myA:
                    ok_store, smsg = False, "line %d: %s unlock updates field %#x>>%d, expected %#x>>%d" % (ln, role, m, s, myA[0], myA[1])
                elif role == "reader" and d != -1:
                    ok_store, smsg = False, "line %d: reader unlock changes the reader count by %s, expected -1" % (ln, d)
                elif role == "writer" and d != ("set", C(0)):
                    ok_store, smsg = False, "line %d: writer unlock stores %s in the writer field, expected 0" % (ln, symx.show(d[1]) if isinstance(d, tuple) else d)
            rep.ob("C02.6", fn, "release", ok_store, "active counter: %s" % ("reader count -1" if role == "reader" else "writer field := 0") if ok_store else smsg, fn.loc[0])
            p0 = fn.param_names()[0]
            A0 = ("m0", ("fld", ("p", p0), "active_threads"))
            W0 = ("m0", ("fld", ("p", p0), "waiting_threads"))

            def cnt(base, fld):
                t = ("bin", "&", base, C(fld[0]))
                if fld[1]:
                    t = ("bin", ">>", t, C(fld[1]))
                return norm(t)
            wake_ok = True
            wmsg = ""
            nst = 0
            for (st, stmt, cur) in r.get("ret_states", []):
                if st.tags.get("astore", 0) == 0:
                    continue
                nst += 1
                wakes = dict(st.tags.get("wakes", ()))
                ww_nonzero = st.cond_known(("cmp", "!=", cnt(W0, Ww), C(0)))
                wr_nonzero = st.cond_known(("cmp", "!=", cnt(W0, Wr), C(0)))
                if role == "reader":
                    last = st.cond_known(("cmp", "==", cnt(A0, Ar), C(1)))
                    if last is not False and ww_nonzero is not False and cv_w not in wakes:
                        wake_ok = False
                        wmsg = "line %d: a path on which the last reader leaves while writers may be waiting returns without waking the writers' condition variable" % line(stmt)
                        wpath = r["sf"].witness_lines(cur)
                        break
                else:
                    if ww_nonzero is not False and cv_w not in wakes:
                        wake_ok = False
                        wmsg = "line %d: a path on which writers may be waiting returns without waking the writers' condition variable" % line(stmt)
                        wpath = r["sf"].witness_lines(cur)
                        break
                    if ww_nonzero is not True and wr_nonzero is not False and wakes.get(cv_r) != "broadcast" and cv_w not in wakes:
                        wake_ok = False
                        wmsg = "line %d: a path on which only readers may be waiting returns without a *broadcast* on the readers' condition variable (got %s)" % (line(stmt), wakes.get(cv_r))
                        wpath = r["sf"].witness_lines(cur)
                        break
                    if ww_nonzero is not True and wr_nonzero is not False and wakes.get(cv_r) != "broadcast":
                        wake_ok = False
                        wmsg = "line %d: waiting readers are not all woken (read condition variable %s)" % (line(stmt), wakes.get(cv_r))
                        wpath = r["sf"].witness_lines(cur)
                        break
            rep.ob("C02.6", fn, "wake", wake_ok and nst > 0,
                   "%d releasing return state(s): every state that may leave grantable waiters behind wakes them (read_cv only by broadcast)" % nst if wake_ok and nst else (wmsg or "no releasing path"),
                   fn.loc[0], None if wake_ok else wpath)
    rep.floor("C02.2", 6)
    rep.floor("C02.3", 6)
    rep.floor("C02.4", 2)
    rep.floor("C02.5", 17)
    rep.floor("C02.6", 4)


# objects are zero-filled at birth: the functions of these units rely on it for every field their constructors do not store
_run_clauses = run


def waiter_registration(prog, rep):
    """general model: a thread registers as waiting once, before its wait loop, and deregisters once, after it.  Inside a loop around a
    condition wait the waiter field is not stored: a thread that is woken, finds the lock still busy and sleeps again must still be
    counted, or the last holder out sees no waiter and signals nobody (the lock is free and the thread sleeps for ever)."""
    gu = prog.unit("prwlock-general.c")
    nreg = 0
    for f in sorted(gu.roots(), key=lambda f_: f_.loc[0]):           # public functions, a shared "wait while busy" helper inlined
        waits = [(b, i, c) for (b, i, c) in f.calls() if c.get("callee") == "p_cond_variable_wait"]
        if not waits:
            continue
        nreg += 1
        bad = []
        for (h, body) in f.loops():
            if not any(b.id in body for (b, i, c) in waits):
                continue
            for (b, i, n) in f.nodes(elsewhere=True):
                if b.id in body and n["k"] == "asg" and strip_casts(n["l"])["k"] == "member" and strip_casts(n["l"])["field"] == "waiting_threads":
                    bad.append(n)
        rep.ob("C02.4", f, "registration", not bad, "the waiter field is stored before and after the wait loop, never inside it" if not bad else
               "line %d: %s changes the waiter count inside its wait loop: a thread that wakes with the lock still busy goes back to sleep unregistered, and the unlock that "
               "frees the lock finds no waiter to signal" % (line(bad[0]), f.name), bad[0] if bad else f.loc[0])
    return nreg


def run(prog, rep):
    nreg = waiter_registration(prog, rep)
    try:
        _run_clauses(prog, rep)
    except AnalysisBroken:
        # the term-valued analysis of a function whose counters change on every loop iteration does not converge; when the structural
        # clause above has already named the defect that is a finding, not a broken analysis
        if not any((not o.ok) for o in rep.obs if o.rule == "C02.4" and o.key().endswith(":registration")):
            raise
    if nreg < 2:
        raise AnalysisBroken("prwlock-general.c: expected two functions with a condition wait (reader_lock, writer_lock)")
    from plint.wiring import check_zero_init
    from plint.wiring import destroy_before_free
    _ff = prog.unit("prwlock-posix.c").fn("p_rwlock_free")
    _db = destroy_before_free(_ff, "pthread_rwlock_destroy")
    rep.ob("C02.1", _ff, "free:destroy", not _db, "p_rwlock_free destroys the native object (pthread_rwlock_destroy) before it releases the memory, on every path" if not _db else
           "line %d: %s: the native lock is never destroyed" % _db[0], _db[0][0] if _db else _ff.loc[0])
    check_zero_init(rep, "C02.3", prog, ['prwlock-general.c', 'prwlock-posix.c'], 1)

# generic robustness battery: renaming every local/parameter in these files must not change any verdict
RENAME_LOCALS = ['src/prwlock-posix.c', 'src/prwlock-general.c']

SELFTEST = [
    dict(id="general-writer-deregisters-in-loop", file="src/prwlock-general.c", expect="C02.4",
         old="\t\twhile (lock->active_threads) {\n\t\t\twait_ok = p_cond_variable_wait (lock->write_cv, lock->mutex);",
         new="\t\twhile (lock->active_threads) {\n\t\t\tlock->waiting_threads = P_RWLOCK_SET_WRITERS (lock->waiting_threads, P_RWLOCK_WRITER_COUNT (lock->waiting_threads));\n\t\t\twait_ok = p_cond_variable_wait (lock->write_cv, lock->mutex);"),
    dict(id="general-new-raw-malloc", file="src/prwlock-general.c", expect="C02.3",
         old="(ret = p_malloc0 (sizeof (PRWLock)))", new="(ret = p_malloc (sizeof (PRWLock)))"),
    dict(id="posix-writer-preferring-kind", file="src/prwlock-posix.c", expect="C02.1",
         old="\tif (P_UNLIKELY (pthread_rwlock_init (&ret->hdl, NULL) != 0)) {",
         new="\tpthread_rwlockattr_t attr;\n\tpthread_rwlockattr_init (&attr);\n\tpthread_rwlockattr_setkind_np (&attr, PTHREAD_RWLOCK_PREFER_WRITER_NONRECURSIVE_NP);\n\tif (P_UNLIKELY (pthread_rwlock_init (&ret->hdl, &attr) != 0)) {"),
    dict(id="posix-default-attr-object-neutral", file="src/prwlock-posix.c", expect=None,
         old="\tif (P_UNLIKELY (pthread_rwlock_init (&ret->hdl, NULL) != 0)) {",
         new="\tpthread_rwlockattr_t attr;\n\tpthread_rwlockattr_init (&attr);\n\tif (P_UNLIKELY (pthread_rwlock_init (&ret->hdl, &attr) != 0)) {"),
    dict(id="posix-try-blocks", file="src/prwlock-posix.c", expect="C02.1",
         old="return (pthread_rwlock_trywrlock (&lock->hdl) == 0) ? TRUE : FALSE;", new="return (pthread_rwlock_wrlock (&lock->hdl) == 0) ? TRUE : FALSE;"),
    dict(id="posix-reader-takes-write", file="src/prwlock-posix.c", expect="C02.1",
         old="if (P_UNLIKELY (pthread_rwlock_rdlock (&lock->hdl) == 0))", new="if (P_UNLIKELY (pthread_rwlock_wrlock (&lock->hdl) == 0))"),
    dict(id="posix-unlock-inline-neutral", file="src/prwlock-posix.c", expect=None,
         old="p_rwlock_writer_unlock (PRWLock *lock)\n{\n\treturn pp_rwlock_unlock_any (lock);",
         new="p_rwlock_writer_unlock (PRWLock *lock)\n{\n\tif (lock == NULL)\n\t\treturn FALSE;\n\treturn pthread_rwlock_unlock (&lock->hdl) == 0 ? TRUE : FALSE;"),
    dict(id="gen-reader-while-to-if", file="src/prwlock-general.c", expect="C02.4",
         old="\t\twhile (P_RWLOCK_WRITER_COUNT (lock->active_threads)) {\n\t\t\twait_ok = p_cond_variable_wait (lock->read_cv, lock->mutex);\n\n\t\t\tif (P_UNLIKELY (wait_ok == FALSE)) {\n\t\t\t\tP_ERROR (\"PRWLock::p_rwlock_reader_lock: p_cond_variable_wait() failed\");\n\t\t\t\tbreak;\n\t\t\t}\n\t\t}",
         new="\t\twait_ok = p_cond_variable_wait (lock->read_cv, lock->mutex);\n\n\t\tif (P_UNLIKELY (wait_ok == FALSE))\n\t\t\tP_ERROR (\"PRWLock::p_rwlock_reader_lock: p_cond_variable_wait() failed\");"),
    dict(id="gen-writer-waits-for-writers-only", file="src/prwlock-general.c", expect="C02.5",
         old="\t\twhile (lock->active_threads) {", new="\t\twhile (P_RWLOCK_WRITER_COUNT (lock->active_threads)) {"),
    dict(id="gen-broadcast-to-signal", file="src/prwlock-general.c", expect="C02.6",
         old="if (P_UNLIKELY (p_cond_variable_broadcast (lock->read_cv) == FALSE)) {", new="if (P_UNLIKELY (p_cond_variable_signal (lock->read_cv) == FALSE)) {"),
    dict(id="gen-reader-unlock-no-signal", file="src/prwlock-general.c", expect="C02.6",
         old="\tif (reader_count == 1 && P_RWLOCK_WRITER_COUNT (lock->waiting_threads))\n\t\tsignal_ok = p_cond_variable_signal (lock->write_cv);",
         new="\tif (reader_count == 0 && P_RWLOCK_WRITER_COUNT (lock->waiting_threads))\n\t\tsignal_ok = p_cond_variable_signal (lock->write_cv);"),
    dict(id="gen-reader-unlock-wrong-waiters", file="src/prwlock-general.c", expect="C02.6",
         old="\tif (reader_count == 1 && P_RWLOCK_WRITER_COUNT (lock->waiting_threads))", new="\tif (reader_count == 1 && P_RWLOCK_READER_COUNT (lock->waiting_threads))"),
    dict(id="gen-signal-write-broadcast-neutral", file="src/prwlock-general.c", expect=None,
         old="if (P_UNLIKELY (p_cond_variable_signal (lock->write_cv) == FALSE)) {", new="if (P_UNLIKELY (p_cond_variable_broadcast (lock->write_cv) == FALSE)) {"),
    dict(id="gen-trylock-missing-unlock", file="src/prwlock-general.c", expect="C02.2",
         old="\tif (lock->active_threads) {\n\t\tif (P_UNLIKELY (p_mutex_unlock (lock->mutex) == FALSE))\n\t\t\tP_ERROR (\"PRWLock::p_rwlock_writer_trylock: p_mutex_unlock() failed(1)\");\n\n\t\treturn FALSE;",
         new="\tif (lock->active_threads) {\n\t\treturn FALSE;"),
    dict(id="gen-read-before-lock", file="src/prwlock-general.c", expect="C02.3",
         old="\tif (P_UNLIKELY (p_mutex_lock (lock->mutex) == FALSE)) {\n\t\tP_ERROR (\"PRWLock::p_rwlock_reader_trylock: p_mutex_lock() failed\");\n\t\treturn FALSE;\n\t}\n",
         new="\tif (P_RWLOCK_WRITER_COUNT (lock->active_threads))\n\t\treturn FALSE;\n\n\tif (P_UNLIKELY (p_mutex_lock (lock->mutex) == FALSE)) {\n\t\tP_ERROR (\"PRWLock::p_rwlock_reader_trylock: p_mutex_lock() failed\");\n\t\treturn FALSE;\n\t}\n"),
    dict(id="gen-waiter-not-restored", file="src/prwlock-general.c", expect="C02.4",
         old="\t\t\t\tP_ERROR (\"PRWLock::p_rwlock_writer_lock: p_cond_variable_wait() failed\");\n\t\t\t\tbreak;",
         new="\t\t\t\tP_ERROR (\"PRWLock::p_rwlock_writer_lock: p_cond_variable_wait() failed\");\n\t\t\t\tp_mutex_unlock (lock->mutex);\n\t\t\t\treturn FALSE;"),
    dict(id="gen-mask-overlap", file="src/prwlock-general.c", expect="C02.5",
         old="#define P_RWLOCK_WRITER_COUNT(lock) (((lock) & 0x3FFF8000) >> 15)", new="#define P_RWLOCK_WRITER_COUNT(lock) (((lock) & 0x3FFF0000) >> 15)"),
    dict(id="gen-reader-trylock-ignores-writer", file="src/prwlock-general.c", expect="C02.5",
         old="\tif (P_RWLOCK_WRITER_COUNT (lock->active_threads)) {\n\t\tif (P_UNLIKELY (p_mutex_unlock (lock->mutex) == FALSE))\n\t\t\tP_ERROR (\"PRWLock::p_rwlock_reader_trylock",
         new="\tif (P_RWLOCK_WRITER_COUNT (lock->waiting_threads)) {\n\t\tif (P_UNLIKELY (p_mutex_unlock (lock->mutex) == FALSE))\n\t\t\tP_ERROR (\"PRWLock::p_rwlock_reader_trylock"),
    dict(id="gen-writer-unlock-else-dropped", file="src/prwlock-general.c", expect="C02.6",
         old="\t} else if (P_RWLOCK_READER_COUNT (lock->waiting_threads)) {", new="\t} else if (P_RWLOCK_WRITER_COUNT (lock->waiting_threads)) {"),
    dict(id="gen-not-form-neutral", file="src/prwlock-general.c", expect=None,
         old="\tif (P_LIKELY (wait_ok == TRUE))\n\t\tlock->active_threads = P_RWLOCK_SET_WRITERS (lock->active_threads, 1);",
         new="\tif (wait_ok)\n\t\tlock->active_threads = P_RWLOCK_SET_WRITERS (lock->active_threads, 1);"),
]
