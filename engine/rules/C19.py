"""C19 Blocking calls are transparent to signal interruptions."""
from plint import guards
from plint.ir import calls, cv, line, show
from plint.retry import SPEC, SLEEPS, check_retry, run_scenario, facts_before, EINTR
# a value each call returns on success (sem_open: any pointer but SEM_FAILED)
SUCCESS = {"sem_wait": 0, "sem_timedwait": 0, "sem_open": 4096, "shm_open": 5, "connect": 0, "accept": 5, "accept4": 5, "recv": 1, "recvfrom": 1, "recvmsg": 1,
           "send": 1, "sendto": 1, "sendmsg": 1, "poll": 1, "select": 1, "nanosleep": 0, "read": 1, "write": 1}
from plint.units import INFORMATIONAL, AnalysisBroken
from plint.wiring import wrapper_paths


def sites(prog, names=None, units=None):
    out = []
    for un, u in sorted(prog.units.items()):
        if un in INFORMATIONAL:
            continue
        if units is not None and un not in units:
            continue
        for fn in u.roots():
            ord_ = {}
            for b, i, s in fn.stmts():
                for c in calls(s):
                    n = c.get("callee")
                    if n in SPEC and (names is None or n in names):
                        ord_[n] = ord_.get(n, 0) + 1
                        out.append((fn, b, i, c, "call:%s#%d" % (n, ord_[n])))
    return out


def run(prog, rep):
    rep.rule("C19.1", "retry table: for every call site of an interruptible blocking call (errno channel), in the scenario 'result = failure value, "
                      "errno = EINTR' every feasible path re-issues the same call before any function exit")
    rep.rule("C19.2", "error channel: calls that return the error number without setting errno (clock_nanosleep) are retried on the *returned* EINTR")
    rep.rule("C19.3", "remaining time: the interrupted sleep is re-issued with the remainder the call filled in; 0 is returned only after the call returned 0")
    rep.rule("C19.4", "close() is not retried on Linux (the descriptor is released even when EINTR is reported): exactly one close, no loop")
    n = 0
    for (fn, b, i, c, site) in sites(prog):
        name = c.get("callee")
        chan = SPEC[name][1]
        rule = "C19.1" if chan == "errno" else "C19.2"
        ok = check_retry(rep, rule, fn, b, i, c, site)
        n += 1
        # ... and only then: a call that succeeded ends the loop whatever errno still holds from an earlier call.  (`-1 || EINTR`
        # instead of `-1 && EINTR` takes a second unit from the semaphore, opens a second descriptor, receives twice.)
        if chan == "errno":
            okv = SUCCESS.get(name, 0)
            res = run_scenario(fn, b, i, c, okv, EINTR, extra_facts=facts_before(fn, b, i), excuse_other_calls=False)
            again = res["retried"] > 0
            rep.ob(rule, fn, site + ":success-ends", not again, "%s returning success is not re-issued, whatever errno holds" % name if not again else
                   "%s succeeded (a stale errno of EINTR is assumed) and a path calls it again: the operation is performed twice - a second unit is taken, a second "
                   "descriptor opened, or the data of a second transfer replace the first" % name, c)
        if name in SLEEPS:
            if ok:
                check_retry(rep, "C19.3", fn, b, i, c, site + ":remaining", need_remaining=True)
            # 0 only after the call returned 0
            results, flow = wrapper_paths(fn, [name])
            bad = None
            for (facts, k, ret, blk, cur) in results:
                if ret.get("e") is not None and guards.eval_const(ret["e"], facts) == 0:
                    if guards.lookup(facts, guards.key(c)) != 0:
                        bad = (ret, flow.witness_lines(cur[0], cur[1]))
            # the remainder exists only for a relative sleep: with TIMER_ABSTIME clock_nanosleep leaves *remain untouched, and the
            # retry's `request = remainder` turns the deadline into whatever the variable held (the zeros of its initialisation: the
            # retry returns at once and the sleep ends early with 0)
            if name == "clock_nanosleep" and len(c["args"]) >= 4:
                fl_ = cv(c["args"][1])
                if fl_ is None:
                    fl_ = guards.eval_const(c["args"][1], guards.EMPTY)
                rep.ob("C19.3", fn, site + ":relative", fl_ == 0, "clock_nanosleep is called in relative mode (flags 0), the mode in which it fills in the remaining time" if fl_ == 0 else
                       "clock_nanosleep is called with flags %s: in absolute mode it never writes the remaining time, so the value copied into the request after an interruption "
                       "is not a deadline and the re-issued sleep returns early" % ("TIMER_ABSTIME" if fl_ == 1 else show(c["args"][1])), c)
            rep.ob("C19.3", fn, site + ":zero", bad is None,
                   "0 is returned only on paths where %s returned 0" % name if bad is None else
                   "returns 0 on a path where %s is not known to have returned 0" % name,
                   bad[0] if bad else c, bad[1] if bad else None)
    # both sleep primitives exist in the source; the analysed configuration selects one
    rep.floor("C19.1", 24, "with and without success: sem_open x2, sem_wait, shm_open x2, connect, accept, recv, recvfrom, send, sendto, poll")
    rep.floor("C19.3", 3)
    cu = prog.unit("psysclose-unix.c")
    fn = cu.fn("p_sys_close")
    closes = [c for (b, i, c) in fn.calls() if c.get("callee") == "close"]
    ok = len(closes) == 1 and not fn.loops()
    rep.ob("C19.4", fn, "close", ok, "one close(), no retry loop" if ok else "%d close() call(s), loops: %d" % (len(closes), len(fn.loops())), fn.loc[0])
    rep.floor("C19.4", 1)
    # C19.5: what the re-issued connect() reports.  POSIX: a connect() interrupted by a signal continues asynchronously and a second
    # connect() on that socket fails with EALREADY - so "retried on EINTR" only ends well if EALREADY is classified like EINPROGRESS
    rep.rule("C19.5", "the retried connect: EALREADY (the answer to a connect re-issued after EINTR) is classified IN_PROGRESS by the errno table, so the retry ends in "
                      "the wait for writability and not in a failure")
    from rules.C09 import switch_table
    pe = prog.unit("perror.c")
    pfn = pe.fn("p_error_get_io_from_system")
    table, default = switch_table(pfn)
    enum = dict(pe.enums.get("PErrorIO_") or [])
    want = enum.get("P_ERROR_IO_IN_PROGRESS")
    if want is None:
        raise AnalysisBroken("PErrorIO enumerators not found")
    got = table.get(114, default)
    rep.ob("C19.5", pfn, "errno:EALREADY", got == want, "EALREADY maps to P_ERROR_IO_IN_PROGRESS: the connect re-issued after EINTR goes on to wait for the connection" if got == want else
           "EALREADY (114) maps to %s, not to P_ERROR_IO_IN_PROGRESS (%s): a blocking connect interrupted by a handled signal fails on its retry while the connection is still being established"
           % (got, want), pfn.loc[0])
    rep.floor("C19.5", 1)
    sleeps = [s for s in sites(prog, names=set(SLEEPS))]
    if not sleeps:
        raise AnalysisBroken("no sleep primitive call site found (p_uthread_sleep anchor changed)")


# the property also covers builds that only have nanosleep(): same unit, clock_nanosleep disabled
THOROUGH_CONFIGS = [dict(name="nanosleep-only", extra_flags={"puthread.c": ["-UPLIBSYS_HAS_CLOCKNANOSLEEP"]})]

# generic robustness battery: renaming every local/parameter in these files must not change any verdict
RENAME_LOCALS = ['src/psocket.c', 'src/puthread.c', 'src/psemaphore-posix.c', 'src/pshm-posix.c']

SELFTEST = [
    dict(id="sem-wait-retry-or-for-and", file="src/psemaphore-posix.c", expect="C19.1",
         old="while ((res = sem_wait (sem->sem_hdl)) == -1 && p_error_get_last_system () == EINTR)", new="while ((res = sem_wait (sem->sem_hdl)) == -1 || p_error_get_last_system () == EINTR)"),
    dict(id="sleep-absolute-mode-keeps-remainder-copy", file="src/puthread.c", expect="C19.3",
         old="clock_nanosleep (CLOCK_MONOTONIC,\n\t\t\t\t\t\t\t   0,", new="clock_nanosleep (CLOCK_MONOTONIC,\n\t\t\t\t\t\t\t   TIMER_ABSTIME,"),
    dict(id="semwait-while-to-if", file="src/psemaphore-posix.c", expect="C19.1",
         old="\twhile ((res = sem_wait (sem->sem_hdl)) == -1 && p_error_get_last_system () == EINTR)\n\t\t;",
         new="\tres = sem_wait (sem->sem_hdl);"),
    dict(id="recv-drop-continue", file="src/psocket.c", expect="C19.1",
         old="\t\tif ((ret = recv (socket->fd, buffer, P_SOCKET_BUFLEN_CAST (buflen), 0)) < 0) {\n\t\t\terr_code = p_error_get_last_net ();\n\n#if !defined (P_OS_WIN) && defined (EINTR)\n\t\t\tif (err_code == EINTR)\n\t\t\t\tcontinue;\n#endif",
         new="\t\tif ((ret = recv (socket->fd, buffer, P_SOCKET_BUFLEN_CAST (buflen), 0)) < 0) {\n\t\t\terr_code = p_error_get_last_net ();\n"),
    dict(id="poll-eintr-timed", file="src/psocket.c", expect="C19.1",
         old="#    else\n\t\t\tcontinue;\n#    endif", new="#    else\n\t\t\tif (timeout < 0)\n\t\t\t\tcontinue;\n\t\t\telse\n\t\t\t\tevret = 0;\n#    endif"),
    dict(id="connect-eintr-break", file="src/psocket.c", expect="C19.1",
         old="\t\tif (err_code == EINTR)\n\t\t\tcontinue;\n\t\telse\n\t\t\tbreak;", new="\t\tbreak;"),
    dict(id="shm-open-wrong-errno", file="src/pshm-posix.c", expect="C19.1", count=2,
         old="p_error_get_last_system () == EINTR)", new="p_error_get_last_system () == EAGAIN)"),
    dict(id="errno-include-dropped", file="src/psocket.c", expect="C19.1",
         old="#  include <errno.h>\n", new=""),
    dict(id="sleep-errno-channel-again", file="src/puthread.c", expect="C19.2",
         old="\t\t\tif (result == EINTR)\n#  else", new="\t\t\tif (p_error_get_last_system () == EINTR)\n#  else"),
    dict(id="sleep-no-remaining", file="src/puthread.c", expect="C19.3",
         old="\t\t\t\ttime_req = time_rem;", new="\t\t\t\tcontinue;"),
    dict(id="semwait-for-form-neutral", file="src/psemaphore-posix.c", expect=None,
         old="\twhile ((res = sem_wait (sem->sem_hdl)) == -1 && p_error_get_last_system () == EINTR)\n\t\t;",
         new="\tfor (;;) {\n\t\tres = sem_wait (sem->sem_hdl);\n\t\tif (res == 0)\n\t\t\tbreak;\n\t\tif (p_error_get_last_system () != EINTR)\n\t\t\tbreak;\n\t}"),
    dict(id="accept-errcode-neutral", file="src/psocket.c", expect=None,
         old="\t\t\tif (p_error_get_last_net () == EINTR)\n\t\t\t\tcontinue;", new="\t\t\tif (err_code == EINTR)\n\t\t\t\tcontinue;"),
]
