"""C16 INI parser: the memory-safety and consistency clauses that are visible in the code's shape."""
import re

from plint import guards
from plint.flow import Flow
from plint.ir import calls, strip_casts, cv, line, show, root_var, walk, ap, true_edge_guards
from plint.units import AnalysisBroken


def restrict(facts, names):
    return frozenset(f for f in facts if any(guards._mentions(f[0], n) for n in names))


def store_root(l):
    """The variable a byte store goes through: `buf[n++]`, `*pos++`, `*pos` -> buf / pos."""
    l = strip_casts(l)
    while l is not None and l["k"] in ("idx", "un", "cast"):
        l = strip_casts(l["base"] if l["k"] == "idx" else l["e"])
    return l["name"] if l is not None and l["k"] == "ref" else None


def arr_size(fn, name):
    for b, i, s in fn.stmts():
        for n in walk(s):
            if n["k"] == "decl" and n["name"] == name:
                t = fn.unit.types[n["t"]]
                if t.get("k") == "arr":
                    return t.get("n")
    return None


def unbounded_conversions(fmt):
    """Conversions that store a string without a field width: %[..] and %s."""
    out = []
    i = 0
    k = 0
    while i < len(fmt):
        if fmt[i] == "%":
            j = i + 1
            if j < len(fmt) and fmt[j] == "%":
                i = j + 1
                continue
            star = False
            if j < len(fmt) and fmt[j] == "*":
                star = True
                j += 1
            w = ""
            while j < len(fmt) and fmt[j].isdigit():
                w += fmt[j]
                j += 1
            if j < len(fmt) and fmt[j] == "[":
                j += 1
                if j < len(fmt) and fmt[j] == "^":
                    j += 1
                if j < len(fmt) and fmt[j] == "]":
                    j += 1
                while j < len(fmt) and fmt[j] != "]":
                    j += 1
                conv = "["
            else:
                conv = fmt[j] if j < len(fmt) else "?"
            if not star:
                if conv in ("[", "s") and not w:
                    out.append((k, None))
                elif conv in ("[", "s"):
                    out.append((k, int(w)))
                k += 1
            i = j + 1
        else:
            i += 1
    return out


def run(prog, rep):
    rep.rule("C16.1", "bounded conversions: every unbounded %[ / %s conversion and every strcpy in the parser writes into an array at least as large as the longest string its source can hold (bounded by the fgets size)")
    rep.rule("C16.2", "single producer: parameter objects are created only by the parse loop from those bounded arrays, which bounds the list getter's buffer")
    rep.rule("C16.3", "consistency: a section is linked into the file only with a non-empty key list (else it is freed); parameters are attached only to a live section; typed getters return the default when the key is missing and release the looked-up copy on every path")
    rep.rule("C16.4", "line lifecycle: the per-line heap string is freed on every loop path; the file is closed on every path after a successful open")
    rep.rule("C16.5", "typed getters use the documented conversion: int through atoi / strtol base 10, double through p_strtod, boolean through the true/false literals then atoi > 0")
    u = prog.unit("pinifile.c")
    # constructors / destructors of the parsed objects stay calls (the typestate below speaks about them); other helpers are inlined
    keep = set()
    for f_ in u.functions.values():
        if not f_.static:
            continue
        if "*" in (f_.d.get("rets") or "") and "PIni" in (f_.d.get("rets") or "") and any(c.get("callee") in ("p_malloc0", "p_malloc") for (b, i, c) in f_.calls()):
            keep.add(f_.name)          # a constructor: allocates the object it returns (a helper that merely returns a section is inlined)
        if f_.params and any(c.get("callee") == "p_free" and root_var(c["args"][0]) == f_.param_names()[0] and strip_casts(c["args"][0])["k"] == "ref" for (b, i, c) in f_.calls()):
            keep.add(f_.name)
    ps = u.fn("p_ini_file_parse").inlined(skip=keep)

    # ---- C16.1 ---------------------------------------------------------------------------
    fg = [c for (b, i, c) in ps.calls() if c.get("callee") == "fgets"]
    if len(fg) != 1:
        raise AnalysisBroken("p_ini_file_parse: expected one fgets call")
    linebuf = root_var(fg[0]["args"][0])
    fsz = cv(fg[0]["args"][1])
    lb = arr_size(ps, linebuf)
    ok = fsz is not None and lb is not None and fsz <= lb
    rep.ob("C16.1", ps, "fgets", ok, "fgets reads at most %s bytes into %s[%s]" % (fsz, linebuf, lb) if ok else "fgets size %s exceeds %s[%s]" % (fsz, linebuf, lb), fg[0])
    maxlen = (fsz or 0) - 1            # longest string a line (and anything cut from it) can hold
    # strings derived from the line buffer: p_strchomp (x) is no longer than x
    derived = {linebuf: maxlen}
    changed = True
    while changed:
        changed = False
        for b, i, n in ps.nodes():
            if n["k"] == "asg":
                r = strip_casts(n["r"])
                if r is not None and r["k"] == "call" and r.get("callee") == "p_strchomp":
                    src = root_var(r["args"][0])
                    dst = root_var(n["l"])
                    if src in derived and dst is not None and derived.get(dst) != derived[src]:
                        if dst not in derived or derived[dst] < derived[src]:
                            derived[dst] = derived[src]
                            changed = True
    nsc = 0
    for b, i, c in ps.calls():
        if c.get("callee") in ("sscanf", "__isoc99_sscanf"):
            nsc += 1
            src = root_var(c["args"][0])
            fmt = strip_casts(c["args"][1])
            fs = fmt.get("v") if fmt is not None and fmt["k"] == "str" else None
            okc, msg = True, ""
            if fs is None or src not in derived:
                okc, msg = False, "sscanf source/format not understood"
            else:
                for (k, w) in unbounded_conversions(fs):
                    if 2 + k >= len(c["args"]):
                        continue
                    dst = root_var(c["args"][2 + k])
                    dsz = arr_size(ps, dst)
                    need = (derived[src] if w is None else min(w, derived[src])) + 1
                    if dsz is None or dsz < need:
                        okc, msg = False, "conversion %d of \"%s\" can store %d bytes into %s[%s]: a long line overflows the stack buffer" % (k + 1, fs, need, dst, dsz)
                    else:
                        derived[dst] = max(derived.get(dst, 0), need - 1)
            rep.ob("C16.1", ps, "sscanf#%d" % nsc, okc, "sscanf (%s, \"%s\"): every string conversion fits its destination array" % (src, fs) if okc else msg, c)
    nsp = 0
    for b, i, c in ps.calls():
        if c.get("callee") in ("strcpy", "__builtin_strcpy", "__builtin___strcpy_chk"):
            nsp += 1
            dst, src = root_var(c["args"][0]), root_var(c["args"][1])
            dsz = arr_size(ps, dst)
            # src = p_strchomp (X): length <= what X can hold
            bound = None
            for b2, i2, n2 in ps.nodes():
                if n2["k"] == "asg" and root_var(n2["l"]) == src:
                    r = strip_casts(n2["r"])
                    if r is not None and r["k"] == "call" and r.get("callee") == "p_strchomp":
                        a = root_var(r["args"][0])
                        asz = arr_size(ps, a)
                        cand = (asz - 1) if asz else derived.get(a)
                        if cand is not None:
                            bound = max(bound or 0, cand)
            okc = dsz is not None and bound is not None and bound + 1 <= dsz
            rep.ob("C16.1", ps, "strcpy#%d" % nsp, okc, "strcpy (%s[%s], <= %s bytes + NUL)" % (dst, dsz, bound) if okc else
                   "strcpy into %s[%s] from a string of up to %s bytes" % (dst, dsz, bound), c)
    # the line limit is not undercut: a zero byte stored at a constant index into one of the parser's text buffers (the "this should
    # not happen" clamps) sits at index >= the longest line fgets can deliver (size - 1); one less cuts the last character of every
    # legal line of exactly that length - a 1024-byte header loses its `]` and with it its section
    if fsz:
        cuts = []
        for (b, i, n) in ps.nodes(elsewhere=True):
            if n["k"] == "asg" and n.get("op") == "=" and cv(n["r"]) == 0 and strip_casts(n["l"])["k"] == "idx":
                ix = cv(strip_casts(n["l"])["i"])
                t_ = u.type_of(strip_casts(n["l"]))
                if ix is not None and ix >= 16 and t_ and t_.get("k") == "int" and t_.get("w") == 8:
                    cuts.append((n, ix))
        short = [(n, ix) for (n, ix) in cuts if ix < fsz - 1]
        rep.ob("C16.1", ps, "clamp", not short, "%d clamp store(s) cut at index >= %d, the longest line fgets delivers" % (len(cuts), fsz - 1) if not short else
               "line %d: a terminator is stored at index %d of a text buffer, but lines of up to %d bytes are legal (fgets reads %d): a line of exactly that length loses its "
               "last character" % (line(short[0][0]), short[0][1], fsz - 1, fsz), short[0][0] if short else ps.loc[0])
    # hand-built strings are terminated: a local char array that is filled byte by byte (`buf[n++] = c`) is a string only after a
    # zero byte was stored behind the last byte written; every call that reads the array as a string (p_strdup, strlen, ...) is
    # reached with that store made after the last byte store on the path.  (Arrays filled by sscanf / fgets / strcpy are
    # terminated by those calls.)
    WRITERS = {"sscanf": None, "__isoc99_sscanf": None, "fgets": (0,), "memset": (0,), "strcpy": (0,), "strncpy": (0,), "memcpy": (0,), "snprintf": (0,), "sprintf": (0,),
               "__builtin___memset_chk": (0,), "__builtin___strcpy_chk": (0,), "__builtin___memcpy_chk": (0,), "__builtin_memset": (0,), "__builtin_memcpy": (0,), "__builtin_strcpy": (0,)}
    nterm = 0
    for fr_ in sorted(u.functions.values(), key=lambda f: f.loc[0]):
        fn_ = fr_.inlined()             # a flush helper that terminates and copies the token is part of the function that owns the array
        arrs = set()
        for A0 in set(n["name"] for (b, i, n) in fn_.nodes(elsewhere=True) if n["k"] == "decl" and arr_size(fn_, n["name"])):
            held = fn_.copies_of(A0)
            for (b, i, n) in fn_.nodes(elsewhere=True):
                if n["k"] == "asg" and (strip_casts(n["l"])["k"] == "idx" or (strip_casts(n["l"])["k"] == "un" and strip_casts(n["l"]).get("op") == "*")) \
                        and store_root(n["l"]) in held and cv(n["r"]) is None:
                    t_ = u.type_of(strip_casts(n["l"]))
                    if t_ and t_.get("k") == "int" and t_.get("w") == 8:
                        arrs.add(A0)
        for A in sorted(arrs):
            unterminated = []
            held = fn_.copies_of(A)

            def ts(st, b, i, stmt, A=A, unterminated=unterminated, held=held):
                facts, clean = st
                for n in walk(stmt):
                    if n["k"] == "call":
                        for ai, a in enumerate(n.get("args", ())):
                            a2 = strip_casts(a)
                            if a2 is not None and a2["k"] == "ref" and a2["name"] in held:
                                w = WRITERS.get(n.get("callee"), ())
                                if n.get("callee") in WRITERS and (w is None or ai in w):
                                    clean = True
                                elif not clean:
                                    unterminated.append((line(n), n.get("callee")))
                    if n["k"] == "asg" and (strip_casts(n["l"])["k"] == "idx" or (strip_casts(n["l"])["k"] == "un" and strip_casts(n["l"]).get("op") == "*")) and store_root(n["l"]) in held:
                        clean = cv(n["r"]) == 0
                return [(guards.transfer(facts, stmt), clean)]

            def te(st, b, to, on):
                f2 = guards.edge_assume(st[0], b, on)
                return None if f2 is None else (f2, st[1])
            Flow(fn_, [(guards.EMPTY, False)], ts, te, max_states=20000).run()
            nterm += 1
            rep.ob("C16.1", fr_, "terminated:" + A, not unterminated, "%s is handed on as a string only after a zero byte was stored behind the last byte written into it" % A if not unterminated else
                   "line %d: %s is read as a string by %s on a path where the last store into it was a data byte: without the terminating zero the element continues with whatever an "
                   "earlier, longer element left in the buffer" % (unterminated[0][0], A, unterminated[0][1]), unterminated[0][0] if unterminated else fr_.loc[0])
    rep.floor("C16.1", 8 + 1)

    # ---- C16.2 -----------------------------------------------------------------------------
    producers = [(f, c) for f in u.roots(skip=tuple(sorted(keep))) for (b, i, c) in f.calls() if c.get("callee") == "pp_ini_file_parameter_new"]
    okp = len(producers) == 1 and producers[0][0].name == "p_ini_file_parse"
    vmax = None
    if okp:
        c = [c_ for (b, i, c_) in ps.calls() if c_.get("callee") == "pp_ini_file_parameter_new"][0]
        vsz = arr_size(ps, root_var(c["args"][1]))
        ksz = arr_size(ps, root_var(c["args"][0]))
        okp = vsz is not None and ksz is not None
        vmax = vsz
    lg = u.fn("p_ini_file_parameter_list")
    bsz = None
    bufname = None
    for b, i, n in lg.nodes():
        if n["k"] == "decl" and lg.unit.types[n["t"]].get("k") == "arr":
            bufname, bsz = n["name"], lg.unit.types[n["t"]].get("n")
    okp = okp and bsz is not None and vmax is not None and bsz >= vmax
    rep.ob("C16.2", lg, "producer", okp, "stored values come only from the parse loop's %s-byte array; the list getter's %s[%s] holds any of them" % (vmax, bufname, bsz) if okp else
           "stored values are not bounded by the list getter's buffer (producers: %s, value array %s, buffer %s)" % ([f.name for f, c in producers], vmax, bsz), lg.loc[0])
    rep.floor("C16.2", 1)

    # ---- C16.3 / C16.4: typestate over the parse loop ---------------------------------------------
    def var_assigned_from(fn, callee, argroot=None):
        for b, i, n in fn.nodes():
            if n["k"] == "asg" and strip_casts(n["l"])["k"] == "ref":
                r = strip_casts(n["r"])
                if r is not None and r["k"] == "call" and r.get("callee") == callee and (argroot is None or root_var(r["args"][0]) == argroot):
                    return strip_casts(n["l"])["name"]
        return None
    V_LINE = var_assigned_from(ps, "p_strchomp", linebuf)
    V_FILE = var_assigned_from(ps, "fopen")
    V_SEC = var_assigned_from(ps, "pp_ini_file_section_new")
    if not (V_LINE and V_FILE and V_SEC):
        raise AnalysisBroken("p_ini_file_parse: line / file / section variables not found")
    # (plus the result temporaries of inlined helpers: `while (read_line (...))` must not leave the loop on the path where the helper said TRUE)
    rets_ = set(strip_casts(n["l"])["name"] for (b, i, n) in ps.nodes(elsewhere=True) if n["k"] == "asg" and strip_casts(n["l"]) is not None and strip_casts(n["l"])["k"] == "ref"
                and strip_casts(n["l"])["name"].startswith("__ret_") and cv(n["r"]) is not None)
    TR = tuple(sorted(ps.copies_of(V_SEC))) + (V_LINE, V_FILE) + tuple(sorted(rets_))
    probs = []
    linked = [0]

    def on_stmt(st, b, i, stmt):
        facts, ln_live, file_open = st
        for c in calls(stmt):
            cn = c.get("callee")
            if cn in ("p_list_prepend", "p_list_append") and len(c["args"]) == 2:
                lst = strip_casts(c["args"][0])
                if lst is not None and lst["k"] == "member" and lst["field"] == "sections":
                    sec = guards.key(c["args"][1])
                    linked[0] += 1
                    if not any(fk == "%s->keys" % sec and fop == "!=" and fv == 0 for (fk, fop, fv) in facts):
                        probs.append(("C16.3", "section:empty", "line %d: a section is linked into the file without its key list known non-empty: a listed section may have no key" % line(c), line(c)))
                if lst is not None and lst["k"] == "member" and lst["field"] == "keys":
                    sec = root_var(lst)
                    if not any(fk == sec and fop == "!=" and fv == 0 for (fk, fop, fv) in facts):
                        probs.append(("C16.3", "param:nosection", "line %d: a parameter is attached while no section is open" % line(c), line(c)))
            if cn == "p_free" and root_var(c["args"][0]) == V_LINE:
                ln_live = False
            if cn == "fclose":
                file_open = False
        for n in walk(stmt):
            if n["k"] == "asg" and root_var(n["l"]) == V_LINE and strip_casts(n["l"])["k"] == "ref":
                if ln_live:
                    probs.append(("C16.4", "line:overwrite", "line %d: the previous line string is overwritten without being freed" % line(n), line(n)))
                ln_live = "pending"
            if n["k"] == "asg" and root_var(n["l"]) == V_FILE:
                file_open = "pending"
        if stmt["k"] == "ret":
            if ln_live is True:
                probs.append(("C16.4", "line:leak", "line %d: a path returns with the line string not freed" % line(stmt), line(stmt)))
            if file_open is True:
                probs.append(("C16.4", "file:leak", "line %d: a path returns with the file still open" % line(stmt), line(stmt)))
        f2 = restrict(guards.transfer(facts, stmt), TR)
        return [(f2, ln_live, file_open)]

    def on_edge(st, b, to, on):
        facts, ln_live, file_open = st
        f2 = guards.edge_assume(facts, b, on)
        if f2 is None:
            return None
        f2 = restrict(f2, TR)
        if ln_live == "pending":
            if guards.lookup(f2, V_LINE) == 0:
                ln_live = False
            elif any(fk == V_LINE and fop == "!=" and fv == 0 for (fk, fop, fv) in f2):
                ln_live = True
        if file_open == "pending":
            if guards.lookup(f2, V_FILE) == 0:
                file_open = False
            elif any(fk == V_FILE and fop == "!=" and fv == 0 for (fk, fop, fv) in f2):
                file_open = True
        return (f2, ln_live, file_open)
    Flow(ps, [(guards.EMPTY, False, False)], on_stmt, on_edge, max_states=60000).run()
    seen = set()
    had = set()
    for (rule, site, msg, ln) in probs:
        if (site, ln) in seen:
            continue
        seen.add((site, ln))
        had.add(rule)
        rep.ob(rule, ps, site, False, msg, ln)
    if "C16.3" not in had:
        rep.ob("C16.3", ps, "section", linked[0] >= 2, "sections are linked only with a non-empty key list; parameters only into an open section", ps.loc[0])
    if "C16.4" not in had:
        rep.ob("C16.4", ps, "lifecycle", True, "every line string is freed before the next one is read or the function returns; the file is closed on every path after fopen succeeded", ps.loc[0])
    # empty sections are freed rather than dropped
    frees = [c for (b, i, c) in ps.calls() if c.get("callee") == "pp_ini_file_section_free"]
    rep.ob("C16.3", ps, "section:freed", len(frees) >= 2, "a section without keys is freed (both when the next section starts and at end of file)" if len(frees) >= 2 else
           "a section without keys is dropped without being freed on some path", ps.loc[0])

    # getters
    for gname, kind in (("p_ini_file_parameter_int", "int"), ("p_ini_file_parameter_double", "double"),
                        ("p_ini_file_parameter_boolean", "boolean"), ("p_ini_file_parameter_list", "list"), ("p_ini_file_parameter_string", "string")):
        # the getter with its lookup helper inlined, whatever the helper's signature is (returns the copy, or a boolean plus an
        # out-parameter): the copy is what p_strdup makes of a stored `->value`
        g = u.fn(gname)
        dup = [n for (b, i, n) in g.nodes(elsewhere=True) if n["k"] == "asg" and strip_casts(n["l"]) is not None and strip_casts(n["l"])["k"] == "ref"
               and strip_casts(n["r"]) is not None and strip_casts(n["r"])["k"] == "call" and strip_casts(n["r"]).get("callee") == "p_strdup"
               and strip_casts(strip_casts(n["r"])["args"][0]) is not None and strip_casts(strip_casts(n["r"])["args"][0])["k"] == "member"
               and strip_casts(strip_casts(n["r"])["args"][0])["field"] == "value"]
        okg, msg = len(dup) == 1, "the getter does not copy the stored value exactly once"
        rets = []
        H = g.copies_of(strip_casts(dup[0]["l"])["name"]) if dup else set()
        gvals = {}
        for b, i, n in g.nodes(elsewhere=True):
            if n["k"] == "asg" and strip_casts(n["l"]) is not None and strip_casts(n["l"])["k"] == "ref":
                gvals.setdefault(strip_casts(n["l"])["name"], []).append(cv(n["r"]))
        dparam = g.param_names()[3] if len(g.param_names()) > 3 else None
        retvars = set(strip_casts(r_.get("e"))["name"] for (b, i, r_) in g.returns() if strip_casts(r_.get("e")) is not None and strip_casts(r_.get("e"))["k"] == "ref")
        KEEP = tuple(sorted(H | retvars | (g.copies_of(dparam) if dparam else set()) |
                            set(v for v, vals in gvals.items() if all(x is not None for x in vals) or (v.startswith("__ret_") and any(x is not None for x in vals)))))

        def gs(st, b, i, stmt, rets=rets, dup=dup, H=H, KEEP=KEEP):
            facts, have, freed = st
            for n in walk(stmt):
                if dup and n is dup[0]:
                    have = True
            for c in calls(stmt):
                if c.get("callee") == "p_free" and root_var(c["args"][0]) in H:
                    freed = True
            if stmt["k"] == "ret":
                rets.append((facts, have, freed, stmt))
            return [(restrict(guards.transfer(facts, stmt), KEEP), have, freed)]

        def ge(st, b, to, on, KEEP=KEEP):
            f2 = guards.edge_assume(st[0], b, on)
            return None if f2 is None else (restrict(f2, KEEP),) + st[1:]
        Flow(g, [(guards.EMPTY, False, False)], gs, ge, max_states=40000).run()
        dparam = g.param_names()[3] if len(g.param_names()) > 3 else None
        defaults = g.copies_of(dparam) if dparam else set()
        for (facts, have, freed, r) in rets:
            missing = (not have) or any(guards.lookup(facts, h) == 0 for h in H)
            e = strip_casts(r.get("e"))
            if missing:
                if kind == "list":
                    if cv(r.get("e")) != 0 and not (e is not None and e["k"] == "ref" and guards.lookup(facts, e["name"]) == 0):
                        okg, msg = False, "line %d: a missing key does not yield NULL" % line(r)
                elif kind == "string":
                    if not (e is not None and e["k"] == "call" and e.get("callee") == "p_strdup" and root_var(e["args"][0]) == dparam) and not (
                            e is not None and e["k"] == "ref" and any(fop == "=:" and fk == e["name"] and str(fv).startswith("p_strdup(%s" % dparam) for (fk, fop, fv) in facts)):
                        okg, msg = False, "line %d: a missing key does not yield a copy of the default" % line(r)
                elif not (e is not None and e["k"] == "ref" and (e["name"] == dparam or any(fop == "=:" and fk == e["name"] and fv == dparam for (fk, fop, fv) in facts))):
                    okg, msg = False, "line %d: a missing key returns %s, not the default value" % (line(r), show(r.get("e")))
            else:
                if kind != "string" and not freed:
                    okg, msg = False, "line %d: the looked-up copy of the value is not released on this path" % line(r)
                if kind == "string" and not (e is not None and e["k"] == "ref" and e["name"] in H):
                    okg, msg = False, "line %d: the string getter does not return the looked-up copy" % line(r)
        rep.ob("C16.3", g, "getter", okg, "default on a missing key; the looked-up copy is released on every other path" if okg else msg, g.loc[0])
    rep.floor("C16.3", 7)
    rep.floor("C16.4", 1)

    # ---- C16.5 ------------------------------------------------------------------------------------
    gi = u.fn("p_ini_file_parameter_int", raw=True).inlined(skip=("pp_ini_file_find_parameter",))
    conv = [c for (b, i, c) in gi.calls() if c.get("callee") in ("atoi", "strtol", "strtoul", "atol", "strtoll", "sscanf")]
    oki = len(conv) == 1 and root_var(conv[0]["args"][0]) == (var_assigned_from(gi, "pp_ini_file_find_parameter") or "val") and (conv[0]["callee"] == "atoi" or
                                                                       (conv[0]["callee"] in ("strtol", "atol") and (len(conv[0]["args"]) < 3 or cv(conv[0]["args"][2]) == 10)))
    rep.ob("C16.5", gi, "int", oki, "the int getter converts the text as a decimal number (%s)" % conv[0]["callee"] if oki else
           "the int getter converts with %s: the documented decimal (atoi-style) conversion is changed (e.g. 010 or 0x10 are read in another radix)" %
           (show(conv[0]) if conv else "nothing"), conv[0] if conv else gi.loc[0])
    def narrowed(fn, call):
        """a conversion that loses part of the converted number on its way to the return: (cast node, from, to)"""
        holders = set()
        for (b, i, n) in fn.nodes(elsewhere=True):
            if n["k"] == "asg" and strip_casts(n["l"]) is not None and strip_casts(n["l"])["k"] == "ref" and strip_casts(n["r"]) is call:
                holders |= fn.copies_of(strip_casts(n["l"])["name"])
            elif n["k"] == "decl" and n.get("init") is not None and strip_casts(n["init"]) is call:
                holders |= fn.copies_of(n["name"])
        for (b, i, n) in fn.nodes(elsewhere=True):
            if n["k"] != "cast":
                continue
            inner = n["e"]
            si = strip_casts(inner)
            if not (si is call or (si is not None and si["k"] == "ref" and si["name"] in holders)):
                continue
            while inner is not None and inner["k"] == "cast" and inner.get("ck") in ("LValueToRValue", "NoOp"):
                inner = inner["e"]
            t_out, t_in = u.types[n["t"]], u.type_of(inner)
            if not t_out or not t_in or not t_out.get("w") or not t_in.get("w"):
                continue
            rt = u.types[fn.d["ret"]]          # narrowing to the getter's own result type is the conversion itself (strtol -> pint)
            if (t_out["w"] < t_in["w"] and t_out["w"] < (rt.get("w") or 0)) or (t_in.get("k") == "float" and t_out.get("k") == "int" and rt.get("k") == "float"):
                return (n, t_in.get("s"), t_out.get("s"))
        return None
    if oki:
        nr = narrowed(gi, conv[0])
        if nr is not None:
            rep.ob("C16.5", gi, "int:width", False, "line %d: the converted number passes through %s on its way out (from %s)" % (line(nr[0]), nr[2], nr[1]), nr[0])
    gd = u.fn("p_ini_file_parameter_double", raw=True).inlined(skip=("pp_ini_file_find_parameter",))
    conv = [c for (b, i, c) in gd.calls() if c.get("callee") in ("p_strtod", "strtod", "atof", "sscanf")]
    okd = len(conv) == 1 and conv[0]["callee"] == "p_strtod" and root_var(conv[0]["args"][0]) == (var_assigned_from(gd, "pp_ini_file_find_parameter") or "val")
    msgd = "the double getter does not use p_strtod (locale-dependent or different syntax)"
    if okd:
        nr = narrowed(gd, conv[0])
        if nr is not None:
            okd, msgd = False, ("line %d: the result of p_strtod passes through %s before it is returned as %s: every value is rounded to single precision "
                                "(0.1 comes back as 0.10000000149, 1e60 as infinity)" % (line(nr[0]), nr[2], nr[1]))
    rep.ob("C16.5", gd, "double", okd, "the double getter uses the locale-independent p_strtod and returns its result at full width" if okd else msgd, gd.loc[0])
    gb = u.fn("p_ini_file_parameter_boolean", raw=True).inlined(skip=("pp_ini_file_find_parameter",))
    lits = sorted(strip_casts(c["args"][1]).get("v") for (b, i, c) in gb.calls() if c.get("callee") == "strcmp" and strip_casts(c["args"][1])["k"] == "str")
    okb = lits == ["FALSE", "TRUE", "false", "true"] and any(c.get("callee") == "atoi" for (b, i, c) in gb.calls())
    rep.ob("C16.5", gb, "boolean", okb, "the boolean getter recognises true/TRUE/false/FALSE, then a positive number" if okb else "the boolean getter's literals are %s" % lits, gb.loc[0])
    # ... and hands out TRUE or FALSE only: pboolean is a plain int, so `(pboolean) atoi (val)` returns 2 for "2" (not equal to TRUE) and
    # a negative, truthy number for "-1" (documented FALSE).  Every returned value is a 0/1 constant, a 0/1-valued expression, or the
    # caller's default handed back untouched.
    from rules.C10 import boolean_valued
    rawb = []
    for (b, i, r) in gb.returns():
        e = r.get("e")
        es = strip_casts(e)
        if es is not None and es["k"] == "ref" and es.get("decl") == "param":
            continue
        if not boolean_valued(e, gb, {}):
            rawb.append((line(r), show(e)))
    nretb = len(list(gb.returns()))
    rep.ob("C16.5", gb, "boolean:normalised", nretb >= 1 and not rawb, "each of the %d returns hands out 0/1 (or the caller's default)" % nretb if (nretb and not rawb) else
           ("line %d: the boolean getter returns %s, which is not normalised to TRUE/FALSE: \"2\" reads as 2 (not equal to TRUE) and \"-1\" as a truthy value where FALSE is documented"
            % rawb[0] if rawb else "no return found"), gb.loc[0])
    # list getter: an element is emitted only for a non-empty token (runs of blanks and a blank after '{' produce nothing)
    gl = u.fn("p_ini_file_parameter_list").inlined()
    tokbuf = None
    cnts = set()
    larrs = set(n["name"] for (b, i, n) in gl.nodes(elsewhere=True) if n["k"] == "decl" and arr_size(gl, n["name"]))
    for b, i, n in gl.nodes():
        if n["k"] == "asg":
            l = strip_casts(n["l"])
            if l is not None and l["k"] == "idx" and strip_casts(l["base"])["k"] == "ref":
                iv = strip_casts(l["i"])
                if iv is not None and iv["k"] == "un" and "++" in iv["op"]:
                    iv = strip_casts(iv["e"])
                if iv is not None and iv["k"] == "ref":
                    tokbuf = strip_casts(l["base"])["name"]
                    cnts.add(iv["name"])
            elif l is not None and l["k"] == "un" and l.get("op") == "*" and cv(n["r"]) is None:
                # write-pointer form: `*pos++ = c` with pos a cursor into a local array; "non-empty" is `pos > buf` / `pos != buf`
                pv = strip_casts(l["e"])
                if pv is not None and pv["k"] == "un" and "++" in pv["op"]:
                    pv = strip_casts(pv["e"])
                if pv is not None and pv["k"] == "ref":
                    for A0 in larrs:
                        if pv["name"] in gl.copies_of(A0) and pv["name"] != A0:
                            tokbuf = A0
                            cnts.add(pv["name"])
    emits = []
    for b, i, c in gl.calls():
        if c.get("callee") in ("p_list_append", "p_list_prepend") and any(x.get("callee") == "p_strdup" and root_var(x["args"][0]) == tokbuf for x in calls(c)):
            emits.append((b, i, c))
    if not tokbuf or not emits:
        raise AnalysisBroken("p_ini_file_parameter_list: token buffer / emit sites not found")
    for k, (b, i, c) in enumerate(emits):
        def nonempty(x):
            if x["k"] != "bin":
                return False
            lv, rv_ = strip_casts(x["l"]), cv(x["r"])
            if lv is None or lv["k"] != "ref" or lv["name"] not in cnts:
                return False
            rr = strip_casts(x["r"])
            if rv_ is None and rr is not None and rr["k"] == "ref" and rr["name"] == tokbuf:
                return x["op"] in (">", "!=")             # cursor beyond the start of the buffer
            return (x["op"] in (">", "!=") and rv_ == 0) or (x["op"] == ">=" and rv_ == 1)
        g = true_edge_guards(gl, b.id, nonempty)
        rep.ob("C16.5", gl, "list:token#%d" % (k + 1), bool(g), "a list element is emitted only when the token holds at least one character (%s)" % show(g[0]) if g else
               "line %d: a list element is emitted without testing that the token is non-empty: two blanks in a row, or a blank after '{', produce empty elements" % line(c), c)
    rep.floor("C16.5", 6)

    # ---- C16.6 grammar table ------------------------------------------------------------------------
    rep.rule("C16.6", "grammar table: the line patterns are exactly the documented ones ([name] header; key = \"v\", key = 'v', key = v up to ; or #), tried in that order with the "
                      "documented conversion counts, and the header pattern is applied only to a line whose first byte is '[' and whose last byte is ']'")
    GRAMMAR = [("header", "[%[^]]", 1), ("double-quoted", "%[^=] = \"%[^\"]\"", 2), ("single-quoted", "%[^=] = '%[^']'", 2), ("plain", "%[^=] = %[^;#]", 2)]
    sc = []
    nomatch = {}
    for b, i, c in ps.calls():
        if c.get("callee") in ("sscanf", "__isoc99_sscanf"):
            fmt = strip_casts(c["args"][1])
            fs = fmt.get("v") if fmt is not None and fmt["k"] == "str" else None
            want = None
            nomatch[id(c)] = "false"
            for b2, i2, n2 in ps.nodes(elsewhere=True):
                if n2["k"] == "bin" and n2["op"] in ("==", "!=") and strip_casts(n2["l"]) is c:
                    want = cv(n2["r"])
                    nomatch[id(c)] = "false" if n2["op"] == "==" else "true"      # `sscanf (...) != 2` leaves on its true edge
            sc.append((b, i, c, re.sub(r"\s+", " ", fs or ""), want))
    sc.sort(key=lambda t: (line(t[2]), t[2]["loc"][1]))
    okt = len(sc) == len(GRAMMAR)
    msg = "the parser applies %d line patterns, the documented grammar has %d" % (len(sc), len(GRAMMAR))
    if okt:
        for (b, i, c, fs, want), (nm, gf, gn) in zip(sc, GRAMMAR):
            if fs != gf or want != gn:
                okt, msg = False, "line %d: the %s pattern is \"%s\" == %s, the documented grammar is \"%s\" == %d" % (line(c), nm, fs, want, gf, gn)
                break
    if okt:
        # order: the false edge of each pattern's test leads to the next pattern
        for k in range(1, len(sc) - 1):
            blk = sc[k][0]
            nxt = [to for (to, on) in blk.succs if on == nomatch[id(sc[k][2])]]
            found = None
            seen, work = set(), list(nxt)
            while work and found is None:
                x = work.pop(0)
                if x in seen:
                    continue
                seen.add(x)
                for (b2, i2, c2, _, _) in sc:
                    if b2.id == x:
                        found = c2
                        break
                if found is None:
                    work.extend(to for (to, on) in ps.blocks[x].succs)
            if found is not sc[k + 1][2]:
                okt, msg = False, "line %d: when the %s pattern does not match, the next pattern tried is not the %s one" % (line(sc[k][2]), GRAMMAR[k][0], GRAMMAR[k + 1][0])
    rep.ob("C16.6", ps, "patterns", okt, "the four line patterns, their order and conversion counts are the documented grammar" if okt else msg, sc[0][2] if sc else ps.loc[0])
    if sc:
        hb, hi, hc = sc[0][0], sc[0][1], sc[0][2]
        lv = root_var(hc["args"][0])

        def guard_kind(e):
            e = strip_casts(e)
            if e is None or e["k"] != "bin" or e["op"] != "==" or cv(e["r"]) not in (91, 93):
                return None
            l = strip_casts(e["l"])
            if l is None or l["k"] != "idx" or root_var(l["base"]) != lv:
                return None
            if cv(l["i"]) == 0 and cv(e["r"]) == 91:
                return "first"
            ix = strip_casts(l["i"])
            if ix is not None and ix["k"] == "bin" and ix["op"] == "-" and cv(ix["r"]) == 1 and cv(e["r"]) == 93:
                a = strip_casts(ix["l"])
                if a is not None and a["k"] == "call" and a.get("callee") in ("strlen", "__builtin_strlen") and root_var(a["args"][0]) == lv:
                    return "last"
            return None

        have = {}
        for gk in ("first", "last"):
            hits = true_edge_guards(ps, hb.id, lambda x, gk=gk: guard_kind(x) == gk)
            if hits:
                have[gk] = line(hits[0])
        for gk, what in (("first", "first byte is '['"), ("last", "last byte is ']'")):
            rep.ob("C16.6", ps, "header:" + gk, gk in have, "the header pattern is applied only when the line's %s (line %s)" % (what, have.get(gk)) if gk in have else
                   "line %d: the header pattern is applied without testing that the line's %s: lines such as `[x]y = v` or `[sec] ; note` open a section and swallow the keys that follow" % (line(hc), what), hc)
    rep.floor("C16.6", 3)

    # ---- C16.8 -----------------------------------------------------------------------------
    rep.rule("C16.8", "byte tests can succeed: a comparison of a line byte with a constant reads the byte through a type that can hold the constant (the BOM bytes "
                      "0xEF 0xBB 0xBF 0xFE 0xFF do not fit a signed char: compared as plain char on a signed-char platform, no BOM is ever recognised and the "
                      "first section of such a file is lost)")
    dead = []
    nbyte = 0
    for b, i, n in ps.nodes(elsewhere=True):
        if n["k"] != "bin" or n["op"] not in ("==", "!="):
            continue
        for side, other in (("l", "r"), ("r", "l")):
            c_ = cv(n[other])
            e_ = n[side]
            if c_ is None or cv(e_) is not None:
                continue
            # peel the implicit promotions: the type the value is actually read at
            while e_ is not None and e_["k"] == "cast" and not e_.get("explicit") and e_.get("ck") in ("IntegralCast", "LValueToRValue", "NoOp"):
                e_ = e_["e"]
            t_ = u.type_of(e_) if e_ is not None else None
            if not t_ or t_.get("k") != "int" or not t_.get("w") or t_["w"] > 8:
                continue
            root = root_var(e_)
            if root != linebuf and not (V_LINE and root == V_LINE):
                continue
            nbyte += 1
            lo, hi = (-(1 << (t_["w"] - 1)), (1 << (t_["w"] - 1)) - 1) if t_.get("sg") else (0, (1 << t_["w"]) - 1)
            if not (lo <= c_ <= hi):
                dead.append((n, c_, t_.get("s")))
    rep.ob("C16.8", ps, "bytes", not dead and nbyte > 0, "%d comparisons of line bytes with constants read the byte at a type that holds the constant" % nbyte if (not dead and nbyte) else
           ("line %d: a line byte read as %s is compared with 0x%X, which that type cannot hold: the test never succeeds, the byte-order mark is not skipped and the header on the "
            "first line is not recognised" % (line(dead[0][0]), dead[0][2], dead[0][1]) if dead else "no byte comparison found in the parse loop"), dead[0][0] if dead else ps.loc[0])
    # the byte-order-mark table: the number of bytes skipped in front of the line is the length of the standard mark the line
    # starts with, and 0 otherwise.  Decided on the slice from the fgets that filled the buffer to the trim call that takes
    # `buffer + skip`: (a) wherever a non-zero skip k reaches the trim call, the path has tested the first k bytes equal to one
    # standard mark of k bytes; (b) with the bytes of a mark assumed after the fgets, every path arrives with skip = its length;
    # (c) a line that starts with '[' arrives with skip 0.  (UTF-32 LE, FF FE 00 00, starts with the UTF-16 LE mark: either length.)
    BOMS = [(0xEF, 0xBB, 0xBF), (0xFE, 0xFF), (0xFF, 0xFE), (0x00, 0x00, 0xFE, 0xFF), (0xFF, 0xFE, 0x00, 0x00)]
    chomps = [c for (b, i, c) in ps.calls() if c.get("callee") == "p_strchomp" and root_var(c["args"][0]) == linebuf]
    shiftv = None
    for c in chomps:
        a = strip_casts(c["args"][0])
        if a is not None and a["k"] == "bin" and a["op"] == "+":
            for side in ("l", "r"):
                e_ = strip_casts(a[side])
                if e_ is not None and e_["k"] == "ref" and e_["name"] != linebuf:
                    shiftv = e_["name"]
    judged = False
    if shiftv is not None:
        lnames = sorted(ps.copies_of(linebuf))          # the buffer and the pointer locals that hold its address (helper parameters, typed views)

        def byte_at(st, j):
            for nm in lnames:
                v = guards.lookup(st, "%s[%d]" % (nm, j))
                if v is not None:
                    return v
            return None

        def bom_run(assumed):
            arrivals = []

            def bs(st, b, i, stmt):
                for c in calls(stmt):
                    if any(c is x for x in chomps):
                        arrivals.append((guards.lookup(st, shiftv), st, line(c)))
                        return []
                return [guards.transfer(st, stmt)]

            def be(st, b, to, on):
                if assumed:
                    # the assumed line start holds for the buffer under every name it goes by
                    for nm in lnames:
                        for k_, v_ in enumerate(assumed):
                            if v_ is not None and st is not None and guards.lookup(st, "%s[%d]" % (nm, k_)) is None:
                                st = guards.add_fact(st, "%s[%d]" % (nm, k_), "==", v_) or st
                return guards.edge_assume(st, b, on)
            Flow(ps, [guards.EMPTY], bs, be, max_states=6000).run()
            return arrivals
        arr = bom_run(None)
        judged = bool(arr) and all(k_ is not None for (k_, st_, ln_) in arr) and any(k_ for (k_, st_, ln_) in arr)
        # the form this clause reads: the buffer's bytes are looked at only in comparisons of one byte with a constant (a word packed
        # from four bytes, or a library comparison against a table, is another form and is not judged)
        compared = set()
        for (b_, i_, n_) in ps.nodes(elsewhere=True):
            if n_["k"] == "bin" and n_["op"] in ("==", "!="):
                for s_, o_ in (("l", "r"), ("r", "l")):
                    e_ = strip_casts(n_[s_])
                    if e_ is not None and e_["k"] == "idx" and cv(n_[o_]) is not None and cv(e_["i"]) is not None:
                        compared.add(id(e_))
        for (b_, i_, n_) in ps.nodes(elsewhere=True):
            if n_["k"] == "idx" and root_var(n_) in lnames and id(n_) not in compared:
                judged = False
    if shiftv is not None and not judged:
        rep.note("C16.8 mark table: the number of skipped bytes is not decided by byte tests with constant results in this form (table-driven or library comparison): not judged")
    if judged:
        bad = None
        for (k_, st_, ln_) in arr:
            if k_ > 0 and not any(len(P) == k_ and all(byte_at(st_, j) == P[j] for j in range(k_)) for P in BOMS):
                known = ["byte %d == 0x%02X" % (j, byte_at(st_, j)) for j in range(4) if byte_at(st_, j) is not None]
                bad = (ln_, "%d bytes are skipped in front of a line of which only %s is known: that is no %d-byte byte-order mark, the first characters of an ordinary line are cut off" % (
                    k_, ", ".join(known) or "nothing", k_))
        rep.ob("C16.8", ps, "bom:only-marks", bad is None, "bytes are skipped in front of a line only after the tests for a whole standard byte-order mark of that length succeeded"
               if bad is None else ("line %d: %s" % bad), bad[0] if bad else ps.loc[0])
        for P in BOMS[:4]:
            assumed = list(P) + ([None] * (4 - len(P)))
            if len(P) == 2:
                assumed[2] = 0x5B         # not the longer UTF-32 form
            arr = bom_run(assumed)
            wrong = [(k_, ln_) for (k_, st_, ln_) in arr if k_ != len(P)]
            rep.ob("C16.8", ps, "bom:%s" % "".join("%02X" % x for x in P), bool(arr) and not wrong, "a line starting with the mark %s is trimmed from byte %d" % (" ".join("%02X" % x for x in P), len(P))
                   if (arr and not wrong) else ("line %d: a line that starts with the byte-order mark %s reaches the trim with %s bytes skipped instead of %d: the mark stays in front of the header "
                                                "and the first section of the file is lost" % (wrong[0][1], " ".join("%02X" % x for x in P), wrong[0][0], len(P)) if wrong else "the trim call was not reached"),
                   wrong[0][1] if wrong else ps.loc[0])
        arr = bom_run([0x5B, None, None, None])
        wrong = [(k_, ln_) for (k_, st_, ln_) in arr if k_ != 0]
        rep.ob("C16.8", ps, "bom:none", bool(arr) and not wrong, "a line starting with '[' is trimmed from byte 0" if (arr and not wrong) else
               ("line %d: a header line without any mark loses its first %s bytes" % (wrong[0][1], wrong[0][0]) if wrong else "the trim call was not reached"), wrong[0][1] if wrong else ps.loc[0])
    rep.floor("C16.8", 1 + (6 if judged else 0))

    # ---- C16.7 -----------------------------------------------------------------------------
    rep.rule("C16.7", "value pipeline: what the parse loop stores is the trimmed text - a section name and a key/value pair reach their constructors only as copies of "
                      "p_strchomp results, and the empty-quotes test (\"\" and '' mean the empty string) is made on the trimmed value, so blanks left between the "
                      "closing quote and a trailing comment cannot hide the quotes")
    QUOTES = ('""', "''")
    ctors = [(b, i, c) for (b, i, c) in ps.calls() if c.get("callee") in keep and "*" in (u.functions[c["callee"]].d.get("rets") or "") and c.get("args")]
    if not ctors:
        raise AnalysisBroken("p_ini_file_parse: no constructor call found for C16.7")
    pipe_bad = {}
    pipe_seen = {}
    quote_tests = []

    def st_get(st, v):
        for x in st:
            if x[0] == "s" and x[1] == v:
                return x[2]
        return None

    def st_drop(st, v):
        return frozenset(x for x in st if x[1] != v)

    # flags and helper results the loop branches on (`if (pp_trim_in_place (key))`): their constant values prune the paths on which
    # a helper failed and the caller nevertheless went on
    asg_vals = {}
    for b, i, n in ps.nodes(elsewhere=True):
        if n["k"] == "asg" and strip_casts(n["l"]) is not None and strip_casts(n["l"])["k"] == "ref":
            asg_vals.setdefault(strip_casts(n["l"])["name"], []).append(cv(n["r"]))
        elif n["k"] == "decl" and n.get("init") is not None:
            asg_vals.setdefault(n["name"], []).append(cv(n["init"]))
    PFLAGS = tuple(v for v, vals in asg_vals.items() if all(x is not None for x in vals) or (v.startswith("__ret_") and any(x is not None for x in vals)))

    def pipe_stmt(st0, b, i, stmt):
        facts, st = st0
        r_ = pipe_stmt1(st, b, i, stmt)
        f2 = restrict(guards.transfer(facts, stmt), PFLAGS)
        return [(f2, x) for x in r_]

    def note_quote_test(st, n):
        lit = [strip_casts(a) for a in n["args"] if strip_casts(a) is not None and strip_casts(a)["k"] == "str"]
        var = [root_var(a) for a in n["args"] if strip_casts(a) is not None and strip_casts(a)["k"] != "str"]
        if len(lit) == 1 and len(var) == 1 and lit[0].get("v") in QUOTES:
            state = st_get(st, var[0])
            if (line(n), var[0], state) not in [q[:3] for q in quote_tests]:
                quote_tests.append((line(n), var[0], state, n))
            if state == "trim":
                st = st | {("t", var[0], lit[0].get("v"))}
        return st

    def pipe_stmt1(st, b, i, stmt):
        for n in walk(stmt):
            if n["k"] == "call" and n.get("callee") in ("strcmp", "__builtin_strcmp") and len(n["args"]) == 2:
                st = note_quote_test(st, n)          # (also inside `a ? TRUE : FALSE` and other unbranched uses)
            if n["k"] == "call":
                cal = n.get("callee")
                if cal in ("sscanf", "__isoc99_sscanf", "fgets"):
                    for a in (n["args"][2:] if cal != "fgets" else n["args"][:1]):
                        v = root_var(a)
                        if v:
                            st = st_drop(st, v) | {("s", v, "raw")}
                elif cal in ("strcpy", "__builtin_strcpy", "strncpy", "memcpy") and len(n["args"]) >= 2:
                    d_, s_ = root_var(n["args"][0]), root_var(n["args"][1])
                    a0, a1 = strip_casts(n["args"][0]), strip_casts(n["args"][1])
                    if d_ and s_ and a0["k"] == "ref" and a1["k"] == "ref":
                        st = st_drop(st, d_) | frozenset((x[0], d_) + tuple(x[2:]) for x in st if x[1] == s_)
                    elif d_:
                        st = st_drop(st, d_)
                elif cal in keep and any(c is n for (_, _, c) in ctors):
                    key_ = (line(n), cal)
                    pipe_seen[key_] = n
                    for k_, a in enumerate(n["args"]):
                        v = root_var(a)
                        if st_get(st, v) != "trim":
                            pipe_bad.setdefault(key_, "line %d: %s, handed to %s, is %s: surrounding blanks are stored" % (
                                line(n), v, cal, "the untrimmed conversion result" if st_get(st, v) == "raw" else "not a copy of a p_strchomp result"))
                    if len(n["args"]) == 2:
                        v = root_var(n["args"][1])
                        done = ("e", v) in st or all(("t", v, q) in st for q in QUOTES)
                        if not done and st_get(st, v) == "trim":
                            pipe_bad.setdefault(key_, "line %d: the value %s reaches %s without the empty-quotes test having been made on its trimmed form: "
                                                "`key = \"\" ; note` is stored as two quote characters" % (line(n), v, cal))
            if n["k"] == "asg" or (n["k"] == "decl" and n.get("init") is not None):
                l = strip_casts(n["l"]) if n["k"] == "asg" else {"k": "ref", "name": n.get("name")}
                r = strip_casts(n["r"] if n["k"] == "asg" else n["init"])
                if l is not None and l["k"] == "ref":
                    st = st_drop(st, l["name"])
                    if r is not None and r["k"] == "call" and r.get("callee") == "p_strchomp":
                        st = st | {("s", l["name"], "trim")}
                    elif r is not None and r["k"] == "ref" and st_get(st, r["name"]):
                        st = st | frozenset((x[0], l["name"]) + tuple(x[2:]) for x in st if x[1] == r["name"])
                elif l is not None and l["k"] == "idx" and cv(l["i"]) == 0 and cv(n["r"]) == 0 and n["k"] == "asg":
                    v = root_var(l["base"])
                    if v:
                        st = frozenset(x for x in st if not (x[0] == "s" and x[1] == v)) | {("e", v), ("s", v, "trim")}    # the empty string is trimmed
        return [st]

    def pipe_edge(st0, b, to, on):
        f2 = guards.edge_assume(st0[0], b, on)
        if f2 is None:
            return None
        return (restrict(f2, PFLAGS), pipe_edge1(st0[1], b, to, on))

    def pipe_edge1(st, b, to, on):
        c = b.cond
        if c is not None and on in ("true", "false"):
            for n in walk(c):
                if n["k"] == "call" and n.get("callee") in ("strcmp", "__builtin_strcmp") and len(n["args"]) == 2:
                    st = note_quote_test(st, n)
        return st
    Flow(ps, [(guards.EMPTY, frozenset())], pipe_stmt, pipe_edge, max_states=60000).run()
    if not quote_tests:
        raise AnalysisBroken("p_ini_file_parse: no comparison of the value with the \"\" / '' literals found (C16.7 anchor)")
    for key_, n in sorted(pipe_seen.items()):
        okp7 = key_ not in pipe_bad
        rep.ob("C16.7", ps, "pipeline:%s" % key_[1], okp7, "%s receives trimmed text only%s" % (key_[1], " and the empty-quotes test is made on the trimmed value" if len(n["args"]) == 2 else "")
               if okp7 else pipe_bad[key_], n)
    rawq = [q for q in quote_tests if q[2] != "trim"]
    rep.ob("C16.7", ps, "quotes:trimmed", not rawq, "the %d empty-quotes comparisons read the trimmed value" % len(quote_tests) if not rawq else
           "line %d: %s is compared with the empty-quotes literal %s: blanks before a trailing comment make the comparison fail and the quotes are stored" % (
               rawq[0][0], rawq[0][1], "before it is trimmed" if rawq[0][2] == "raw" else "while it is not a copy of a p_strchomp result"), rawq[0][3] if rawq else ps.loc[0])
    rep.floor("C16.7", 3)


# objects are zero-filled at birth: the functions of these units rely on it for every field their constructors do not store
_run_clauses = run


def run(prog, rep):
    _run_clauses(prog, rep)
    from plint.wiring import check_zero_init
    from plint.wiring import array_bounds
    _bu = prog.unit("pinifile.c")
    _bj, _bb = 0, []
    for _f in sorted(_bu.functions.values(), key=lambda f__: f__.loc[0]):
        _a, _b = array_bounds(_f)
        _bj += _a
        _bb += [(_f,) + x for x in _b]
    rep.ob("C16.1", _bb[0][0] if _bb else sorted(_bu.functions.values(), key=lambda f__: f__.loc[0])[0], "bounds", not _bb,
           "%d subscripts of fixed-size arrays with a known largest index stay inside their arrays" % _bj if not _bb else
           "line %d: %s has %d elements and is subscripted with an index that reaches %d in %s" % (line(_bb[0][1]), _bb[0][2], _bb[0][3], _bb[0][4], _bb[0][0].name),
           _bb[0][1] if _bb else sorted(_bu.functions.values(), key=lambda f__: f__.loc[0])[0].loc[0])
    check_zero_init(rep, "C16.3", prog, ['pinifile.c'], 1)
    trim_allocation(prog, rep)


def _bounds(name, facts):
    lo = hi = None
    for (fk, fop, fv) in facts:
        if fk != name or not isinstance(fv, int):
            continue
        if fop in ("==", ">=", ">"):
            v = fv + (1 if fop == ">" else 0)
            lo = v if lo is None else max(lo, v)
        if fop in ("==", "<=", "<"):
            v = fv - (1 if fop == "<" else 0)
            hi = v if hi is None else min(hi, v)
    return lo, hi


def _diff_at_least(a, b, facts):
    """The largest d in (1, 0) for which the facts of this path say a - b >= d; None when they say nothing of the kind."""
    def holds(k):
        return guards.lookup(facts, k) == 1
    def fails(k):
        return guards.lookup(facts, k) == 0
    best = None
    if holds("(%s>%s)" % (a, b)) or holds("(%s<%s)" % (b, a)) or fails("(%s<=%s)" % (a, b)) or fails("(%s>=%s)" % (b, a)):
        best = 1
    elif (holds("(%s>=%s)" % (a, b)) or holds("(%s<=%s)" % (b, a)) or fails("(%s<%s)" % (a, b)) or fails("(%s>%s)" % (b, a))
          or holds("(%s==%s)" % (a, b)) or holds("(%s==%s)" % (b, a)) or fails("(%s!=%s)" % (a, b)) or fails("(%s!=%s)" % (b, a))):
        best = 0
    la, ha = _bounds(a, facts)
    lb_, hb = _bounds(b, facts)
    if la is not None and hb is not None:
        best = la - hb if best is None else max(best, la - hb)
    ld, hd = _bounds("(%s-%s)" % (a, b), facts)          # `if (a - b < 0)` tests the distance itself
    if ld is not None:
        best = ld if best is None else max(best, ld)
    lr, hr = _bounds("(%s-%s)" % (b, a), facts)
    if hr is not None:
        best = -hr if best is None else max(best, -hr)
    return best


def trim_allocation(prog, rep):
    # C16.7 trim:sized - the trim helper every stored value goes through (p_strchomp) sizes its result as the distance of two cursors
    # plus a constant; the allocator returns NULL for 0 bytes, and NULL is what the parser takes for "drop this key".  On every path
    # to the allocation the tests passed so far order the cursors so that the size is at least 1.  Judged only when the size has
    # the form (a - b) + k over two locals (other forms are somebody else's arithmetic and are left alone).
    su = prog.unit("pstring.c")
    fn = su.fn("p_strchomp")
    judged = []
    for (b, i, c) in fn.calls():
        if c.get("callee") not in ("p_malloc", "p_malloc0") or not c.get("args"):
            continue
        e = strip_casts(c["args"][0])
        if e is not None and e["k"] == "ref" and e.get("decl") == "local":
            e = strip_casts(fn.resolve(e) or e)
        k_ = 0
        if e is not None and e["k"] == "bin" and e["op"] == "+" and cv(e["r"]) is not None:
            k_, e = cv(e["r"]), strip_casts(e["l"])
        elif e is not None and e["k"] == "bin" and e["op"] == "+" and cv(e["l"]) is not None:
            k_, e = cv(e["l"]), strip_casts(e["r"])
        if e is None or e["k"] != "bin" or e["op"] != "-":
            continue
        l_, r_ = strip_casts(e["l"]), strip_casts(e["r"])
        if l_ is None or r_ is None or l_["k"] != "ref" or r_["k"] != "ref" or l_.get("decl") != "local" or r_.get("decl") != "local":
            continue
        # ... and only when this function itself compares the two cursors somewhere: that is the form in which the order is visible
        # to the branch facts (after `find_bounds (str, &start, &end)` the order is known to the helper's own variables, not these)
        pair = {l_["name"], r_["name"]}
        compared = any(n["k"] == "bin" and n["op"] in ("<", "<=", ">", ">=", "==", "!=") and {guards.key(n["l"]), guards.key(n["r"])} == pair
                       for blk in fn.blocks.values() if blk.cond is not None for n in walk(blk.cond))
        escaped = any(n["k"] == "un" and n.get("op") == "&" and strip_casts(n["e"]) is not None and strip_casts(n["e"])["k"] == "ref" and strip_casts(n["e"])["name"] in pair
                      for (b2, i2, n) in fn.nodes(elsewhere=True))
        if not compared or escaped:
            continue
        judged.append((c, l_["name"], r_["name"], k_))
    for (c, a, b_, k_) in judged:
        bad = []
        floor_ = 1 - k_ - 1          # below this the distance no longer matters: forget it (keeps the walk finite in `--a` loops)

        def best(d, facts, a=a, b_=b_):
            f = _diff_at_least(a, b_, facts)
            if f is not None and (d is None or f > d):
                d = f
            return None if (d is not None and d < floor_) else d

        def shift(d, stmt, a=a, b_=b_):
            """the carried lower bound of a - b across one statement: cursor steps move it, any other store to a cursor drops it"""
            for n in walk(stmt):
                tgt = delta = None
                if n["k"] == "un" and ("++" in n.get("op", "") or "--" in n.get("op", "")):
                    t = strip_casts(n["e"])
                    if t is not None and t["k"] == "ref" and t["name"] in (a, b_):
                        tgt, delta = t["name"], (1 if "++" in n["op"] else -1)
                elif n["k"] == "asg":
                    t = strip_casts(n["l"])
                    if t is not None and t["k"] == "ref" and t["name"] in (a, b_):
                        tgt = t["name"]
                        if n.get("op") in ("+=", "-=") and cv(n["r"]) is not None:
                            delta = cv(n["r"]) if n["op"] == "+=" else -cv(n["r"])
                        else:
                            r = strip_casts(n["r"])
                            if n.get("op") == "=" and r is not None and r["k"] == "bin" and r["op"] in ("+", "-") and guards.key(r["l"]) == tgt and cv(r["r"]) is not None:
                                delta = cv(r["r"]) if r["op"] == "+" else -cv(r["r"])
                if tgt is None:
                    continue
                if delta is None or d is None:
                    d = None
                else:
                    d = d + delta if tgt == a else d - delta
            return d

        def on_stmt(st, blk, i, stmt, c=c, k_=k_):
            facts, d = st
            if any(x is c for x in calls(stmt)):
                d2 = best(d, facts)
                if d2 is None or d2 + k_ < 1:
                    bad.append(line(c))
            d = shift(d, stmt)
            f2 = guards.transfer(facts, stmt)
            return [(f2, best(d, f2))]

        def on_edge(st, blk, to, on):
            f2 = guards.edge_assume(st[0], blk, on)
            return None if f2 is None else (f2, best(st[1], f2))
        Flow(fn, [(guards.EMPTY, None)], on_stmt, on_edge).run()
        rep.ob("C16.7", fn, "trim:sized", not bad,
               "the result is sized (%s - %s) + %d and every path to the allocation has ordered the two cursors: at least one byte" % (a, b_, k_) if not bad else
               "line %d: the result is sized (%s - %s) + %d, but a path reaches the allocation on which no test orders %s and %s: for an all-blank string the "
               "cursors cross, the size is 0, the allocator returns NULL and the INI parser drops the key" % (bad[0], a, b_, k_, a, b_), c)

# generic robustness battery: renaming every local/parameter in these files must not change any verdict
RENAME_LOCALS = ['src/pinifile.c']

SELFTEST = [
    dict(id="boolean-getter-returns-raw-number", file="src/pinifile.c", expect="C16.5",
         old="\telse if (atoi (val) > 0)\n\t\tret = TRUE;\n\telse\n\t\tret = FALSE;", new="\telse\n\t\tret = (pboolean) atoi (val);"),
    dict(id="boolean-getter-comparison-result-neutral", file="src/pinifile.c", expect=None,
         old="\telse if (atoi (val) > 0)\n\t\tret = TRUE;\n\telse\n\t\tret = FALSE;", new="\telse\n\t\tret = (atoi (val) > 0) ? TRUE : FALSE;"),
    dict(id="strchomp-all-blank-returns-null", file="src/pstring.c", expect="C16.7",
         old="\tif (pos_end < pos_start)\n\t\treturn p_strdup (\"\\0\");", new="\tif (pos_end < 0)\n\t\treturn p_strdup (\"\\0\");"),
    dict(id="strchomp-distance-tested-neutral", file="src/pstring.c", expect=None,
         old="\tif (pos_end < pos_start)\n\t\treturn p_strdup (\"\\0\");", new="\tif (pos_end - pos_start < 0)\n\t\treturn p_strdup (\"\\0\");"),
    dict(id="strchomp-nested-positive-form-neutral", file="src/pstring.c", expect=None,
         old="\tif (pos_end < pos_start)\n\t\treturn p_strdup (\"\\0\");\n\n\tif (pos_end == pos_start && isspace (* ((const puchar *) (str + pos_end))))\n\t\treturn p_strdup (\"\\0\");",
         new="\tif (!(pos_end >= pos_start))\n\t\treturn p_strdup (\"\\0\");\n\telse if (pos_end == pos_start && isspace (* ((const puchar *) (str + pos_end))))\n\t\treturn p_strdup (\"\\0\");"),
    dict(id="strchomp-exclusive-end-neutral", file="src/pstring.c", expect=None,
         old="\tstr_len = (psize) (pos_end - pos_start + 2);", new="\t++pos_end;\n\tstr_len = (psize) (pos_end - pos_start + 1);"),
    dict(id="strchomp-exclusive-end-after-narrowed-test", expect="C16.7", edits=[
        dict(file="src/pstring.c", old="\tif (pos_end < pos_start)\n\t\treturn p_strdup (\"\\0\");", new="\tif (pos_end < 0)\n\t\treturn p_strdup (\"\\0\");"),
        dict(file="src/pstring.c", old="\tstr_len = (psize) (pos_end - pos_start + 2);", new="\t++pos_end;\n\tstr_len = (psize) (pos_end - pos_start + 1);")]),
    dict(id="strchomp-order-test-swapped-neutral", file="src/pstring.c", expect=None,
         old="\tif (pos_end < pos_start)\n\t\treturn p_strdup (\"\\0\");", new="\tif (pos_start > pos_end)\n\t\treturn p_strdup (\"\\0\");"),
    dict(id="line-clamp-one-short", file="src/pinifile.c", expect="C16.1", count=1,
         old="\t\tif (P_UNLIKELY (strlen (dst_line) > P_INI_FILE_MAX_LINE))\n\t\t\tdst_line[P_INI_FILE_MAX_LINE] = '\\0';",
         new="\t\tif (P_UNLIKELY (strlen (dst_line) >= P_INI_FILE_MAX_LINE))\n\t\t\tdst_line[P_INI_FILE_MAX_LINE - 1] = '\\0';"),
    dict(id="list-last-element-unterminated", file="src/pinifile.c", expect="C16.1",
         old="\tif (buf_cnt > 0) {\n\t\tbuf[buf_cnt] = '\\0';\n", new="\tif (buf_cnt > 0) {\n"),
    dict(id="list-buffer-no-initial-zero-neutral", file="src/pinifile.c", expect=None,
         old="\tstr = val + 1;\n\tbuf[0] = '\\0';\n", new="\tstr = val + 1;\n"),
    dict(id="bom-utf8-first-byte-negated", file="src/pinifile.c", expect="C16.8",
         old="if ((puchar) src_line[0] == 0xEF && (puchar) src_line[1] == 0xBB", new="if ((puchar) src_line[0] != 0xEF && (puchar) src_line[1] == 0xBB"),
    dict(id="bom-utf16-or-for-and", file="src/pinifile.c", expect="C16.8",
         old="((puchar) src_line[0] == 0xFF && (puchar) src_line[1] == 0xFE))", new="((puchar) src_line[0] == 0xFF || (puchar) src_line[1] == 0xFE))"),
    dict(id="bom-utf8-shift-two", file="src/pinifile.c", expect="C16.8",
         old="\t\t\tbom_shift = 3;", new="\t\t\tbom_shift = 2;"),
    dict(id="bom-bytes-compared-as-plain-char", file="src/pinifile.c", expect="C16.8",
         old="\t\tif ((puchar) src_line[0] == 0xEF && (puchar) src_line[1] == 0xBB && (puchar) src_line[2] == 0xBF)", new="\t\tif (src_line[0] == 0xEF && src_line[1] == 0xBB && src_line[2] == 0xBF)"),
    dict(id="empty-quotes-tested-before-trim", expect="C16.7", edits=[
        dict(file="src/pinifile.c", old="\t\t\t/* New parameter found */\n", new="\t\t\t/* New parameter found */\n\t\t\tif (strcmp (value, \"\\\"\\\"\") == 0 || (strcmp (value, \"''\") == 0))\n\t\t\t\tvalue[0] = '\\0';\n\n"),
        dict(file="src/pinifile.c", old="\t\t\t\t\tif (strcmp (value, \"\\\"\\\"\") == 0 || (strcmp (value, \"''\") == 0))\n\t\t\t\t\t\tvalue[0] = '\\0';\n\n\t\t\t\t\tif (section != NULL", new="\t\t\t\t\tif (section != NULL")]),
    dict(id="trimmed-value-not-copied-back", file="src/pinifile.c", expect="C16.7",
         old="\t\t\t\t\tstrcpy (value, tmp_str);\n\t\t\t\t\tp_free (tmp_str);\n\n\t\t\t\t\tif (strcmp", new="\t\t\t\t\tp_free (tmp_str);\n\n\t\t\t\t\tif (strcmp"),
    dict(id="empty-quotes-tested-on-trimmed-copy-neutral", file="src/pinifile.c", expect=None,
         old="\t\t\t\t\tstrcpy (value, tmp_str);\n\t\t\t\t\tp_free (tmp_str);\n\n\t\t\t\t\tif (strcmp (value, \"\\\"\\\"\") == 0 || (strcmp (value, \"''\") == 0))\n\t\t\t\t\t\tvalue[0] = '\\0';\n",
         new="\t\t\t\t\tif (strcmp (tmp_str, \"\\\"\\\"\") == 0 || (strcmp (tmp_str, \"''\") == 0))\n\t\t\t\t\t\ttmp_str[0] = '\\0';\n\n\t\t\t\t\tstrcpy (value, tmp_str);\n\t\t\t\t\tp_free (tmp_str);\n"),
    dict(id="key-array-512", file="src/pinifile.c", expect="C16.1",
         old="\tpchar\t\tkey[P_INI_FILE_MAX_LINE + 1];", new="\tpchar\t\tkey[512];"),
    dict(id="line-buffer-4096", file="src/pinifile.c", expect="C16.1",
         old="\tpchar\t\tsrc_line[P_INI_FILE_MAX_LINE + 1];", new="\tpchar\t\tsrc_line[4096];"),
    dict(id="list-buffer-256", file="src/pinifile.c", expect="C16.2",
         old="\tpchar\t\tbuf[P_INI_FILE_MAX_LINE + 1];", new="\tpchar\t\tbuf[256];"),
    dict(id="section-linked-without-keys", file="src/pinifile.c", expect="C16.3",
         old="\t\t\t\tif (section != NULL) {\n\t\t\t\t\tif (section->keys == NULL)\n\t\t\t\t\t\tpp_ini_file_section_free (section);\n\t\t\t\t\telse\n\t\t\t\t\t\tfile->sections = p_list_prepend (file->sections, section);\n\t\t\t\t}",
         new="\t\t\t\tif (section != NULL)\n\t\t\t\t\tfile->sections = p_list_prepend (file->sections, section);"),
    dict(id="param-without-section", file="src/pinifile.c", expect="C16.3",
         old="\t\t\t\t\tif (section != NULL && (param = pp_ini_file_parameter_new (key, value)) != NULL)", new="\t\t\t\t\tif ((param = pp_ini_file_parameter_new (key, value)) != NULL)"),
    dict(id="int-getter-leaks-copy", file="src/pinifile.c", expect="C16.3",
         old="\tret = atoi (val);\n\tp_free (val);\n", new="\tret = atoi (val);\n"),
    dict(id="line-not-freed", file="src/pinifile.c", expect="C16.4",
         old="\t\tp_free (dst_line);\n\t\tmemset (src_line, 0, sizeof (src_line));", new="\t\tmemset (src_line, 0, sizeof (src_line));"),
    dict(id="double-getter-through-float", file="src/pinifile.c", expect="C16.5",
         old="\tpdouble\tret;", new="\tpfloat\tret;"),
    dict(id="int-getter-base0", file="src/pinifile.c", expect="C16.5",
         old="\tret = atoi (val);", new="\tret = (pint) strtol (val, NULL, 0);"),
    dict(id="header-sscanf-only", file="src/pinifile.c", expect="C16.6",
         old="\t\tif (dst_line[0] == '[' && dst_line[strlen (dst_line) - 1] == ']' &&\n\t\t    sscanf (dst_line, \"[%[^]]\", key) == 1) {",
         new="\t\tif (sscanf (dst_line, \"[%[^]]]\", key) == 1) {"),
    dict(id="header-last-byte-untested", file="src/pinifile.c", expect="C16.6",
         old="\t\tif (dst_line[0] == '[' && dst_line[strlen (dst_line) - 1] == ']' &&\n\t\t    sscanf", new="\t\tif (dst_line[0] == '[' &&\n\t\t    sscanf"),
    dict(id="plain-pattern-first", file="src/pinifile.c", expect="C16.6",
         old="\t\t} else if (sscanf (dst_line, \"%[^=] = \\\"%[^\\\"]\\\"\", key, value) == 2 ||\n\t\t\t   sscanf (dst_line, \"%[^=] = '%[^\\']'\", key, value) == 2 ||\n\t\t\t   sscanf (dst_line, \"%[^=] = %[^;#]\", key, value) == 2) {",
         new="\t\t} else if (sscanf (dst_line, \"%[^=] = %[^;#]\", key, value) == 2 ||\n\t\t\t   sscanf (dst_line, \"%[^=] = \\\"%[^\\\"]\\\"\", key, value) == 2 ||\n\t\t\t   sscanf (dst_line, \"%[^=] = '%[^\\']'\", key, value) == 2) {"),
    dict(id="plain-pattern-hash-only", file="src/pinifile.c", expect="C16.6",
         old="%[^=] = %[^;#]", new="%[^=] = %[^#]"),
    dict(id="header-guard-likely-wrapped-neutral", file="src/pinifile.c", expect=None,
         old="\t\tif (dst_line[0] == '[' && dst_line[strlen (dst_line) - 1] == ']' &&\n\t\t    sscanf (dst_line, \"[%[^]]\", key) == 1) {",
         new="\t\tif (P_UNLIKELY (dst_line[0] == '[' && dst_line[strlen (dst_line) - 1] == ']' &&\n\t\t    sscanf (dst_line, \"[%[^]]\", key) == 1)) {"),
    dict(id="header-guard-nested-neutral", file="src/pinifile.c", expect=None,
         old="\t\tif (dst_line[0] == '[' && dst_line[strlen (dst_line) - 1] == ']' &&\n\t\t    sscanf (dst_line, \"[%[^]]\", key) == 1) {",
         new="\t\tif (dst_line[strlen (dst_line) - 1] == ']' && dst_line[0] == '[' &&\n\t\t    sscanf (dst_line, \"[%[^]]\", key) == 1) {"),
    dict(id="list-getter-emits-empty-tokens", file="src/pinifile.c", expect="C16.5",
         old="\t\t\tif (buf_cnt > 0)\n\t\t\t\tret = p_list_append (ret, p_strdup (buf));\n", new="\t\t\tret = p_list_append (ret, p_strdup (buf));\n"),
    dict(id="list-getter-guard-ne-zero-neutral", file="src/pinifile.c", expect=None,
         old="\t\t\tif (buf_cnt > 0)\n\t\t\t\tret = p_list_append (ret, p_strdup (buf));\n", new="\t\t\tif (buf_cnt != 0)\n\t\t\t\tret = p_list_append (ret, p_strdup (buf));\n"),
    dict(id="int-getter-strtol10-neutral", file="src/pinifile.c", expect=None,
         old="\tret = atoi (val);", new="\tret = (pint) strtol (val, NULL, 10);"),
]
