"""C20 Resource neutrality: structural clauses."""
from plint import guards, resources
from plint.flow import Flow
from plint.ir import calls, strip_casts, cv, line, show, root_var, walk, ap
from plint.units import AnalysisBroken, INFORMATIONAL
from rules.C18 import survey, short

# owned fields that are deliberately not released by the object's free function: (record, field) -> reason
OWN_EXCEPTIONS = {
    ("PUThreadKey_", "key"): "documented in puthread.h: the native TLS key (and its holder) is kept for the life of the process, "
                             "because other threads may still run destructors through it",
}
ACQ_FIELD_CALLS = {"socket", "accept", "opendir", "dlopen", "mmap", "sem_open", "fopen"}
FIELD_RELEASERS = {"p_free", "p_sys_close", "close", "closedir", "dlclose", "munmap", "sem_close", "fclose"}


def run(prog, rep):
    rep.rule("C20.1", "ownership table (inferred): every field a constructor fills from an acquiring call is released by the object's free function (directly or through its clean-up helper), with named exceptions")
    rep.rule("C20.2", "descriptors and handles: every descriptor/handle obtained in a function is released exactly once, handed to the object that owns it, or returned, on every path")
    rep.rule("C20.3", "map/unmap length: the length handed to munmap is the mapped length (= C07.5)")
    rep.rule("C20.4", "local temporaries: every allocation held only in a local is released or handed over on every path, success paths included")
    rep.rule("C20.5", "names: IPC names created by a handle are removed by its free function when ownership is set, and ownership is set before any later step of the creation can fail")
    T, res, nfun, reach = survey(prog)

    # ---- C20.2 / C20.4 ------------------------------------------------------------------------
    n2 = n4 = 0
    for (fn, ps, reachable) in res:
        info = not reachable
        leaks = [p for p in ps if p[0] == "leak" and "container" not in p[5]]
        mem_ok, fd_ok = True, True
        k = 0
        for (kind, path, acq, at, w, detail) in leaks:
            # which kind of resource?
            is_fd = any(c.get("callee") in ("socket", "accept", "open", "shm_open", "opendir", "fopen", "dlopen", "dup") and line(c) == acq for (b, i, c) in fn.calls())
            k += 1
            if is_fd:
                fd_ok = False
                rep.ob("C20.2", fn, "handle:%s#%d" % (short(path), k), False,
                       "line %d: the descriptor/handle %s obtained at line %s is neither closed, nor owned by a returned object, nor returned at this %s" % (
                           at, path, acq, "failure exit" if "failure" in detail else "return"), at, w, info=info)
            else:
                # failure exits included: "this holds equally when calls in the sequence fail" - whatever made the call fail (C18.2 reports
                # the same exits for the allocation-failure property)
                mem_ok = False
                rep.ob("C20.4", fn, "temp:%s#%d" % (short(path), k), False,
                       "line %d: %s allocated at line %s is still held when the function returns (%s): it is never released" % (at, path, acq, detail), at, w, info=info)
        has_fd = any(c.get("callee") in ("socket", "accept", "open", "shm_open", "opendir", "fopen", "dlopen", "dup") for (b, i, c) in fn.calls())
        if has_fd:
            n2 += 1
            if fd_ok:
                rep.ob("C20.2", fn, "handle", True, "every descriptor/handle obtained here is released once, owned by the returned object, or returned on every path", fn.loc[0])
        n4 += 1
        if mem_ok:
            rep.ob("C20.4", fn, "temp", True, "no allocation held only in a local survives a return", fn.loc[0])
    # double close: a descriptor released twice on one path
    from plint import uaf
    rel = {"p_sys_close": 0, "close": 0, "closedir": 0, "fclose": 0, "dlclose": 0}
    for un, u in sorted(prog.units.items()):
        for fn in sorted(u.functions.values(), key=lambda f: f.loc[0]):
            if not any(c.get("callee") in rel for (b, i, c) in fn.calls()):
                continue
            ps = [p for p in uaf.check_function(fn, rel) if p[0] in ("double", "pass")]
            n2 += 1
            if ps:
                k, p, ln, w, at = ps[0]
                rep.ob("C20.2", fn, "twice:" + short(p), False, "line %d: %s is %s after it was closed at line %s (a descriptor number reused by another thread would be hit)" % (
                    ln, p, "closed again" if k == "double" else "used", at), ln, w)
            else:
                rep.ob("C20.2", fn, "twice", True, "nothing is closed twice or used after its close", fn.loc[0])
    # borrowed descriptors: a constructor that wraps a descriptor it was *given* (an integer parameter stored into the fresh object)
    # does not own it until it returns the object; the library's callers close the descriptor themselves when the constructor
    # fails, so a failure exit that also closes it (directly or by handing the half-built object to the type's free function)
    # closes the number twice - the second close hits whatever another thread opened in between
    nb = 0
    for un, u in sorted(prog.units.items()):
        for fn in sorted(u.functions.values(), key=lambda f: f.loc[0]):
            ps = fn.param_names()
            objs = set()
            for (b, i, n) in fn.nodes():
                if n["k"] == "asg" and strip_casts(n["r"]) is not None and strip_casts(n["r"])["k"] == "call" and strip_casts(n["r"]).get("callee") in ("p_malloc0", "p_malloc") \
                        and strip_casts(n["l"]) is not None and strip_casts(n["l"])["k"] == "ref":
                    objs.add(strip_casts(n["l"])["name"])
            borrowed = []
            for (b, i, n) in fn.nodes():
                if n["k"] == "asg":
                    l, r = strip_casts(n["l"]), strip_casts(n["r"])
                    if l is not None and l["k"] == "member" and l.get("arrow") and root_var(l) in objs and r is not None and r["k"] == "ref" and r.get("decl") == "param" \
                            and r["name"] in ps and "*" not in (r.get("ts") or "") and l["field"] in ("fd", "hdl", "handle"):
                        borrowed.append((root_var(l), l["field"], r["name"]))
            for (obj, fld, par) in borrowed:
                nb += 1
                closes = []
                for (b, i, c) in fn.calls():
                    cn = c.get("callee")
                    if not c.get("args"):
                        continue
                    a0 = strip_casts(c["args"][0])
                    if cn in DESC_CLOSERS and a0 is not None and ((a0["k"] == "ref" and a0["name"] == par) or (a0["k"] == "member" and root_var(a0) == obj and a0["field"] == fld)):
                        closes.append((c, "closes it"))
                    for k, a in enumerate(c["args"]):
                        a = strip_casts(a)
                        if a is not None and a["k"] == "ref" and a["name"] == obj and cn in u.functions and fld in closed_fields(u, u.functions[cn], k):
                            closes.append((c, "hands the object to %s, which closes %s->%s" % (cn, u.functions[cn].param_names()[k], fld)))
                # do the library's callers close the descriptor themselves when the constructor fails?
                callers = []
                for g in u.functions.values():
                    for (b, i, c) in g.calls():
                        if c.get("callee") == fn.name and c.get("args"):
                            v = strip_casts(c["args"][ps.index(par)])
                            if v is not None and v["k"] == "ref":
                                after = g.reach_from([b.id])
                                if any(c2.get("callee") in DESC_CLOSERS and c2.get("args") and root_var(c2["args"][0]) == v["name"] and b2.id in after for (b2, i2, c2) in g.calls()):
                                    callers.append("%s (line %d)" % (g.name, line(c)))
                bad = closes and callers
                rep.ob("C20.2", fn, "borrowed:%s" % par, not bad, "the descriptor parameter %s wrapped into %s->%s is never closed by the constructor itself (%d caller(s) close it when it fails)" % (par, obj, fld, len(callers)) if not bad else
                       "line %d: %s %s the descriptor it was given in `%s`, and its caller %s closes the same number again when NULL comes back: the second close hits whatever "
                       "descriptor another thread was given in between" % (line(closes[0][0]), fn.name, closes[0][1], par, callers[0]), closes[0][0] if bad else fn.loc[0])
    rep.floor("C20.2", 10 + 1)
    rep.floor("C20.4", 60)

    # ---- C20.1 ownership table ---------------------------------------------------------------
    nobj = 0
    for un, u in sorted(prog.units.items()):
        if un in INFORMATIONAL:
            continue
        # fields filled from acquiring calls, per record
        owned = {}
        list_elems = {}
        for fn in u.functions.values():
            # locals holding an acquisition result in this function
            holders = {}
            for b, i, n in fn.nodes():
                if n["k"] == "asg" and n["op"] == "=" and strip_casts(n["l"])["k"] == "ref":
                    r0 = strip_casts(n["r"])
                    if r0 is not None and r0["k"] == "call" and (r0.get("callee") in T.acquire or r0.get("callee") in ACQ_FIELD_CALLS):
                        holders[strip_casts(n["l"])["name"]] = r0.get("callee")
            for b, i, n in fn.nodes():
                if n["k"] != "asg" or n["op"] != "=":
                    continue
                l = strip_casts(n["l"])
                r = strip_casts(n["r"])
                if l is not None and l["k"] == "member" and l.get("rec") and r is not None and r["k"] == "ref" and r["name"] in holders \
                        and holders[r["name"]] not in ("p_list_append", "p_list_prepend"):
                    owned.setdefault(l["rec"], {}).setdefault(l["field"], []).append((fn.name, holders[r["name"]], line(n)))
                    continue
                if l is None or l["k"] != "member" or not l.get("rec") or r is None or r["k"] != "call":
                    continue
                cn = r.get("callee")
                if cn is None and r.get("fnptr") is not None:
                    # made by a call through one of the object's own function slots (`obj->context = obj->create ()`): owned, and released
                    # through a sibling slot
                    fp = strip_casts(r["fnptr"])
                    if fp is not None and fp["k"] == "member" and root_var(fp) == root_var(l):
                        owned.setdefault(l["rec"], {}).setdefault(l["field"], []).append((fn.name, "its %s slot" % fp["field"], line(n)))
                    continue
                if cn in T.fresh or cn in ACQ_FIELD_CALLS:
                    if cn in ("p_list_append", "p_list_prepend"):
                        # a list head kept in the object (`obj->items = p_list_append (obj->items, x)`): the nodes belong to the object
                        a0 = strip_casts(r["args"][0]) if r.get("args") else None
                        if a0 is not None and a0["k"] == "member" and a0["field"] == l["field"] and root_var(a0) == root_var(l):
                            owned.setdefault(l["rec"], {}).setdefault(l["field"], []).append((fn.name, cn + " (list nodes)", line(n)))
                            # ... and so do the elements, when they are objects of a record type of this unit (made here, linked here)
                            if len(r["args"]) > 1:
                                et = u.type_of(strip_casts(r["args"][1]))
                                if et and et.get("k") == "ptr" and u.types[et["p"]].get("k") == "rec" and u.types[et["p"]].get("rec") in u.records:
                                    list_elems[(l["rec"], l["field"])] = u.types[et["p"]].get("rec")
                        continue
                    owned.setdefault(l["rec"], {}).setdefault(l["field"], []).append((fn.name, cn, line(n)))
        # fd fields: field assigned from a local holding socket()/accept()
        for rec, flds in sorted(owned.items()):
            record = u.records.get(rec)
            if record is None or not record.main:
                continue
            # the free function: `*_free (T *obj)` in this unit taking a pointer to rec
            frees = []
            for fn in u.functions.values():
                if (fn.name.endswith("_free") or fn.name.endswith("_free_internal")) and fn.params:
                    t = u.types[fn.params[0]["t"]]
                    if t.get("k") == "ptr" and u.types[t["p"]].get("rec") == rec:
                        frees.append(fn)
            if not frees:
                continue
            fr = frees[0]
            nobj += 1
            released = released_fields(u, fr, T)
            skipped = unreleased_paths(u, fr, T, [f_ for f_ in flds if (rec, f_) not in OWN_EXCEPTIONS and f_ in released])
            # elements of owned lists: the free function runs the element type's destructor over the list (p_list_foreach with it, or a
            # loop that calls it) before the nodes go
            for (rk, fk), erec in sorted(list_elems.items()):
                if rk != rec:
                    continue
                dfs = [g.name for g in u.functions.values() if (g.name.endswith("_free") or g.name.endswith("_free_internal")) and g.params
                       and u.types[g.params[0]["t"]].get("k") == "ptr" and u.types[u.types[g.params[0]["t"]]["p"]].get("rec") == erec]
                if not dfs:
                    continue
                used = False
                clo_, todo_ = [], [fr.name]
                while todo_:
                    nm_ = todo_.pop()
                    if nm_ in clo_ or nm_ not in u.functions or nm_ in dfs:
                        continue
                    clo_.append(nm_)
                    todo_ += [c.get("callee") for (b, i, c) in u.functions[nm_].calls() if c.get("callee")]
                for (b, i, n) in [x for nm_ in clo_ for x in u.functions[nm_].nodes(elsewhere=True)]:
                    if n["k"] == "call" and n.get("callee") in dfs:
                        used = True
                    if n["k"] == "call" and n.get("callee") == "p_list_foreach" and any(x["k"] == "ref" and x["name"] in dfs for a in n["args"][1:2] for x in walk(a, elsewhere=True)):
                        used = True
                rep.ob("C20.1", fr, "elements:%s.%s" % (rec, fk), used, "the %s objects linked into %s.%s are released through %s before the list nodes" % (erec, rec, fk, dfs[0]) if used else
                       "%s releases the nodes of %s.%s but never runs %s over the %s objects they hold: every element leaks with everything it owns" % (fr.name, rec, fk, dfs[0], erec), fr.loc[0])
            for fld, sites in sorted(flds.items()):
                if (rec, fld) in OWN_EXCEPTIONS:
                    rep.note("C20.1 exception %s.%s: %s" % (rec, fld, OWN_EXCEPTIONS[(rec, fld)]))
                    continue
                ok = fld in released
                if ok and fld in skipped:
                    rep.ob("C20.1", fr, "owned:%s.%s" % (rec, fld), False,
                           "line %d: %s returns on a path where %s.%s was not handed to its release although it is not known to be NULL / invalid there (a guard that lets the "
                           "valid case through unreleased): every object of this type leaks it" % (skipped[fld], fr.name, rec, fld), skipped[fld])
                    continue
                rep.ob("C20.1", fr, "owned:%s.%s" % (rec, fld), ok,
                       "%s.%s (filled from %s in %s) is released by %s" % (rec, fld, sites[0][1], sites[0][0], fr.name) if ok else
                       "%s.%s is filled from %s (in %s, line %d) but %s never releases it: every object of this type leaks it" % (rec, fld, sites[0][1], sites[0][0], sites[0][2], fr.name),
                       fr.loc[0])
    # ... and the object itself: a free function hands its (non-NULL) argument to p_free on every path - directly or through a
    # function of the unit that does so on all of its paths.  A guard that returns early for anything but NULL, or a body that
    # forgets the final p_free, leaks one object per call
    nself = 0
    for un, u in sorted(prog.units.items()):
        if un in INFORMATIONAL:
            continue
        memo = {}
        for fn in sorted(u.functions.values(), key=lambda f: f.loc[0]):
            if not (fn.name.endswith("_free") or fn.name.endswith("_free_internal")) or not fn.params:
                continue
            t = u.types[fn.params[0]["t"]]
            if t.get("k") != "ptr" or u.types[t["p"]].get("k") != "rec":
                continue
            missing = self_release(u, fn, 0, memo)
            if missing is None:
                # releases its argument on no path at all: a destructor that forgot the object if it releases the object's members,
                # otherwise not a destructor of this object
                p0_ = fn.param_names()[0]
                mem = [c for (b, i, c) in fn.calls() if c.get("callee") in ("p_free", "p_list_free") and c.get("args") and strip_casts(c["args"][0])["k"] == "member" and root_var(c["args"][0]) == p0_]
                # ... or if objects of that record type are allocated in this unit (then this is the type's destructor, whatever is left of it)
                rec_ = u.types[t["p"]].get("rec")
                born = any(n["k"] == "asg" and strip_casts(n["r"]) is not None and strip_casts(n["r"])["k"] == "call" and strip_casts(n["r"]).get("callee") in ("p_malloc0", "p_malloc")
                           and (u.type_of(strip_casts(n["l"])) or {}).get("k") == "ptr" and u.types[u.type_of(strip_casts(n["l"]))["p"]].get("rec") == rec_
                           for g in u.functions.values() for (b, i, n) in g.nodes(elsewhere=True))
                if not mem and not born:
                    continue
                missing = [fn.loc[0]]
            nself += 1
            rep.ob("C20.1", fn, "self", not missing, "%s hands its non-NULL argument to p_free on every path" % fn.name if not missing else
                   "line %d: %s returns without having released the object it was given (%s is not known to be NULL on this path): every call leaks one object" % (
                       missing[0], fn.name, fn.param_names()[0]), missing[0] if missing else fn.loc[0])
    rep.floor("C20.1", 20 + 2 + 30, "owned fields over the library object types, and the objects themselves")

    # ---- C20.3 (shared with C07.5) --------------------------------------------------------------
    from rules import C07
    su = prog.unit("pshm-posix.c")
    mun = [(f, c) for f in su.functions.values() for (b, i, c) in f.calls() if c.get("callee") == "munmap"]
    mm = [(f, c) for f in su.functions.values() for (b, i, c) in f.calls() if c.get("callee") == "mmap"]
    ok3 = len(mun) == 1 and len(mm) == 1
    msg3 = ""
    if ok3:
        lf = C07.field_of(mun[0][1]["args"][1])
        sf = C07.field_of(mm[0][1]["args"][1])
        ch = mm[0][0]
        if lf == sf:
            # any store to the field outside create/clean after creation breaks it
            for f in su.functions.values():
                if f.name in (ch.name, mun[0][0].name):
                    continue
                cc = [(b3, i3) for (b3, i3, c3) in f.calls() if c3.get("callee") == ch.name]
                for b, i, n in f.nodes():
                    if n["k"] == "asg" and C07.field_of(n["l"]) == lf and strip_casts(n["l"]).get("rec") == "PShm_" and cc and \
                            not all(f.pos_dominates((b.id, i), (b3.id, i3)) for (b3, i3) in cc):
                        ok3, msg3 = False, "line %d: %s changes the length field munmap uses after the segment was mapped" % (line(n), f.name)
        else:
            copies = [n for (b, i, n) in ch.nodes() if n["k"] == "asg" and C07.field_of(n["l"]) == lf and guards.key(n["r"]).endswith("->" + sf)]
            if not copies:
                ok3, msg3 = False, "the unmap length field %s is never set from the mapped length %s" % (lf, sf)
            for f in su.functions.values():
                if f.name in (ch.name, mun[0][0].name):
                    continue
                for b, i, n in f.nodes():
                    if n["k"] == "asg" and C07.field_of(n["l"]) == lf and strip_casts(n["l"]).get("rec") == "PShm_":
                        ok3, msg3 = False, "line %d: %s modifies the unmap length" % (line(n), f.name)
    else:
        msg3 = "expected one mmap and one munmap in pshm-posix.c"
    rep.ob("C20.3", mun[0][0] if mun else ("pshm-posix.c", "?"), "maplen", ok3, "munmap gets the length that was mapped; nothing changes it while the mapping exists" if ok3 else msg3,
           mun[0][1] if mun else None)
    rep.floor("C20.3", 1)

    # ---- C20.5 names -----------------------------------------------------------------------------
    for uname, create, clean, unlink, flag, opener in (("psemaphore-posix.c", "pp_semaphore_create_handle", "pp_semaphore_clean_handle", "sem_unlink", "sem_created", "sem_open"),
                                                      ("pshm-posix.c", "pp_shm_create_handle", "pp_shm_clean_handle", "shm_unlink", "shm_created", "shm_open")):
        u = prog.unit(uname)
        cl = u.fn(clean).inlined()
        cr = u.fn(create, raw=True).inlined(skip=(clean,))        # the clean-up helper stays a call: its call sites are the exits checked below
        # free -> clean -> unlink under the flag
        frs = [f for f in u.functions.values() if f.name.endswith("_free") and f.api]
        okf = bool(frs) and all(any(c.get("callee") == clean for (b, i, c) in f.calls()) for f in frs)
        unl = []

        def cs(st, b, i, stmt, unl=unl):
            for c in calls(stmt):
                if c.get("callee") == unlink:
                    unl.append(st)
            return [guards.transfer(st, stmt)]
        Flow(cl, [guards.EMPTY], cs, lambda st, b, to, on: guards.edge_assume(st, b, on)).run()
        sp = cl.param_names()[0]
        oku = bool(unl) and all(guards.lookup(f, "%s->%s" % (sp, flag)) == 1 or any(fk == "%s->%s" % (sp, flag) and fop == "!=" and fv == 0 for (fk, fop, fv) in f) for f in unl)
        # a path with the flag set and a valid handle must reach the unlink: the only guards are the flag and handle validity (checked in C06.2/C07.2)
        rep.ob("C20.5", cl, "unlink", okf and oku, "the public free function reaches %s exactly when %s is set" % (unlink, flag) if okf and oku else
               "the free path does not remove the name when the handle owns it", cl.loc[0])
        # ownership set for creators before anything else can fail: at every call of the clean-up helper inside the
        # create function on a path where the exclusive create succeeded, the flag is already set
        bad = []
        seen_ok = [0]
        csp = cr.param_names()[0]

        def s2(st, b, i, stmt, bad=bad, seen_ok=seen_ok):
            facts, created, src = st
            for c in calls(stmt):
                if c.get("callee") == clean and created:
                    if guards.lookup(facts, "%s->%s" % (csp, flag)) != 1:
                        bad.append(line(c))
                    else:
                        seen_ok[0] += 1
                if c.get("callee") == opener:
                    # which open produced the handle variable's current value
                    src = "excl" if any(c is c2 for (_b, _i, c2) in excl) else "other"
            if stmt["k"] == "ret" and created and cv(stmt.get("e")) == 1:
                if guards.lookup(facts, "%s->%s" % (csp, flag)) != 1:
                    bad.append(line(stmt))
                else:
                    seen_ok[0] += 1
            return [(guards.transfer(facts, stmt, stable=("p_error_get_last_system()",)), created, src)]

        def e2(st, b, to, on):
            facts, created, src = st
            f2 = guards.edge_assume(facts, b, on)
            if f2 is None:
                return None
            if not created and src == "excl":
                # the exclusive create succeeded: the handle variable/field last assigned from the O_CREAT|O_EXCL open is valid
                inv = -1 if opener == "shm_open" else 0
                for tgt in set(excl_target.values()):
                    if tgt and any(fk == tgt and fop == "!=" and fv == inv for (fk, fop, fv) in f2):
                        created = True
            return (f2, created, src)
        excl = [(b, i, c) for (b, i, c) in cr.calls() if c.get("callee") == opener and (cv(c["args"][1]) or 0) & 0o300 == 0o300]
        excl_target = {}
        for b, i, s in cr.stmts():
            for n in walk(s):
                if n["k"] == "asg":
                    for (bb, ii, c) in excl:
                        if any(x is c for x in calls(n["r"])):
                            excl_target[id(c)] = ap(n["l"])
        Flow(cr, [(guards.EMPTY, False, None)], s2, e2).run()
        rep.ob("C20.5", cr, "owner-early", not bad and seen_ok[0] > 0,
               "after a successful exclusive create every exit (success or unwinding) sees %s already set, so the name is removed again when a later step fails" % flag
               if not bad and seen_ok[0] else
               ("line %d: an exit after the exclusive create is reached with %s not set: the freshly created name is left in the system" % (bad[0], flag) if bad else
                "no exit after a successful exclusive create was found"), bad[0] if bad else cr.loc[0])
    rep.floor("C20.5", 4)


def self_release(u, fn, k, memo):
    """Lines of the returns of fn that are reached with parameter k possibly non-NULL and not handed to p_free (or to a unit function that
    releases it on every path); None when no path releases it at all."""
    key = (fn.name, k)
    if key in memo:
        return memo[key]
    memo[key] = []           # recursion: assume it releases
    ps = fn.param_names()
    if k >= len(ps):
        memo[key] = None
        return None
    p0 = ps[k]
    missing, hits = [], [0]

    def on_stmt(st, b, i, stmt):
        facts, freed, names = st
        # locals that hold the argument (`for (next = cur = list; ...)`), innermost assignment first
        for n in reversed(list(walk(stmt))):
            if n["k"] == "asg" and n.get("op") == "=" and strip_casts(n["l"]) is not None and strip_casts(n["l"])["k"] == "ref":
                r = strip_casts(n["r"])
                if r is not None and r["k"] == "asg":
                    r = strip_casts(r["l"])
                tgt = strip_casts(n["l"])["name"]
                if r is not None and r["k"] == "ref" and r["name"] in names:
                    names = names | {tgt}
                elif tgt in names and not freed:
                    names = names - {tgt}
            elif n["k"] == "decl" and n.get("init") is not None:
                r = strip_casts(n["init"])
                if r is not None and r["k"] == "ref" and r["name"] in names:
                    names = names | {n["name"]}
        for c in calls(stmt):
            for ai, a in enumerate(c.get("args", ())):
                a2 = strip_casts(a)
                if a2 is None or a2["k"] != "ref":
                    continue
                if a2["name"] not in names:
                    continue
                cn = c.get("callee")
                if cn == "p_free" and ai == 0:
                    freed = True
                    hits[0] += 1
                elif cn in u.functions and cn != fn.name and self_release(u, u.functions[cn], ai, memo) == []:
                    freed = True
                    hits[0] += 1
        if stmt["k"] == "ret":
            if not freed and guards.lookup(facts, p0) != 0:
                missing.append(line(stmt))
            return []
        return [(guards.transfer(facts, stmt), freed, names)]

    def on_edge(st, b, to, on):
        f2 = guards.edge_assume(st[0], b, on)
        if f2 is not None and not st[1] and any(fk == p0 and fop == "!=" and fv == 0 for (fk, fop, fv) in f2) and any(guards.lookup(f2, x) == 0 for x in st[2]):
            return None          # a local that still holds the (non-NULL) argument cannot test NULL
        return None if f2 is None else (f2, st[1], st[2])
    try:
        fl = Flow(fn, [(guards.EMPTY, False, frozenset([p0]))], on_stmt, on_edge, max_states=20000).run()
    except AnalysisBroken:
        memo[key] = None
        return None
    # falling off the end of a void function
    for (parent, (facts, freed, names_)) in fl.exit_states():
        if not freed and guards.lookup(facts, p0) != 0:
            missing.append(fn.d.get("end", fn.loc)[0] if isinstance(fn.d.get("end"), list) else fn.loc[0])
    memo[key] = None if hits[0] == 0 else sorted(set(missing))
    return memo[key]


def unreleased_paths(u, fr, T, fields):
    """{field: line} for owned fields that some path through the free function (static helpers inlined) leaves unreleased although the
    path does not know the field to be NULL / -1 (and the object itself is not NULL)."""
    fv = fr.inlined()
    p0 = fv.param_names()[0]
    out = {}

    def releasing(cn):
        return cn in FIELD_RELEASERS or cn in T.release or (cn or "").endswith("_free") or (cn or "").endswith("_close") or cn in ("p_socket_close",)

    def on_stmt(st, b, i, stmt):
        facts, rel = st
        for c in calls(stmt):
            cn = c.get("callee")
            for ai, a in enumerate(c.get("args", ())):
                a2 = strip_casts(a)
                if a2 is None:
                    continue
                if a2["k"] == "ref" and a2.get("decl") == "local":
                    a2 = fv.resolve(a2) or a2
                slot = cn is None and c.get("fnptr") is not None and strip_casts(c["fnptr"])["k"] == "member" and root_var(c["fnptr"]) == p0
                if a2["k"] == "member" and root_var(a2) == p0 and (releasing(cn) or slot):
                    top = a2
                    while strip_casts(top["base"])["k"] == "member":
                        top = strip_casts(top["base"])
                    rel = rel | {top["field"]}
                if a2["k"] == "ref" and a2["name"] == p0 and cn in u.functions and cn != fr.name:
                    rel = rel | frozenset(released_fields(u, u.functions[cn], T))
            if cn in ("p_socket_close",) and c.get("args") and root_var(c["args"][0]) == p0:
                rel = rel | {"fd"}
        # a field that is overwritten (reset to NULL by the clean-up) while it is neither released nor known to be invalid is lost there
        for n in walk(stmt):
            if n["k"] == "asg" and n.get("op") == "=":
                l = strip_casts(n["l"])
                if l is not None and l["k"] == "member" and strip_casts(l["base"])["k"] == "ref" and strip_casts(l["base"])["name"] == p0 and l["field"] in fields:
                    check(facts, rel, line(n), only=l["field"])
                    rel = rel | {l["field"]}           # judged here; what the field holds afterwards is the new value
        if stmt["k"] == "ret":
            check(facts, rel, line(stmt))
            return []
        return [(guards.transfer(facts, stmt), rel)]

    def check(facts, rel, ln, only=None):
        if guards.lookup(facts, p0) == 0:
            return
        for f_ in fields:
            if f_ in rel or f_ in out or (only is not None and f_ != only):
                continue
            v = guards.lookup(facts, "%s->%s" % (p0, f_))
            if v in (0, -1):
                continue
            # ... or known invalid through a state flag of the object: a flag g that is only ever raised together with the
            # invalidation of the field (`closed = TRUE; fd = -1;` in one block) and tests true on this path
            if any(fk.startswith(p0 + "->") and ((fop == "!=" and fv == 0) or (fop == "==" and fv not in (0, -1) and isinstance(fv, int)))
                   and invalidates(fk[len(p0) + 2:], f_) for (fk, fop, fv) in facts):
                continue
            out[f_] = ln

    inv_memo = {}

    def invalidates(g, f_):
        if (g, f_) in inv_memo:
            return inv_memo[(g, f_)]
        raised = 0
        ok_ = True
        for fx in u.functions.values():
            for bx in fx.blocks.values():
                sts_ = [n for s_ in bx.stmts for n in walk(s_) if n["k"] == "asg" and n.get("op") == "=" and strip_casts(n["l"]) is not None and strip_casts(n["l"])["k"] == "member"]
                if any(strip_casts(n["l"])["field"] == g and cv(n["r"]) not in (None, 0) for n in sts_):
                    raised += 1
                    if not any(strip_casts(n["l"])["field"] == f_ and cv(n["r"]) in (0, -1) for n in sts_):
                        ok_ = False
        inv_memo[(g, f_)] = ok_ and raised > 0
        return inv_memo[(g, f_)]

    def on_edge(st, b, to, on):
        f2 = guards.edge_assume(st[0], b, on)
        return None if f2 is None else (f2, st[1])
    try:
        fl = Flow(fv, [(guards.EMPTY, frozenset())], on_stmt, on_edge, max_states=20000).run()
    except AnalysisBroken:
        return {}
    for (parent, (facts, rel)) in fl.exit_states():
        check(facts, rel, fr.loc[0])
    return out


DESC_CLOSERS = ("p_sys_close", "close", "closesocket")


def closed_fields(u, fr, k=0, seen=None):
    """Fields of fr's k-th parameter whose value reaches a descriptor-closing call in fr or in the unit functions it forwards the object to."""
    seen = seen if seen is not None else set()
    out = set()
    if (fr.name, k) in seen or k >= len(fr.param_names()):
        return out
    seen.add((fr.name, k))
    p0 = fr.param_names()[k]
    for b, i, c in fr.calls():
        cn = c.get("callee")
        for ai, a in enumerate(c["args"]):
            a2 = strip_casts(a)
            if a2 is None:
                continue
            if a2["k"] == "ref" and a2.get("decl") == "local":
                a2 = fr.resolve(a2) or a2
            if a2["k"] == "member" and root_var(a2) == p0 and cn in DESC_CLOSERS:
                out.add(a2["field"])
            if a2["k"] == "ref" and a2["name"] == p0 and cn in u.functions and cn != fr.name:
                out |= closed_fields(u, u.functions[cn], ai, seen)
    return out


def released_fields(u, fr, T, seen=None):
    """Fields of fr's first parameter handed to a releasing call in fr or in unit helpers it forwards the object to."""
    seen = seen if seen is not None else set()
    out = set()
    if fr.name in seen:
        return out
    seen.add(fr.name)
    p0 = fr.param_names()[0]
    for b, i, c in fr.calls():
        cn = c.get("callee")
        for ai, a in enumerate(c["args"]):
            a2 = strip_casts(a)
            if a2 is None:
                continue
            if a2["k"] == "ref" and a2.get("decl") == "local":
                a2 = fr.resolve(a2) or a2          # `T *buckets = obj->table; ... p_free (buckets);`
            if a2["k"] == "member" and root_var(a2) == p0:
                top = a2
                while strip_casts(top["base"])["k"] == "member":
                    top = strip_casts(top["base"])
                if cn in FIELD_RELEASERS or cn in T.release or (cn or "").endswith("_free") or (cn or "").endswith("_close") or cn in ("p_socket_close",):
                    out.add(top["field"])
                elif cn is None and c.get("fnptr") is not None and strip_casts(c["fnptr"])["k"] == "member" and root_var(c["fnptr"]) == p0:
                    out.add(top["field"])          # handed to one of the object's own slots (`hash->free (hash->context)`)
            if a2["k"] == "ref" and a2["name"] == p0 and cn in u.functions and cn != fr.name:
                out |= released_fields(u, u.functions[cn], T, seen)
        if cn in ("p_socket_close",) and c["args"] and root_var(c["args"][0]) == p0:
            out.add("fd")
    return out


# generic robustness battery: renaming every local/parameter in these files must not change any verdict
RENAME_LOCALS = ['src/pdir-posix.c', 'src/pshm-posix.c', 'src/psemaphore-posix.c', 'src/plibraryloader-posix.c']

SELFTEST = [
    dict(id="crypto-hash-free-forgets-context", file="src/pcryptohash.c", expect="C20.1",
         old="\thash->free (hash->context);\n", new=""),
    dict(id="spinlock-free-forgets-object", file="src/pspinlock-c11.c", expect="C20.1",
         old="\tp_free (spinlock);", new="\t(void) spinlock;"),
    dict(id="socket-address-free-inverted-guard", file="src/psocketaddress.c", expect="C20.1",
         old="p_socket_address_free (PSocketAddress *addr)\n{\n\tif (P_UNLIKELY (addr == NULL))", new="p_socket_address_free (PSocketAddress *addr)\n{\n\tif (P_UNLIKELY (addr != NULL))"),
    dict(id="ini-parameter-free-forgets-object", file="src/pinifile.c", expect="C20.1",
         old="\tp_free (param->value);\n\tp_free (param);", new="\tp_free (param->value);"),
    dict(id="dir-free-forgets-orig-path", file="src/pdir-posix.c", expect="C20.1",
         old="\tp_free (dir->path);\n\tp_free (dir->orig_path);\n\tp_free (dir);", new="\tp_free (dir->path);\n\tp_free (dir);"),
    dict(id="semaphore-free-forgets-key", file="src/psemaphore-posix.c", expect="C20.1",
         old="\tif (P_LIKELY (sem->platform_key != NULL))\n\t\tp_free (sem->platform_key);\n\n\tp_free (sem);", new="\tp_free (sem);"),
    dict(id="dir-new-closedir-dropped", file="src/pdir-posix.c", expect="C20.2",
         old="\t\t\t\t     \"Failed to allocate memory for directory structure\");\n\t\tclosedir (dir);\n\t\treturn NULL;", new="\t\t\t\t     \"Failed to allocate memory for directory structure\");\n\t\treturn NULL;"),
    dict(id="accept-fd-leak-on-failure", file="src/psocket.c", expect="C20.2",
         old="\tif (P_UNLIKELY ((ret = p_socket_new_from_fd (res, error)) == NULL)) {\n\t\tif (P_UNLIKELY (p_sys_close (res) != 0))\n\t\t\tP_WARNING (\"PSocket::p_socket_accept: p_sys_close() failed\");\n\t} else",
         new="\tif (P_LIKELY ((ret = p_socket_new_from_fd (res, error)) != NULL))"),
    dict(id="new-from-fd-frees-socket-on-failure", file="src/psocket.c", expect="C20.2",
         old="\tif (P_UNLIKELY (pp_socket_set_details_from_fd (ret, error) == FALSE)) {\n\t\tp_free (ret);", new="\tif (P_UNLIKELY (pp_socket_set_details_from_fd (ret, error) == FALSE)) {\n\t\tp_socket_free (ret);"),
    dict(id="shm-fd-closed-twice", file="src/pshm-posix.c", expect="C20.2",
         old="\tif (P_UNLIKELY ((shm->sem = p_semaphore_new (shm->platform_key, 1,", new="\tp_sys_close (fd);\n\n\tif (P_UNLIKELY ((shm->sem = p_semaphore_new (shm->platform_key, 1,"),
    dict(id="munmap-clamped-size", file="src/pshm-posix.c", expect="C20.3",
         old="munmap (shm->addr, shm->map_size) == -1", new="munmap (shm->addr, shm->size) == -1"),
    dict(id="platform-key-temp-leak", file="src/psemaphore-posix.c", expect="C20.4",
         old="\tret->init_val = init_val;\n\tret->mode = mode;\n\n\tp_free (new_name);\n", new="\tret->init_val = init_val;\n\tret->mode = mode;\n"),
    dict(id="ini-int-getter-copy-leak", file="src/pinifile.c", expect="C20.4",
         old="\tret = atoi (val);\n\tp_free (val);\n", new="\tret = atoi (val);\n"),
    dict(id="shm-owner-flag-late", file="src/pshm-posix.c", expect="C20.5",
         old="\t} else\n\t\tshm->shm_created = TRUE;\n\n\tif (P_UNLIKELY (fd == P_SHM_INVALID_HDL)) {", new="\t}\n\n\tif (P_UNLIKELY (fd == P_SHM_INVALID_HDL)) {"),
    dict(id="sem-unlink-never", file="src/psemaphore-posix.c", expect="C20.5",
         old="\tif (sem->sem_hdl != P_SEM_INVALID_HDL &&\n\t    sem->sem_created == TRUE &&\n\t    sem_unlink (sem->platform_key) == -1)\n\t\tP_ERROR (\"PSemaphore::pp_semaphore_clean_handle: sem_unlink() failed\");\n", new=""),
]
