// pfx — fact extractor for the plibsys static checkers.
//
// One translation unit in, one JSON document out: record layouts, enums,
// file-scope variables, and for every function defined in the main file its
// clang::CFG (built with setAllAlwaysAdd) whose blocks carry the ordered
// top-level statements as typed expression trees.  Callee identities,
// constant-folded values, canonical types and cast kinds come from the
// type-checked AST, not from text.
//
// usage: pfx <file.c> -o <out.json> -- <compiler flags>

#include "clang/AST/ASTConsumer.h"
#include "clang/AST/ASTContext.h"
#include "clang/AST/Attr.h"
#include "clang/AST/Expr.h"
#include "clang/AST/RecordLayout.h"
#include "clang/AST/RecursiveASTVisitor.h"
#include "clang/Analysis/CFG.h"
#include "clang/Basic/SourceManager.h"
#include "clang/Frontend/CompilerInstance.h"
#include "clang/Frontend/FrontendAction.h"
#include "clang/Lex/Lexer.h"
#include "clang/Tooling/CommonOptionsParser.h"
#include "clang/Tooling/Tooling.h"
#include "llvm/Support/CommandLine.h"
#include "llvm/Support/JSON.h"
#include "llvm/Support/raw_ostream.h"

#include <map>
#include <set>
#include <string>
#include <vector>

using namespace clang;
namespace json = llvm::json;

static llvm::cl::OptionCategory PfxCat("pfx options");
static llvm::cl::opt<std::string> OutFile("o", llvm::cl::desc("output JSON"),
                                          llvm::cl::value_desc("file"),
                                          llvm::cl::cat(PfxCat));

namespace {

static const char *atomicOpName(AtomicExpr::AtomicOp Op) {
  switch (Op) {
#define BUILTIN(ID, TYPE, ATTRS)
#define ATOMIC_BUILTIN(ID, TYPE, ATTRS)                                        \
  case AtomicExpr::AO##ID:                                                     \
    return #ID;
#include "clang/Basic/Builtins.def"
  }
  return "__atomic_unknown";
}

class Extractor {
public:
  ASTContext &Ctx;
  SourceManager &SM;
  PrintingPolicy PP;
  json::Array Types;
  std::map<const Type *, int> TypeIdx;
  std::set<const RecordDecl *> UsedRecords;
  std::vector<const RecordDecl *> RecordOrder;

  // per-function state
  std::map<const Stmt *, std::pair<unsigned, unsigned>> ElemPos; // stmt -> (block, idx)
  unsigned CurBlock = 0;

  explicit Extractor(ASTContext &C)
      : Ctx(C), SM(C.getSourceManager()), PP(C.getLangOpts()) {
    PP.SuppressTagKeyword = false;
  }

  void useRecord(const RecordDecl *RD) {
    if (!RD)
      return;
    RD = RD->getDefinition();
    if (!RD || RD->isInvalidDecl())
      return;
    if (UsedRecords.insert(RD).second)
      RecordOrder.push_back(RD);
  }

  int typeIndex(QualType QT) {
    QualType CT = QT.getCanonicalType();
    const Type *TP = CT.getTypePtr();
    // qualifiers matter little for us, but keep volatile
    bool Vol = CT.isVolatileQualified();
    auto It = TypeIdx.find(TP);
    if (It != TypeIdx.end() && !Vol)
      return It->second;
    json::Object O;
    O["s"] = CT.getAsString(PP);
    if (Vol)
      O["vol"] = true;
    if (TP->isIncompleteType() || TP->isFunctionType() || TP->isVoidType() ||
        TP->isPlaceholderType() || TP->isDependentType()) {
      O["w"] = 0;
    } else {
      O["w"] = (int64_t)Ctx.getTypeSize(CT);
    }
    if (TP->isPointerType()) {
      O["k"] = "ptr";
      // reserve slot first to avoid infinite recursion on self-referential types
      int Idx = (int)Types.size();
      if (!Vol)
        TypeIdx[TP] = Idx;
      Types.push_back(nullptr);
      O["p"] = typeIndex(TP->getPointeeType());
      Types[Idx] = std::move(O);
      return Idx;
    } else if (TP->isEnumeralType()) {
      O["k"] = "enum";
      O["sg"] = TP->isSignedIntegerOrEnumerationType();
    } else if (TP->isBooleanType() || TP->isIntegerType()) {
      O["k"] = "int";
      O["sg"] = TP->isSignedIntegerType();
    } else if (TP->isFloatingType()) {
      O["k"] = "float";
    } else if (TP->isRecordType()) {
      O["k"] = "rec";
      const RecordDecl *RD = TP->getAsRecordDecl();
      O["rec"] = recordName(RD);
      useRecord(RD);
    } else if (const auto *AT = dyn_cast<ConstantArrayType>(TP)) {
      O["k"] = "arr";
      O["n"] = (int64_t)AT->getSize().getZExtValue();
      int Idx = (int)Types.size();
      if (!Vol)
        TypeIdx[TP] = Idx;
      Types.push_back(nullptr);
      O["el"] = typeIndex(AT->getElementType());
      Types[Idx] = std::move(O);
      return Idx;
    } else if (TP->isArrayType()) {
      O["k"] = "arr";
    } else if (TP->isFunctionType()) {
      O["k"] = "fn";
    } else if (TP->isVoidType()) {
      O["k"] = "void";
    } else {
      O["k"] = "other";
    }
    int Idx = (int)Types.size();
    if (!Vol)
      TypeIdx[TP] = Idx;
    Types.push_back(std::move(O));
    return Idx;
  }

  std::string recordName(const RecordDecl *RD) {
    if (!RD)
      return "";
    if (RD->getIdentifier())
      return RD->getName().str();
    if (const TypedefNameDecl *TD = RD->getTypedefNameForAnonDecl())
      return TD->getName().str();
    // anonymous: name by location
    PresumedLoc PL = SM.getPresumedLoc(SM.getExpansionLoc(RD->getLocation()));
    if (PL.isValid())
      return std::string("anon@") + llvm::sys::path::filename(PL.getFilename()).str() +
             ":" + std::to_string(PL.getLine());
    return "anon";
  }

  json::Array loc(SourceLocation L) {
    json::Array A;
    // macro argument -> where it is written; macro body -> the expansion point
    SourceLocation EL = SM.getFileLoc(L);
    PresumedLoc PL = SM.getPresumedLoc(EL);
    if (PL.isValid()) {
      A.push_back((int64_t)PL.getLine());
      A.push_back((int64_t)PL.getColumn());
      if (SM.getFileID(EL) != SM.getMainFileID())
        A.push_back(llvm::sys::path::filename(PL.getFilename()).str());
    }
    return A;
  }

  void macroChain(SourceLocation L, json::Object &O) {
    if (!L.isMacroID())
      return;
    json::Array A;
    SourceLocation Cur = L;
    int Guard = 0;
    while (Cur.isMacroID() && Guard++ < 16) {
      StringRef N = Lexer::getImmediateMacroName(Cur, SM, Ctx.getLangOpts());
      if (!N.empty() && (A.empty() || *A.back().getAsString() != N))
        A.push_back(N.str());
      Cur = SM.getImmediateMacroCallerLoc(Cur);
    }
    if (!A.empty())
      O["m"] = std::move(A);
  }

  void constVal(const Expr *E, json::Object &O) {
    if (E->isValueDependent() || E->isTypeDependent())
      return;
    QualType T = E->getType();
    if (T.isNull())
      return;
    if (T->isIntegralOrEnumerationType()) {
      Expr::EvalResult R;
      if (E->EvaluateAsInt(R, Ctx) && R.Val.isInt()) {
        const llvm::APSInt &V = R.Val.getInt();
        if (V.isSigned() ? V.isSignedIntN(64) : V.isIntN(63))
          O["cv"] = V.isSigned() ? (int64_t)V.getSExtValue()
                                 : (int64_t)V.getZExtValue();
        else if (!V.isSigned() && V.isIntN(64))
          O["cvs"] = std::to_string(V.getZExtValue());
      }
    } else if (T->isPointerType()) {
      Expr::EvalResult R;
      if (E->EvaluateAsRValue(R, Ctx) && R.Val.isLValue() &&
          !R.Val.getLValueBase() && !R.HasSideEffects) {
        O["cv"] = (int64_t)R.Val.getLValueOffset().getQuantity();
      }
    }
  }

  bool elsewhere(const Stmt *S) {
    auto It = ElemPos.find(S);
    return It != ElemPos.end() && It->second.first != CurBlock;
  }

  json::Value sub(const Stmt *S) {
    if (!S)
      return nullptr;
    json::Value V = expr(S);
    // mark sub-expressions that the CFG evaluates in another block
    const Stmt *Key = S;
    if (const auto *E = dyn_cast<Expr>(S))
      Key = E->IgnoreParens();
    if (elsewhere(Key) || elsewhere(S)) {
      if (auto *O = V.getAsObject())
        (*O)["x"] = 1;
    }
    return V;
  }

  json::Value expr(const Stmt *S) {
    if (!S)
      return nullptr;
    if (const auto *PE = dyn_cast<ParenExpr>(S))
      return expr(PE->getSubExpr());
    if (const auto *CE = dyn_cast<ConstantExpr>(S))
      return expr(CE->getSubExpr());
    if (const auto *ICE = dyn_cast<ImplicitCastExpr>(S)) {
      switch (ICE->getCastKind()) {
      case CK_LValueToRValue:
      case CK_NoOp:
      case CK_FunctionToPointerDecay:
      case CK_ArrayToPointerDecay:
      case CK_BuiltinFnToFnPtr:
        return expr(ICE->getSubExpr());
      default:
        break;
      }
    }
    json::Object O;
    if (const auto *E = dyn_cast<Expr>(S)) {
      if (!E->getType().isNull())
        O["t"] = typeIndex(E->getType());
      constVal(E, O);
    }
    O["loc"] = loc(S->getBeginLoc());
    macroChain(S->getBeginLoc(), O);

    if (const auto *CE = dyn_cast<CastExpr>(S)) {
      O["k"] = "cast";
      O["explicit"] = isa<ExplicitCastExpr>(CE);
      O["ck"] = CE->getCastKindName();
      O["ts"] = CE->getType().getAsString(PP);
      O["e"] = sub(CE->getSubExpr());
    } else if (const auto *DRE = dyn_cast<DeclRefExpr>(S)) {
      O["k"] = "ref";
      const ValueDecl *D = DRE->getDecl();
      O["name"] = D->getNameAsString();
      if (isa<ParmVarDecl>(D))
        O["decl"] = "param";
      else if (const auto *VD = dyn_cast<VarDecl>(D)) {
        if (VD->isLocalVarDecl())
          O["decl"] = VD->isStaticLocal() ? "staticlocal" : "local";
        else
          O["decl"] = "global";
      } else if (isa<FunctionDecl>(D))
        O["decl"] = "func";
      else if (isa<EnumConstantDecl>(D))
        O["decl"] = "enumconst";
      else
        O["decl"] = "other";
    } else if (const auto *ME = dyn_cast<MemberExpr>(S)) {
      O["k"] = "member";
      O["arrow"] = ME->isArrow();
      O["field"] = ME->getMemberDecl()->getNameAsString();
      if (const auto *FD = dyn_cast<FieldDecl>(ME->getMemberDecl())) {
        O["rec"] = recordName(FD->getParent());
        useRecord(FD->getParent());
      }
      O["base"] = sub(ME->getBase());
    } else if (const auto *UO = dyn_cast<UnaryOperator>(S)) {
      O["k"] = "un";
      switch (UO->getOpcode()) {
      case UO_PostInc: O["op"] = "post++"; break;
      case UO_PostDec: O["op"] = "post--"; break;
      case UO_PreInc: O["op"] = "pre++"; break;
      case UO_PreDec: O["op"] = "pre--"; break;
      default: O["op"] = UnaryOperator::getOpcodeStr(UO->getOpcode()).str(); break;
      }
      O["e"] = sub(UO->getSubExpr());
    } else if (const auto *BO = dyn_cast<BinaryOperator>(S)) {
      O["k"] = BO->isAssignmentOp() ? "asg" : "bin";
      O["op"] = BO->getOpcodeStr().str();
      O["l"] = sub(BO->getLHS());
      O["r"] = sub(BO->getRHS());
      if (const auto *CAO = dyn_cast<CompoundAssignOperator>(BO))
        O["ct"] = typeIndex(CAO->getComputationResultType());
    } else if (const auto *CO = dyn_cast<AbstractConditionalOperator>(S)) {
      O["k"] = "cond";
      O["c"] = sub(CO->getCond());
      O["a"] = sub(CO->getTrueExpr());
      O["b"] = sub(CO->getFalseExpr());
    } else if (const auto *AE = dyn_cast<AtomicExpr>(S)) {
      O["k"] = "call";
      O["callee"] = atomicOpName(AE->getOp());
      O["atomic"] = true;
      json::Array Args;
      Args.push_back(sub(AE->getPtr()));
      json::Object Named;
      unsigned N = AE->getNumSubExprs();
      // sub-expression layout: ptr, order, [val1], [order_fail], [val2], [weak]
      bool IsLoad = AE->getOp() == AtomicExpr::AO__atomic_load_n ||
                    AE->getOp() == AtomicExpr::AO__c11_atomic_load;
      if (!IsLoad && N > 2) {
        Args.push_back(sub(AE->getVal1()));
        Named["val1"] = (int64_t)(Args.size() - 1);
      }
      bool IsCas = AE->isCmpXChg();
      if (IsCas) {
        Args.push_back(sub(AE->getVal2()));
        Named["val2"] = (int64_t)(Args.size() - 1);
        if (AE->getOp() == AtomicExpr::AO__atomic_compare_exchange_n ||
            AE->getOp() == AtomicExpr::AO__atomic_compare_exchange) {
          Args.push_back(sub(AE->getWeak()));
          Named["weak"] = (int64_t)(Args.size() - 1);
        }
      } else if (AE->getOp() == AtomicExpr::AO__atomic_exchange && N > 3) {
        Args.push_back(sub(AE->getVal2()));
      }
      Args.push_back(sub(AE->getOrder()));
      Named["order"] = (int64_t)(Args.size() - 1);
      if (IsCas) {
        Args.push_back(sub(AE->getOrderFail()));
        Named["order_fail"] = (int64_t)(Args.size() - 1);
      }
      O["args"] = std::move(Args);
      O["named"] = std::move(Named);
    } else if (const auto *CE = dyn_cast<CallExpr>(S)) {
      O["k"] = "call";
      if (const FunctionDecl *FD = CE->getDirectCallee()) {
        O["callee"] = FD->getNameAsString();
        if (FD->getBuiltinID())
          O["builtin"] = true;
      } else {
        O["callee"] = nullptr;
        O["fnptr"] = sub(CE->getCallee());
      }
      json::Array Args;
      for (const Expr *A : CE->arguments())
        Args.push_back(sub(A));
      O["args"] = std::move(Args);
    } else if (const auto *ASE = dyn_cast<ArraySubscriptExpr>(S)) {
      O["k"] = "idx";
      O["base"] = sub(ASE->getBase());
      O["i"] = sub(ASE->getIdx());
    } else if (const auto *IL = dyn_cast<IntegerLiteral>(S)) {
      O["k"] = "int";
      if (IL->getValue().isIntN(63))
        O["v"] = (int64_t)IL->getValue().getZExtValue();
      else
        O["vs"] = std::to_string(IL->getValue().getZExtValue());
    } else if (const auto *CL = dyn_cast<CharacterLiteral>(S)) {
      O["k"] = "int";
      O["v"] = (int64_t)CL->getValue();
      O["char"] = true;
    } else if (isa<FloatingLiteral>(S)) {
      O["k"] = "float";
    } else if (const auto *SL = dyn_cast<StringLiteral>(S)) {
      O["k"] = "str";
      if (SL->getCharByteWidth() == 1)
        O["v"] = SL->getBytes().str();
      O["len"] = (int64_t)SL->getLength();
    } else if (const auto *UE = dyn_cast<UnaryExprOrTypeTraitExpr>(S)) {
      O["k"] = "sizeof";
      O["trait"] = (int64_t)UE->getKind();
      QualType AT = UE->getTypeOfArgument();
      if (!AT.isNull()) {
        O["of"] = AT.getCanonicalType().getAsString(PP);
        O["oft"] = typeIndex(AT);
        O["ofs"] = AT.getAsString(PP);
      }
      if (!UE->isArgumentType())
        O["e"] = expr(UE->getArgumentExpr()); // unevaluated operand
    } else if (const auto *DS = dyn_cast<DeclStmt>(S)) {
      json::Array Items;
      for (const Decl *D : DS->decls()) {
        if (const auto *VD = dyn_cast<VarDecl>(D)) {
          json::Object V;
          V["k"] = "decl";
          V["name"] = VD->getNameAsString();
          V["t"] = typeIndex(VD->getType());
          V["ts"] = VD->getType().getAsString(PP);
          V["loc"] = loc(VD->getLocation());
          if (VD->isStaticLocal())
            V["static"] = true;
          if (VD->hasInit())
            V["init"] = sub(VD->getInit());
          Items.push_back(std::move(V));
        }
      }
      if (Items.size() == 1)
        return std::move(Items[0]);
      O["k"] = "seq";
      O["items"] = std::move(Items);
    } else if (const auto *RS = dyn_cast<ReturnStmt>(S)) {
      O["k"] = "ret";
      if (RS->getRetValue())
        O["e"] = sub(RS->getRetValue());
    } else if (const auto *ILE = dyn_cast<InitListExpr>(S)) {
      O["k"] = "init";
      json::Array Items;
      unsigned N = ILE->getNumInits();
      O["n"] = (int64_t)N;
      if (N <= 300)
        for (unsigned I = 0; I < N; ++I)
          Items.push_back(sub(ILE->getInit(I)));
      O["items"] = std::move(Items);
    } else if (const auto *CLE = dyn_cast<CompoundLiteralExpr>(S)) {
      O["k"] = "complit";
      O["e"] = sub(CLE->getInitializer());
    } else if (isa<StmtExpr>(S)) {
      O["k"] = "stmtexpr";
    } else if (isa<ImplicitValueInitExpr>(S)) {
      O["k"] = "int";
      O["v"] = 0;
      O["implicit"] = true;
    } else if (const auto *VA = dyn_cast<VAArgExpr>(S)) {
      O["k"] = "vaarg";
      O["e"] = sub(VA->getSubExpr());
    } else if (isa<PredefinedExpr>(S)) {
      O["k"] = "str";
      O["predef"] = true;
    } else if (isa<NullStmt>(S)) {
      O["k"] = "null";
    } else if (isa<GCCAsmStmt>(S)) {
      O["k"] = "asm";
    } else if (const auto *OE = dyn_cast<OffsetOfExpr>(S)) {
      (void)OE;
      O["k"] = "offsetof";
    } else if (const auto *CH = dyn_cast<ChooseExpr>(S)) {
      return expr(CH->getChosenSubExpr());
    } else if (const auto *LS = dyn_cast<LabelStmt>(S)) {
      O["k"] = "label";
      O["name"] = LS->getName();
    } else {
      O["k"] = "other";
      O["cls"] = S->getStmtClassName();
      json::Array Ch;
      for (const Stmt *C : S->children())
        if (C)
          Ch.push_back(sub(C));
      O["ch"] = std::move(Ch);
    }
    return std::move(O);
  }

  void collectDesc(const Stmt *S, std::set<const Stmt *> &Cov) {
    for (const Stmt *C : S->children()) {
      if (!C)
        continue;
      Cov.insert(C);
      collectDesc(C, Cov);
    }
  }

  json::Value function(const FunctionDecl *FD) {
    json::Object F;
    F["name"] = FD->getNameAsString();
    F["static"] = FD->getStorageClass() == SC_Static;
    F["inline"] = FD->isInlineSpecified();
    F["ret"] = typeIndex(FD->getReturnType());
    F["rets"] = FD->getReturnType().getAsString(PP);
    bool Api = false;
    for (const FunctionDecl *R : FD->redecls())
      if (const auto *VA = R->getAttr<VisibilityAttr>())
        if (VA->getVisibility() == VisibilityAttr::Default)
          Api = true;
    F["api"] = Api;
    json::Array Params;
    for (const ParmVarDecl *P : FD->parameters()) {
      json::Object PO;
      PO["name"] = P->getNameAsString();
      PO["t"] = typeIndex(P->getType());
      PO["ts"] = P->getType().getAsString(PP);
      Params.push_back(std::move(PO));
    }
    F["params"] = std::move(Params);
    {
      json::Array L;
      PresumedLoc B = SM.getPresumedLoc(SM.getExpansionLoc(FD->getBeginLoc()));
      PresumedLoc E = SM.getPresumedLoc(SM.getExpansionLoc(FD->getEndLoc()));
      L.push_back((int64_t)(B.isValid() ? B.getLine() : 0));
      L.push_back((int64_t)(E.isValid() ? E.getLine() : 0));
      F["loc"] = std::move(L);
    }

    CFG::BuildOptions BO;
    BO.setAllAlwaysAdd();
    BO.AddImplicitDtors = false;
    BO.AddEHEdges = false;
    BO.PruneTriviallyFalseEdges = true;
    std::unique_ptr<CFG> G =
        CFG::buildCFG(FD, FD->getBody(), &Ctx, BO);
    if (!G) {
      F["cfg_error"] = true;
      return std::move(F);
    }
    ElemPos.clear();
    for (const CFGBlock *B : *G) {
      unsigned I = 0;
      for (const CFGElement &El : *B) {
        if (auto CS = El.getAs<CFGStmt>()) {
          const Stmt *S = CS->getStmt();
          ElemPos[S] = {B->getBlockID(), I};
        }
        ++I;
      }
    }
    json::Array Blocks;
    for (const CFGBlock *B : *G) {
      CurBlock = B->getBlockID();
      json::Object BOJ;
      BOJ["id"] = (int64_t)B->getBlockID();
      // top-level statements
      std::vector<const Stmt *> Elems;
      for (const CFGElement &El : *B)
        if (auto CS = El.getAs<CFGStmt>())
          Elems.push_back(CS->getStmt());
      std::set<const Stmt *> Cov;
      std::vector<const Stmt *> Top;
      for (auto It = Elems.rbegin(); It != Elems.rend(); ++It) {
        const Stmt *S = *It;
        if (Cov.count(S))
          continue;
        Top.push_back(S);
        collectDesc(S, Cov);
      }
      std::reverse(Top.begin(), Top.end());
      json::Array Stmts;
      std::map<const Stmt *, int> TopIdx;
      int TI = 0;
      for (const Stmt *S : Top) {
        // skip bare literals / refs that are only operands evaluated for a
        // terminator living elsewhere? keep everything: rules decide.
        Stmts.push_back(expr(S));
        const Stmt *Key = S;
        if (const auto *E = dyn_cast<Expr>(S))
          Key = E->IgnoreParens();
        TopIdx[Key] = TI;
        TopIdx[S] = TI;
        ++TI;
      }
      BOJ["stmts"] = std::move(Stmts);
      if (const Stmt *L = B->getLabel()) {
        json::Object LO;
        if (const auto *CS = dyn_cast<CaseStmt>(L)) {
          Expr::EvalResult R;
          if (CS->getLHS()->EvaluateAsInt(R, Ctx))
            LO["case"] = (int64_t)R.Val.getInt().getSExtValue();
          if (CS->getRHS()) {
            Expr::EvalResult R2;
            if (CS->getRHS()->EvaluateAsInt(R2, Ctx))
              LO["case_hi"] = (int64_t)R2.Val.getInt().getSExtValue();
          }
          LO["loc"] = loc(CS->getBeginLoc());
        } else if (isa<DefaultStmt>(L)) {
          LO["default"] = true;
        } else if (const auto *LS = dyn_cast<LabelStmt>(L)) {
          LO["label"] = LS->getName();
        }
        BOJ["label"] = std::move(LO);
      }
      const Stmt *T = B->getTerminatorStmt();
      bool IsSwitch = false;
      if (T) {
        json::Object TO;
        const char *Kind = "other";
        if (isa<IfStmt>(T)) Kind = "if";
        else if (isa<WhileStmt>(T)) Kind = "while";
        else if (isa<DoStmt>(T)) Kind = "do";
        else if (isa<ForStmt>(T)) Kind = "for";
        else if (isa<SwitchStmt>(T)) { Kind = "switch"; IsSwitch = true; }
        else if (isa<AbstractConditionalOperator>(T)) Kind = "cond";
        else if (const auto *BOp = dyn_cast<BinaryOperator>(T)) {
          Kind = BOp->getOpcode() == BO_LAnd ? "&&" : (BOp->getOpcode() == BO_LOr ? "||" : "bin");
        } else if (isa<BreakStmt>(T)) Kind = "break";
        else if (isa<ContinueStmt>(T)) Kind = "continue";
        else if (isa<GotoStmt>(T)) Kind = "goto";
        TO["kind"] = Kind;
        TO["loc"] = loc(T->getBeginLoc());
        if (const Stmt *C = B->getTerminatorCondition(true)) {
          const Stmt *Key = C;
          if (const auto *CE = dyn_cast<Expr>(C))
            Key = CE->IgnoreParens();
          auto It = TopIdx.find(Key);
          if (It == TopIdx.end())
            It = TopIdx.find(C);
          if (It == TopIdx.end() && B->succ_size() == 2) {
            // `if (a && b)`: the terminator condition is the whole logical
            // expression; the value this block computes is its last operand
            if (const Expr *LC = B->getLastCondition()) {
              It = TopIdx.find(LC->IgnoreParens());
              if (It == TopIdx.end())
                It = TopIdx.find(LC);
            }
          }
          TO["ci"] = (int64_t)(It == TopIdx.end() ? -1 : It->second);
          if (It == TopIdx.end())
            TO["cond"] = expr(C);
        }
        BOJ["term"] = std::move(TO);
      }
      json::Array Succs;
      unsigned SI = 0;
      unsigned NS = B->succ_size();
      for (auto SIt = B->succ_begin(); SIt != B->succ_end(); ++SIt, ++SI) {
        const CFGBlock *SB = SIt->getReachableBlock();
        json::Object SO;
        if (!SB) {
          const CFGBlock *UB = SIt->getPossiblyUnreachableBlock();
          SO["to"] = UB ? (int64_t)UB->getBlockID() : (int64_t)-1;
          SO["unreachable"] = true;
        } else {
          SO["to"] = (int64_t)SB->getBlockID();
        }
        const CFGBlock *LB = SB ? SB : SIt->getPossiblyUnreachableBlock();
        if (IsSwitch) {
          const Stmt *L = LB ? LB->getLabel() : nullptr;
          if (L && isa<CaseStmt>(L)) {
            Expr::EvalResult R;
            if (cast<CaseStmt>(L)->getLHS()->EvaluateAsInt(R, Ctx))
              SO["on"] = "case:" + std::to_string(R.Val.getInt().getSExtValue());
            else
              SO["on"] = "case:?";
          } else {
            SO["on"] = "default";
          }
        } else if (NS == 2 && T) {
          SO["on"] = SI == 0 ? "true" : "false";
        } else {
          SO["on"] = "";
        }
        Succs.push_back(std::move(SO));
      }
      BOJ["succs"] = std::move(Succs);
      Blocks.push_back(std::move(BOJ));
    }
    F["blocks"] = std::move(Blocks);
    F["entry"] = (int64_t)G->getEntry().getBlockID();
    F["exit"] = (int64_t)G->getExit().getBlockID();
    return std::move(F);
  }

  json::Value record(const RecordDecl *RD) {
    json::Object R;
    R["name"] = recordName(RD);
    R["union"] = RD->isUnion();
    R["main"] = SM.isInMainFile(SM.getExpansionLoc(RD->getLocation()));
    {
      PresumedLoc PL = SM.getPresumedLoc(SM.getExpansionLoc(RD->getLocation()));
      if (PL.isValid())
        R["file"] = llvm::sys::path::filename(PL.getFilename()).str();
    }
    if (RD->isInvalidDecl() || !RD->isCompleteDefinition())
      return std::move(R);
    const ASTRecordLayout &L = Ctx.getASTRecordLayout(RD);
    R["size"] = (int64_t)L.getSize().getQuantity();
    json::Array Fields;
    unsigned I = 0;
    for (const FieldDecl *FD : RD->fields()) {
      json::Object FO;
      FO["name"] = FD->getNameAsString();
      FO["t"] = typeIndex(FD->getType());
      FO["ts"] = FD->getType().getAsString(PP);
      FO["off"] = (int64_t)L.getFieldOffset(I);
      if (!FD->getType()->isIncompleteType())
        FO["bits"] = (int64_t)Ctx.getTypeSize(FD->getType());
      if (FD->isBitField())
        FO["bw"] = (int64_t)FD->getBitWidthValue(Ctx);
      Fields.push_back(std::move(FO));
      ++I;
    }
    R["fields"] = std::move(Fields);
    return std::move(R);
  }
};

class Consumer : public ASTConsumer {
public:
  void HandleTranslationUnit(ASTContext &Ctx) override {
    Extractor X(Ctx);
    SourceManager &SM = Ctx.getSourceManager();
    json::Object Root;
    if (const FileEntry *FE = SM.getFileEntryForID(SM.getMainFileID()))
      Root["unit"] = FE->getName().str();
    Root["clang"] = "14";
    json::Array Funcs, Enums, Globals, Decls;
    for (const Decl *D : Ctx.getTranslationUnitDecl()->decls()) {
      SourceLocation L = SM.getExpansionLoc(D->getLocation());
      bool Main = SM.isInMainFile(L);
      if (const auto *FD = dyn_cast<FunctionDecl>(D)) {
        if (Main && FD->doesThisDeclarationHaveABody()) {
          Funcs.push_back(X.function(FD));
        }
      } else if (const auto *ED = dyn_cast<EnumDecl>(D)) {
        // enums from project headers and main file (skip system headers)
        if (SM.isInSystemHeader(L) || !ED->isCompleteDefinition())
          continue;
        json::Object EO;
        EO["name"] = ED->getIdentifier() ? ED->getName().str()
                     : (ED->getTypedefNameForAnonDecl()
                            ? ED->getTypedefNameForAnonDecl()->getName().str()
                            : std::string("anon"));
        json::Array Items;
        for (const EnumConstantDecl *EC : ED->enumerators()) {
          json::Array It;
          It.push_back(EC->getNameAsString());
          It.push_back((int64_t)EC->getInitVal().getSExtValue());
          Items.push_back(std::move(It));
        }
        EO["items"] = std::move(Items);
        Enums.push_back(std::move(EO));
      } else if (const auto *VD = dyn_cast<VarDecl>(D)) {
        if (!Main)
          continue;
        json::Object VO;
        VO["name"] = VD->getNameAsString();
        VO["t"] = X.typeIndex(VD->getType());
        VO["ts"] = VD->getType().getAsString(X.PP);
        VO["static"] = VD->getStorageClass() == SC_Static;
        VO["loc"] = X.loc(VD->getLocation());
        if (VD->hasInit()) {
          X.ElemPos.clear();
          VO["init"] = X.expr(VD->getInit());
        }
        Globals.push_back(std::move(VO));
      } else if (const auto *RD = dyn_cast<RecordDecl>(D)) {
        if (Main && RD->isCompleteDefinition())
          X.useRecord(RD);
      }
    }
    json::Array Records;
    // records may be discovered while emitting record field types
    for (size_t I = 0; I < X.RecordOrder.size(); ++I)
      Records.push_back(X.record(X.RecordOrder[I]));
    Root["records"] = std::move(Records);
    Root["enums"] = std::move(Enums);
    Root["globals"] = std::move(Globals);
    Root["functions"] = std::move(Funcs);
    Root["types"] = std::move(X.Types);
    std::error_code EC;
    if (OutFile.empty()) {
      llvm::outs() << json::Value(std::move(Root)) << "\n";
    } else {
      llvm::raw_fd_ostream OS(OutFile, EC);
      if (EC) {
        llvm::errs() << "pfx: cannot write " << OutFile << ": " << EC.message() << "\n";
        exit(3);
      }
      OS << json::Value(std::move(Root)) << "\n";
    }
  }
};

class Action : public ASTFrontendAction {
public:
  std::unique_ptr<ASTConsumer> CreateASTConsumer(CompilerInstance &,
                                                 StringRef) override {
    return std::make_unique<Consumer>();
  }
};

} // namespace

int main(int argc, const char **argv) {
  auto Parser = tooling::CommonOptionsParser::create(argc, argv, PfxCat);
  if (!Parser) {
    llvm::errs() << llvm::toString(Parser.takeError()) << "\n";
    return 2;
  }
  tooling::ClangTool Tool(Parser->getCompilations(), Parser->getSourcePathList());
  return Tool.run(tooling::newFrontendActionFactory<Action>().get());
}
