"""Resource typestate shared by C18 (allocation failure) and C20 (resource neutrality).

Entities are resources acquired inside one function call and held through
access paths rooted at *local* variables: heap blocks from the allocator and
from library functions summarised as "returns a fresh object", descriptors,
directory/file/library handles.  The flow is path-sensitive (guard facts); an
entity ends by being released (directly or through a summarised wrapper),
returned, stored into caller-visible storage, or handed to a callee that takes
ownership (unconditionally, or on its success for constructors that store the
argument in the object they return).  What remains at a return is a leak;
touching an acquisition result before its NULL test is an unchecked use.
"""
from . import guards
from .flow import Flow
from .ir import calls, strip_casts, walk, ap, root_var, line, show, cv
from .units import AnalysisBroken

BASE_ACQUIRE = {
    "p_malloc": ("mem", 0), "p_malloc0": ("mem", 0), "p_realloc": ("mem", 0), "p_strdup": ("mem", 0), "p_strchomp": ("mem", 0),
    "socket": ("fd", -1), "accept": ("fd", -1), "open": ("fd", -1), "shm_open": ("fd", -1), "dup": ("fd", -1),
    "opendir": ("dir", 0), "fopen": ("file", 0), "dlopen": ("lib", 0),
}
BASE_RELEASE = {
    "p_free": 0, "p_sys_close": 0, "close": 0, "closedir": 0, "fclose": 0, "dlclose": 0, "freeaddrinfo": 0,
}
# callees that keep the pointer they are given (argument indexes)
TAKERS = {"p_list_append": (1,), "p_list_prepend": (1,), "p_hash_table_insert": (1, 2), "p_tree_insert": (1, 2),
          "p_uthread_set_local": (1,), "p_uthread_replace_local": (1,), "pthread_setspecific": (1,),
          "p_atomic_pointer_compare_and_exchange": (2,), "p_atomic_pointer_set": (1,)}
DEREF_FUNCS = {"strlen": (0,), "strcpy": (0, 1), "strcat": (0, 1), "strcmp": (0, 1), "strncmp": (0, 1), "memcpy": (0, 1), "memset": (0,),
               "memmove": (0, 1), "strchr": (0,), "strrchr": (0,), "strstr": (0, 1), "sprintf": (0,), "snprintf": (0,), "atoi": (0,),
               "fputs": (0,), "fgets": (0,), "strtol": (0,), "strtod": (0,), "__builtin_strcpy": (0, 1), "__builtin_strcat": (0, 1),
               "__builtin_memcpy": (0, 1), "__builtin_memset": (0,), "__builtin___strcpy_chk": (0, 1), "__builtin___strcat_chk": (0, 1),
               "__builtin___memcpy_chk": (0, 1), "__builtin___memset_chk": (0,), "__builtin_strlen": (0,), "stat": (0,), "opendir": (0,),
               "unlink": (0,), "open": (0,), "fopen": (0,), "sem_open": (0,), "shm_open": (0,), "sem_unlink": (0,), "shm_unlink": (0,),
               "dlopen": (0,), "pthread_setname_np": (1,)}


def _holders(f, fresh):
    h = set()
    for b, i, n in f.nodes():
        if n["k"] == "asg" or (n["k"] == "decl" and n.get("init") is not None):
            r = strip_casts(n["r"] if n["k"] == "asg" else n["init"])
            if r is not None and r["k"] == "call" and r.get("callee") in fresh:
                p = ap(n["l"]) if n["k"] == "asg" else n["name"]
                if p:
                    h.add(p)
    return h


def returns_fresh(prog):
    """Library functions whose result is a freshly acquired heap object owned by the caller (may be NULL)."""
    fresh = set(k for k, v in BASE_ACQUIRE.items() if v[0] == "mem")
    changed = True
    while changed:
        changed = False
        for u in prog.units.values():
            for f in u.functions.values():
                if f.name in fresh:
                    continue
                rt = u.types[f.d["ret"]]
                if rt.get("k") != "ptr":
                    continue
                f = u.fn(f.name)         # with static helpers inlined: a wrapper around a publishing call publishes too
                holders = _holders(f, fresh)
                # a holder that is also published elsewhere is not owned by the caller
                published = set()
                for b, i, c in f.calls():
                    if c.get("callee") in TAKERS:
                        for ai in TAKERS[c["callee"]]:
                            if ai < len(c["args"]):
                                p = ap(c["args"][ai])
                                if p:
                                    published.add(p)
                ok = False
                for (b, i, r) in f.returns():
                    e = strip_casts(r.get("e"))
                    if e is None:
                        continue
                    if e["k"] == "call" and e.get("callee") in fresh:
                        ok = True
                    p = ap(e)
                    if p is not None and p in holders and p not in published:
                        ok = True
                    if e["k"] == "cond":
                        for arm in (strip_casts(e["a"]), strip_casts(e["b"])):
                            if arm is not None and arm["k"] == "call" and arm.get("callee") in fresh:
                                ok = True
                if ok:
                    fresh.add(f.name)
                    changed = True
    return fresh


def wrapper_releasers(prog, release):
    """Functions that hand their i-th parameter to a releaser on some path (transitively): name -> arg index."""
    rel = dict(release)
    changed = True
    while changed:
        changed = False
        for u in prog.units.values():
            for f in u.functions.values():
                if f.name in rel or not f.params:
                    continue
                pn = f.param_names()
                for b, i, c in f.calls():
                    cn = c.get("callee")
                    if cn in rel and rel[cn] < len(c["args"]):
                        a = strip_casts(c["args"][rel[cn]])
                        if a is not None and a["k"] == "ref" and a["name"] in pn:
                            rel[f.name] = pn.index(a["name"])
                            changed = True
                            break
    return rel


def success_takers(prog, fresh):
    """Constructors that store a parameter into the fresh object they return: name -> set(arg index).
    The argument is owned by the result when the call succeeds (non-NULL) and stays with the caller otherwise."""
    out = {}
    for u in prog.units.values():
        for f in u.functions.values():
            if f.name not in fresh or not f.params:
                continue
            pn = f.param_names()
            holders = _holders(f, fresh)
            for b, i, n in f.nodes():
                if n["k"] == "asg" and n["op"] == "=":
                    l = strip_casts(n["l"])
                    r = strip_casts(n["r"])
                    if l is not None and l["k"] == "member" and root_var(l) in holders and r is not None and r["k"] == "ref" and r["name"] in pn:
                        t = u.types[f.params[pn.index(r["name"])]["t"]]
                        if t.get("k") in ("ptr", "int"):
                            out.setdefault(f.name, set()).add(pn.index(r["name"]))
    return out


class Tables:
    def __init__(self, prog):
        self.fresh = returns_fresh(prog)
        self.acquire = dict(BASE_ACQUIRE)
        for f in self.fresh:
            self.acquire.setdefault(f, ("mem", 0))
        rel = dict(BASE_RELEASE)
        for u in prog.units.values():
            for f in u.functions.values():
                if (f.name.endswith("_free") or f.name.endswith("_free_internal")) and f.params and f.name != "p_free":
                    rel[f.name] = 0
        self.release = wrapper_releasers(prog, rel)
        self.success_takers = success_takers(prog, self.fresh)
        # int-returning constructors are not in `fresh`; fd-taking ones: p_socket_new_from_fd
        self.entry_facts = constant_arguments(prog)


def constant_arguments(prog):
    """Internal (non-API) functions: parameters that receive the same constant at every call site of the analysed
    configuration -> entry facts (one level of interprocedural constant propagation)."""
    from .units import INFORMATIONAL
    sites = {}
    for un, u in prog.units.items():
        if un in INFORMATIONAL:
            continue
        for f in u.functions.values():
            for b, i, c in f.calls():
                cn = c.get("callee")
                if cn:
                    sites.setdefault(cn, []).append([cv(a) for a in c["args"]])
    out = {}
    for u in prog.units.values():
        for f in u.functions.values():
            if f.api or f.name not in sites:
                continue
            pn = f.param_names()
            facts = []
            for idx, name in enumerate(pn):
                vals = set(s[idx] if idx < len(s) else None for s in sites[f.name])
                if len(vals) == 1 and None not in vals:
                    facts.append((name, "==", next(iter(vals))))
            if facts:
                out[f.name] = facts
    return out


def is_local_root(fn, path_expr):
    e = strip_casts(path_expr)
    while e is not None:
        k = e["k"]
        if k == "ref":
            return e.get("decl") in ("local",)
        if k == "member":
            e = strip_casts(e["base"])
        elif k == "un" and e["op"] in ("*", "&"):
            e = strip_casts(e["e"])
        elif k == "idx":
            e = strip_casts(e["base"])
        else:
            return False
    return False


def analyse(fn, T, want_unchecked=True):
    """-> list of problems: (kind, path, acquired_line, at_line, witness, detail)
    entity = (names tuple, state, kind, line, failure value, given_to)"""
    problems = []
    H = {"f": None}

    def wit():
        return H["f"].witness_lines(*H["f"].cur)

    def ent_get(ents, p):
        if p is None:
            return None
        for e in ents:
            if p in e[0]:
                return e
        return None

    def children(ents, p):
        return [x for x in ents if any(nm.startswith(p + "->") or nm.startswith(p + ".") for nm in x[0])]

    def on_stmt(st, b, i, stmt):
        facts, ents = st
        ents = list(ents)
        # ---- uses of unchecked results (C18.1) ----
        if want_unchecked:
            pend = {}
            for e in ents:
                if e[1] == "pending" and e[2] == "mem":
                    for nm in e[0]:
                        pend[nm] = e
            for n in walk(stmt):
                base = None
                if n["k"] == "member" and n["arrow"]:
                    base = n["base"]
                elif n["k"] == "un" and n["op"] == "*":
                    base = n["e"]
                elif n["k"] == "idx":
                    base = n["base"]
                if base is not None and pend:
                    p = ap(base)
                    if p in pend:
                        problems.append(("unchecked", p, pend[p][3], line(n), wit(), "dereferenced"))
                if n["k"] == "call" and n.get("callee") in DEREF_FUNCS:
                    for ai in DEREF_FUNCS[n["callee"]]:
                        if ai < len(n["args"]):
                            p = ap(n["args"][ai])
                            if p in pend:
                                problems.append(("unchecked", p, pend[p][3], line(n), wit(), "passed to %s" % n["callee"]))
                            a = strip_casts(n["args"][ai])
                            if a is not None and a["k"] == "call" and a.get("callee") in T.acquire and T.acquire[a["callee"]][0] == "mem":
                                problems.append(("unchecked", show(a), line(a), line(n), wit(),
                                                 "passed to %s without a NULL test (and never released)" % n["callee"]))
        # ---- releases, takers ----
        for c in calls(stmt):
            cn = c.get("callee")
            if cn in T.release:
                ai = T.release[cn]
                if ai < len(c["args"]):
                    p = ap(c["args"][ai])
                    if p is None:
                        continue
                    e = ent_get(ents, p)
                    ch = children(ents, p)
                    if e is not None:
                        ents.remove(e)
                    if ch:
                        if cn == "p_free":
                            for x in ch:
                                problems.append(("leak", x[0][0], x[3], line(c), wit(),
                                                 "its container %s is released with p_free while it is still held" % p))
                        for x in ch:
                            if x in ents:
                                ents.remove(x)
            elif cn in TAKERS:
                for ai in TAKERS[cn]:
                    if ai < len(c["args"]):
                        p = ap(c["args"][ai])
                        e = ent_get(ents, p)
                        if e is not None:
                            ents.remove(e)
                            for x in children(ents, p):
                                ents.remove(x)
        # ---- assignments ----
        for n in walk(stmt):
            tgt, rhs = None, None
            if n["k"] == "asg" and n["op"] == "=":
                tgt, rhs = n["l"], n["r"]
            elif n["k"] == "decl" and n.get("init") is not None:
                tgt, rhs = {"k": "ref", "name": n["name"], "decl": "local"}, n["init"]
            elif n["k"] == "asg" or (n["k"] == "un" and ("++" in n["op"] or "--" in n["op"])):
                # pointer arithmetic on an alias: that name no longer denotes the block
                p = ap(n["l"] if n["k"] == "asg" else n["e"])
                e = ent_get(ents, p)
                if e is not None:
                    ents.remove(e)
                    rest = tuple(x for x in e[0] if x != p)
                    if rest:
                        ents.append((rest,) + e[1:])
                    elif e[1] == "live":
                        problems.append(("leak", p, e[3], line(n), wit(), "the only pointer to it is modified"))
                continue
            if tgt is None:
                continue
            p = ap(tgt)
            r = strip_casts(rhs)
            if p is None:
                continue
            e = ent_get(ents, p)
            if e is not None:
                ents.remove(e)
                rest = tuple(x for x in e[0] if x != p)
                if rest:
                    ents.append((rest,) + e[1:])
                elif e[1] == "live":
                    problems.append(("leak", p, e[3], line(n), wit(), "it is overwritten"))
            for x in children(ents, p):
                ents.remove(x)
            if r is None:
                continue
            if r["k"] == "call" and r.get("callee") in T.acquire:
                kind, fail = T.acquire[r["callee"]]
                # resources handed to a constructor that keeps them on success
                if r["callee"] in T.success_takers:
                    for ai in T.success_takers[r["callee"]]:
                        if ai < len(r["args"]):
                            q = ap(r["args"][ai])
                            e2 = ent_get(ents, q)
                            if e2 is not None:
                                ents.remove(e2)
                                ents.append(e2[:5] + (p,))
                if is_local_root(fn, tgt):
                    rv = root_var(tgt)
                    if strip_casts(tgt)["k"] == "ref" or ent_get(ents, rv) is not None:
                        ents.append(((p,), "pending", kind, line(n), fail, None))
                continue
            if r["k"] == "call" and r.get("callee") in T.success_takers:
                for ai in T.success_takers[r["callee"]]:
                    if ai < len(r["args"]):
                        q = ap(r["args"][ai])
                        e2 = ent_get(ents, q)
                        if e2 is not None:
                            ents.remove(e2)
                            ents.append(e2[:5] + (p,))
                continue
            rp = ap(r) if r["k"] in ("ref", "member") else None
            if rp is None and r["k"] == "un" and r["op"] == "&":
                # `&obj->first_member` (offset 0) is obj itself: storing it hands the object over
                m_ = strip_casts(r["e"])
                if m_ is not None and m_["k"] == "member" and m_.get("rec") in fn.unit.records:
                    f0_ = fn.unit.records[m_["rec"]].field(m_["field"])
                    if f0_ is not None and f0_.get("off") == 0:
                        rp = ap(m_["base"])
            if rp is not None:
                e2 = ent_get(ents, rp)
                if e2 is not None:
                    ents.remove(e2)
                    if is_local_root(fn, tgt) and (strip_casts(tgt)["k"] == "ref" or ent_get(ents, root_var(tgt)) is not None):
                        ents.append((tuple(sorted(set(e2[0]) | {p})),) + e2[1:])
                    # else stored into caller-visible storage: escaped
        # ---- returns ----
        if stmt["k"] == "ret":
            e = strip_casts(stmt.get("e")) if stmt.get("e") is not None else None
            rp = ap(e) if e is not None and e["k"] in ("ref", "member") else None
            rv = cv(stmt.get("e")) if stmt.get("e") is not None else None
            failure = rv in (0, -1) and stmt.get("e") is not None
            for x in list(ents):
                if rp is not None and any(nm == rp or nm.startswith(rp + "->") or nm.startswith(rp + ".") for nm in x[0]):
                    continue
                if x[5] is not None:
                    # handed to a constructor whose result was not refuted on this path: owned by that object
                    continue
                if x[1] in ("live", "pending"):
                    problems.append(("leak", x[0][0], x[3], line(stmt), wit(),
                                     ("failure exit" if failure else "return") + ("" if x[1] == "live" else " (result never tested)")))
            ents = []
        facts2 = guards.transfer(facts, stmt)
        return [(facts2, tuple(sorted(ents, key=repr)))]

    def on_edge(st, b, to, on):
        facts, ents = st
        f2 = guards.edge_assume(facts, b, on)
        if f2 is None:
            return None
        new = []
        for e in ents:
            names, state, kind, ln, fail, given = e
            if given is not None:
                v = guards.lookup(f2, given)
                if v == 0:
                    given = None          # the constructor failed: the resource is still ours
                elif any(fk == given and fop == "!=" and fv == 0 for (fk, fop, fv) in f2):
                    continue              # owned by the new object
            if state == "pending":
                drop = False
                for p in names:
                    v = guards.lookup(f2, p)
                    if v is not None and v == fail:
                        drop = True
                    if kind == "fd":
                        if any(fk == p and fop == "<" and fv <= 0 for (fk, fop, fv) in f2):
                            drop = True
                        if any(fk == p and ((fop == "!=" and fv == -1) or (fop == ">=" and fv >= 0) or (fop == ">" and fv >= -1)) for (fk, fop, fv) in f2):
                            state = "live"
                    elif any(fk == p and fop == "!=" and fv == fail for (fk, fop, fv) in f2):
                        state = "live"
                if drop:
                    continue
            new.append((names, state, kind, ln, fail, given))
        return (f2, tuple(sorted(new, key=repr)))

    init = guards.EMPTY
    for (k, op, v) in T.entry_facts.get(fn.name, ()):
        init = guards.add_fact(init, k, op, v) or init
    flow = Flow(fn, [(init, ())], on_stmt, on_edge, max_states=40000)
    H["f"] = flow
    try:
        if len(fn.blocks) > 50:
            raise AnalysisBroken("large function: restricted facts from the start")
        flow.run()
    except AnalysisBroken:
        problems.clear()
        _restricted(fn, T, on_stmt, on_edge, H, init)
    seen = set()
    out = []
    for pr in problems:
        k = (pr[0], pr[1], pr[3])
        if k in seen:
            continue
        seen.add(k)
        out.append(pr)
    return out


def _restricted(fn, T, on_stmt, on_edge, H, init):
    """Fallback for branch-heavy functions: keep only the facts that speak about a variable currently
    holding (or having just been assigned) a tracked resource."""
    def keep(f, ents):
        names = set()
        for e in ents:
            for nm in e[0]:
                names.add(nm.split("->")[0].split(".")[0])
            if e[5]:
                names.add(str(e[5]).split("->")[0])
        if not names:
            return guards.EMPTY
        return frozenset(x for x in f if any(guards._mentions(x[0], nm) for nm in names))

    def s2(st, b, i, stmt):
        return [(keep(f, e), e) for (f, e) in on_stmt(st, b, i, stmt)]

    def e2(st, b, to, on):
        r = on_edge(st, b, to, on)
        return None if r is None else (keep(r[0], r[1]), r[1])
    fl = Flow(fn, [(guards.EMPTY, ())], s2, e2, max_states=120000)
    H["f"] = fl
    fl.run()
    return fl
