"""Domain for plint.shape: singly linked lists with summarised segments and symbolic sequence contents.

A list is a chain of concrete nodes and *summary* nodes; a summary stands for a possibly empty run of
nodes and carries a sequence variable (its content, forward "s", reversed "r", or orientation-free "1"
when it abstracts exactly one node).  The pre-state content of the list is kept as a sequence of atoms
over the same variables, so that the result of a function can be compared with the sequence operation it
is supposed to implement (append, prepend, remove first occurrence, reverse, ...), for lists of every
length.  Reading a link into a summary materialises it (empty, or one node followed by the rest); at a
loop head every node no variable points to is folded back into a summary and adjacent summaries are
merged (rewriting the recorded sequences consistently), which makes the set of abstract states finite:
the loop is analysed to a fixpoint, not unrolled."""
from .shape import NULL, Infeasible, Violation
from .units import AnalysisBroken


def flip(atom):
    k, v = atom
    return ({"s": "r", "r": "s"}.get(k, k), v)


class ListDomain:
    embedded = ()
    wants_value = True

    def __init__(self, spec, seen, nparams):
        self.spec = spec            # name of the sequence operation to check at return
        self.seen = seen            # shared across paths: canonical loop-head states already explored
        self.nparams = nparams
        self.nodes = {}
        self.sums = {}
        self.nid = 0
        self.vid = 0
        self.pre = []               # pre-state content of the list argument (atoms)
        self.visits = []            # data handed to the callback, in call order (atoms)
        self.freed = []             # nodes released, in order (atoms)
        self.freed_ids = set()
        self.item = None            # node allocated by this call
        self.alloc_failed = False
        self.last_ints = {}
        self.list0 = None
        self.nod = {}               # sequence variable -> every node in it is known to hold other data than the searched one
        self.fn_null = None         # None: the callback was not compared with NULL on this path

    # -- construction -----------------------------------------------------------------
    def fresh_var(self):
        self.vid += 1
        return "v%d" % self.vid

    def new_node(self, nxt, is_d=None, new=False):
        self.nid += 1
        i = self.nid
        self.nodes[i] = {"next": nxt, "data": ("data", i), "is_d": is_d, "new": new}
        return i

    def new_sum(self, atom, nxt):
        self.nid += 1
        i = self.nid
        self.sums[i] = {"next": nxt, "atom": atom}
        return i

    def init(self, I):
        k = I.ch.choose(["empty", "non-empty"], "list")
        if k == 0:
            self.list0 = NULL
        else:
            v = self.fresh_var()
            s = self.new_sum(("s", v), NULL)
            a = self.new_node(("sum", s))
            self.pre = [("n", a), ("s", v)]
            self.list0 = ("node", a)
        args = [self.list0]
        extra = [("dparam",), ("uparam",)]
        if self.spec == "foreach":
            extra = [("fnparam",), ("uparam",)]
        return args + extra[:self.nparams - 1]

    # -- interpreter interface ------------------------------------------------------------
    def read_root(self, I):
        raise AnalysisBroken("shape: no root pointer in list code")

    write_root = read_root

    def check_live(self, i, ln, what):
        if i in self.freed_ids:
            raise Violation("line %d: %s of a list item that was already released" % (ln, what), ln)

    def read_field(self, I, i, f, ln):
        self.check_live(i, ln, "read")
        nd = self.nodes[i]
        if f not in nd:
            raise AnalysisBroken("shape: line %d: field %s" % (ln, f))
        v = nd[f]
        if f == "next" and v[0] == "sum":
            v = self.materialise(I, i)
        return v

    def write_field(self, I, i, f, v, ln):
        self.check_live(i, ln, "write")
        if f not in self.nodes[i]:
            raise AnalysisBroken("shape: line %d: field %s" % (ln, f))
        if f == "next":
            if v[0] == "int" and v[1] == 0:
                v = NULL
            if v[0] not in ("null", "node"):
                raise AnalysisBroken("shape: line %d: %r stored into next" % (ln, v))
        self.nodes[i][f] = v

    def materialise(self, I, i):
        sid = self.nodes[i]["next"][1]
        S = self.sums[sid]
        kind, var = S["atom"]
        k = I.ch.choose(["ends", "one more"], "after n%d" % i)
        if k == 0:
            self.rewrite_var(var, [])
            self.nodes[i]["next"] = S["next"]
            del self.sums[sid]
            return self.nodes[i]["next"]
        m = self.new_node(("sum", sid), is_d=(False if self.nod.get(var) else None))
        v2 = self.fresh_var()
        self.nod[v2] = self.nod.get(var, False)
        # forward content  var = [m] . v2 ;  reversed content rev(var) = [m] . rev(v2)  i.e. var = v2 . [m]
        if kind == "r":
            self.rewrite_var(var, [("s", v2), ("n", m)])
        else:
            self.rewrite_var(var, [("n", m), ("s", v2)])
        S["atom"] = ("r" if kind == "r" else "s", v2)
        self.nodes[i]["next"] = ("node", m)
        return ("node", m)

    def seqs(self):
        return [self.pre, self.visits, self.freed]

    def rewrite_var(self, var, repl):
        """substitute a sequence variable (given in forward orientation) in every recorded sequence"""
        for sq in self.seqs():
            out = []
            for a in sq:
                if a[0] in ("s", "1") and a[1] == var:
                    out.extend(repl)
                elif a[0] == "r" and a[1] == var:
                    out.extend(flip(x) for x in reversed(repl))
                else:
                    out.append(a)
            sq[:] = out

    def equal(self, I, a, b, ln):
        if a == b:
            return True
        pair = (a, b) if a[0] == "data" else (b, a)
        if pair[0][0] == "data" and pair[1] == ("dparam",):
            nd = self.nodes.get(pair[0][1])
            if nd is None:
                raise AnalysisBroken("shape: data of a folded node compared")
            if nd["is_d"] is None:
                nd["is_d"] = I.ch.choose(["other data", "the searched data"], "n%d.data" % pair[0][1]) == 1
            return nd["is_d"]
        if a[0] == "fnparam" or b[0] == "fnparam" or a[0] == "dparam" or b[0] == "dparam":
            other = b if a[0] in ("fnparam", "dparam") else a
            if other == NULL or other == ("int", 0):
                which = a[0] if a[0] in ("fnparam", "dparam") else b[0]
                isnull = I.ch.choose(["non-NULL", "NULL"], which) == 1
                if which == "fnparam":
                    self.fn_null = isnull
                return isnull
        raise AnalysisBroken("shape: line %d: comparison of %r and %r" % (ln, a, b))

    def call(self, I, name, fp, args, ln):
        if name in ("p_malloc0", "p_malloc"):
            if self.item is not None or self.alloc_failed:
                raise AnalysisBroken("shape: second allocation")
            k = I.ch.choose(["fails", "succeeds"], "allocation")
            if k == 0:
                self.alloc_failed = True
                return NULL
            if name == "p_malloc":
                raise AnalysisBroken("shape: non-zeroing allocation of a list item")
            self.item = self.new_node(NULL, new=True)
            self.nodes[self.item]["data"] = ("int", 0)
            return ("node", self.item)
        if name == "p_free":
            v = args[0]
            if v == NULL:
                return ("void",)
            if v[0] != "node":
                raise AnalysisBroken("shape: p_free (%r)" % (v,))
            if v[1] in self.freed_ids:
                raise Violation("line %d: a list item is released twice" % ln, ln)
            self.freed_ids.add(v[1])
            self.freed.append(("n", v[1]))
            return ("void",)
        if name in ("printf",):
            return ("int", 0)
        if name is None and fp == ("fnparam",):
            if self.fn_null is None:
                self.fn_null = I.ch.choose(["non-NULL", "NULL"], "callback") == 1
            if self.fn_null:
                raise Violation("line %d: the callback is called on a path where it may be NULL" % ln, ln)
            d = args[0]
            if d[0] != "data":
                raise Violation("line %d: the callback receives %r instead of an item's data" % (ln, d), ln)
            if len(args) < 2 or args[1] != ("uparam",):
                raise Violation("line %d: the callback does not receive the user data" % ln, ln)
            self.visits.append(("n", d[1]))
            return ("void",)
        return None

    # -- folding --------------------------------------------------------------------------
    def extra_roots(self):
        return set()

    def foldable(self, i):
        return self.nodes[i]["data"] == ("data", i)

    def preds(self, target):
        out = []
        for i, nd in self.nodes.items():
            if nd["next"] == target:
                out.append(("node", i))
        for i, sm in self.sums.items():
            if sm["next"] == target:
                out.append(("sum", i))
        return out

    def try_merge(self, v1, v2):
        """merge two sequence variables that are neighbours (v1 before v2, forward orientation) into a fresh one, in every
        recorded sequence at once; refuses (False) when some occurrence is not part of such a neighbouring pair"""
        plans = []
        for sq in self.seqs():
            idx = 0
            plan = []
            while idx < len(sq):
                a = sq[idx]
                if a[0] in ("s", "r", "1") and a[1] in (v1, v2):
                    b = sq[idx + 1] if idx + 1 < len(sq) else None
                    if b is not None and a[1] == v1 and b[1] == v2 and a[0] in ("s", "1") and b[0] in ("s", "1"):
                        plan.append((idx, "s"))
                        idx += 2
                        continue
                    if b is not None and a[1] == v2 and b[1] == v1 and a[0] in ("r", "1") and b[0] in ("r", "1"):
                        plan.append((idx, "r"))
                        idx += 2
                        continue
                    return False
                idx += 1
            plans.append(plan)
        g = self.fresh_var()
        self.nod[g] = self.nod.get(v1, False) and self.nod.get(v2, False)
        for sq, plan in zip(self.seqs(), plans):
            for idx, kind in reversed(plan):
                sq[idx:idx + 2] = [(kind, g)]
        return g

    def at_loop_head(self, I, fr, head):
        pointed = set(v[1] for f_ in (getattr(I, "frames", None) or [fr]) for v in f_.env.values() if isinstance(v, tuple) and v and v[0] == "node")
        pointed |= set(v[1][1] for f_ in (getattr(I, "frames", None) or [fr]) for v in f_.env.values()
                       if isinstance(v, tuple) and v and v[0] == "ptr" and isinstance(v[1], tuple) and v[1][0] == "fld")
        pointed |= self.extra_roots()
        # widen integer counters that changed since the last visit of this head
        last = self.last_ints.get(head, {})
        for k_, v in list(fr.env.items()):
            if isinstance(v, tuple) and v and v[0] == "int" and k_ in last and last[k_] != v and v[1] not in (0, 1):
                fr.env[k_] = ("anyint",)      # a counter; 0/1 flags keep their value
        self.last_ints[head] = dict((k_, v) for k_, v in fr.env.items() if isinstance(v, tuple) and v and v[0] in ("int", "anyint"))
        # 1. every node no variable points to becomes a one-node summary (or plain garbage when it was released)
        for i in sorted(self.nodes):
            if i in pointed or i == self.item:
                continue
            nd = self.nodes[i]
            if not self.foldable(i):
                continue
            tv = self.fresh_var()
            self.nod[tv] = nd["is_d"] is False
            for sq in self.seqs():
                sq[:] = [("1", tv) if a == ("n", i) else a for a in sq]
            if i in self.freed_ids:
                for kind, j in self.preds(("node", i)):
                    if kind == "node" and j in self.freed_ids:
                        self.nodes[j]["next"] = ("gone",)      # a released item's stale link: never followed again
                    else:
                        raise Violation("a released list item is still linked from the list")
                self.freed_ids.discard(i)
                del self.nodes[i]
                continue
            self.nod[tv] = nd["is_d"] is False
            sid = self.new_sum(("1", tv), nd["next"])
            for kind, j in self.preds(("node", i)):
                (self.nodes if kind == "node" else self.sums)[j]["next"] = ("sum", sid)
            del self.nodes[i]
        # 2. merge neighbouring runs (neighbours in the pre-state sequence that are also neighbours in the heap, or both garbage)
        changed = True
        while changed:
            changed = False
            for idx in range(len(self.pre) - 1):
                a, b = self.pre[idx], self.pre[idx + 1]
                if a[0] == "n" or b[0] == "n":
                    continue
                sa = [i for i, sm in self.sums.items() if sm["atom"][1] == a[1]]
                sb = [i for i, sm in self.sums.items() if sm["atom"][1] == b[1]]
                if bool(sa) != bool(sb):
                    continue
                if not sa:
                    if self.try_merge(a[1], b[1]):
                        changed = True
                        break
                    continue
                A, B = self.sums[sa[0]], self.sums[sb[0]]
                if A["next"] == ("sum", sb[0]) and len(self.preds(("sum", sb[0]))) == 1 and A["atom"][0] != "r" and B["atom"][0] != "r":
                    g = self.try_merge(a[1], b[1])
                    if g:
                        A["atom"], A["next"] = ("s", g), B["next"]
                        del self.sums[sb[0]]
                        changed = True
                        break
                elif B["next"] == ("sum", sa[0]) and len(self.preds(("sum", sa[0]))) == 1 and A["atom"][0] != "s" and B["atom"][0] != "s":
                    g = self.try_merge(a[1], b[1])
                    if g:
                        B["atom"], B["next"] = ("r", g), A["next"]
                        del self.sums[sa[0]]
                        changed = True
                        break
        self.visits_at = getattr(self, "visits_at", {})
        self.visits_at[head] = self.visits_at.get(head, 0) + 1
        if self.visits_at[head] > 30:
            raise AnalysisBroken("shape: no fixpoint at the loop head of %s after 30 iterations on one path (%d nodes, %d summaries)" % (fr.fn.name, len(self.nodes), len(self.sums)))
        key = self.canon(fr, head, I)
        pref = I.ch.prefix()
        if key in self.seen:
            return self.seen[key] == pref
        self.seen[key] = pref
        return True

    def canon(self, fr, head, I=None):
        names = {}

        def nm(kind, x):
            k = (kind, x)
            if k not in names:
                names[k] = "%s%d" % (kind, len(names))
            return names[k]

        def val(v):
            if not isinstance(v, tuple) or not v:
                return v
            if v[0] == "node":
                return ("node", nm("n", v[1]))
            if v[0] == "sum":
                return ("sum", nm("n", v[1]))
            if v[0] in ("data", "key", "value") and len(v) == 2:
                return (v[0], nm("n", v[1]))
            if v[0] == "ptr" and isinstance(v[1], tuple):
                if v[1][0] == "fld":
                    return ("ptr", ("fld", nm("n", v[1][1]), v[1][2]))
                if v[1][0] == "frame":
                    return ("ptr", ("frame", v[1][2]))
            return v

        def atom(a):
            if a[0] == "n":
                return ("n", nm("n", a[1]))
            return (a[0], nm("v", a[1]))
        pre = tuple(atom(a) for a in self.pre)
        env = tuple((f_.fn.name, tuple(sorted((k_, val(v)) for k_, v in f_.env.items()))) for f_ in ((getattr(I, "frames", None) if I is not None else None) or [fr]))
        heap = []
        for i in sorted(self.nodes, key=lambda j: names.get(("n", j), "zz%d" % j)):
            nd = self.nodes[i]
            heap.append((nm("n", i), tuple(sorted((k_, val(v_)) for k_, v_ in nd.items() if isinstance(v_, tuple))), nd["is_d"], i in self.freed_ids))
        for i in sorted(self.sums, key=lambda j: names.get(("n", j), "zz%d" % j)):
            sm = self.sums[i]
            heap.append((nm("n", i), val(sm["next"]), atom(sm["atom"]), self.nod.get(sm["atom"][1], False)))
        return (head, pre, env, tuple(sorted(heap, key=repr)), tuple(atom(a) for a in self.visits), tuple(atom(a) for a in self.freed),
                self.alloc_failed, self.item is not None)

    # -- result ---------------------------------------------------------------------------------
    def content(self, v, ln=0):
        """the sequence reachable from value v through next links, as atoms"""
        out = []
        seen = set()
        while v != NULL:
            if v in seen:
                raise Violation("the next links form a cycle")
            seen.add(v)
            if v[0] == "node":
                if v[1] in self.freed_ids:
                    raise Violation("a released item is still reachable from the returned list")
                out.append(("n", v[1]))
                v = self.nodes[v[1]]["next"]
            elif v[0] == "sum":
                out.append(self.sums[v[1]]["atom"])
                v = self.sums[v[1]]["next"]
            else:
                raise Violation("a next link holds %r" % (v,))
        return out

    @staticmethod
    def same(a, b):
        def norm(sq):
            return [("1", x[1]) if x[0] == "1" else x for x in sq]
        if len(a) != len(b):
            return False
        for x, y in zip(a, b):
            if x == y:
                continue
            if x[1] == y[1] and "1" in (x[0], y[0]):
                continue
            return False
        return True

    def show(self, sq):
        return "<" + " ".join(("n%d" % a[1]) if a[0] == "n" else ("%s%s" % ("~" if a[0] == "r" else "", a[1])) for a in sq) + ">"

    def at_backedge(self, I):
        raise AnalysisBroken("shape: list loops are analysed to a fixpoint")

    def at_return(self, I, value):
        spec = self.spec
        if value == ("int", 0):
            value = NULL
        pre = list(self.pre)
        if spec in ("append", "prepend"):
            if self.alloc_failed:
                want_head, want = self.list0, pre
            elif self.item is None:
                raise Violation("%s returns without allocating an item" % spec)
            else:
                it = self.nodes[self.item]
                if it["data"] != ("dparam",):
                    raise Violation("the new item's data is %r, not the data argument" % (it["data"],))
                want = pre + [("n", self.item)] if spec == "append" else [("n", self.item)] + pre
                want_head = self.list0 if (spec == "append" and self.list0 != NULL) else ("node", self.item)
            got = self.content(value)
            if value != want_head or not self.same(got, want):
                raise Violation("%s returns %s with content %s, the sequence operation gives %s" % (
                    spec, "the wrong head" if value != want_head else "the list", self.show(got), self.show(want)))
            if self.freed:
                raise Violation("%s releases an item" % spec)
        elif spec == "remove":
            def known_other(a):
                if a[0] == "n":
                    return a[1] in self.nodes and self.nodes[a[1]]["is_d"] is False
                return self.nod.get(a[1], False)
            hit = None
            for idx, a in enumerate(pre):
                if a[0] == "n" and a[1] in self.nodes and self.nodes[a[1]]["is_d"] is True:
                    hit = idx
                    break
            for a in pre[:hit if hit is not None else len(pre)]:
                if not known_other(a):
                    raise Violation("remove returns %s although %s in front of it was never compared with the data" % (
                        "after removing an item" if hit is not None else "without a match", self.show([a])))
            want = pre[:hit] + pre[hit + 1:] if hit is not None else pre
            got = self.content(value)
            if not self.same(got, want):
                raise Violation("remove leaves %s, removing the first occurrence gives %s (the list was %s)" % (self.show(got), self.show(want), self.show(pre)))
            wf = [pre[hit]] if hit is not None else []
            if not self.same(self.freed, wf):
                raise Violation("remove releases %s, it must release %s" % (self.show(self.freed), self.show(wf)))
        elif spec == "reverse":
            want = [flip(a) for a in reversed(pre)]
            got = self.content(value)
            if not self.same(got, want):
                raise Violation("reverse returns %s, the reversed list is %s" % (self.show(got), self.show(want)))
            if self.freed:
                raise Violation("reverse releases an item")
        elif spec == "last":
            got = self.content(self.list0)
            if not self.same(got, pre):
                raise Violation("last modifies the list")
            if self.list0 == NULL:
                if value != NULL:
                    raise Violation("last of an empty list is not NULL")
            else:
                if value[0] != "node" or self.nodes[value[1]]["next"] != NULL or not pre or pre[-1] != ("n", value[1]):
                    raise Violation("last returns %r, which is not the final item of %s" % (value, self.show(pre)))
        elif spec == "foreach":
            got = self.content(self.list0)
            if not self.same(got, pre):
                raise Violation("foreach modifies the list")
            if not self.fn_null and not self.same(self.visits, pre):
                raise Violation("foreach hands %s to the callback, the list is %s" % (self.show(self.visits), self.show(pre)))
        elif spec == "free":
            if not self.same(self.freed, pre):
                raise Violation("free releases %s, the list is %s" % (self.show(self.freed), self.show(pre)))
        elif spec == "length":
            got = self.content(self.list0)
            if not self.same(got, pre):
                raise Violation("length modifies the list")
        else:
            raise AnalysisBroken("shape: unknown list specification %s" % spec)

