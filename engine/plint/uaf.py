"""Use-after-release typestate (shared by C15.4 and C18.3).

Tracks access paths handed to a releasing call (p_free and the library's own
free functions) and reports, path-sensitively, any later dereference, second
release or hand-over of the same path before it is reassigned.  Aliases are
not tracked: the rule speaks about the released expression itself, which is
how the library's unwinding code is written.
"""
from . import guards
from .flow import Flow
from .ir import calls, strip_casts, walk, ap, root_var, line, show

RELEASERS = {"p_free": 0}


def releasers_for(prog):
    """p_free plus every public/static `*_free` function of the library taking the object first."""
    rel = dict(RELEASERS)
    for u in prog.units.values():
        for f in u.functions.values():
            if (f.name.endswith("_free") or f.name.endswith("_free_internal")) and f.params and f.name not in ("p_mem_free",):
                rel[f.name] = 0
    for extra in ("closedir", "fclose", "freeaddrinfo", "dlclose"):
        rel[extra] = 0
    return rel


def derefs(stmt, freed):
    """Yield (path, node) for dereferences of a freed path inside stmt."""
    for n in walk(stmt):
        k = n["k"]
        base = None
        if k == "member" and n["arrow"]:
            base = n["base"]
        elif k == "un" and n["op"] == "*":
            base = n["e"]
        elif k == "idx":
            base = n["base"]
        if base is not None:
            p = ap(base)
            if p is not None and p in freed:
                yield p, n


def check_function(fn, releasers, pointer_only=True, use_facts=True):
    """Returns list of (kind, path, line, witness) problems."""
    from .units import AnalysisBroken
    if use_facts:
        try:
            if len(fn.blocks) > 50:
                raise AnalysisBroken("large function")
            return check_function(fn, releasers, pointer_only, use_facts=None)
        except AnalysisBroken:
            # too many fact combinations: fall back to the condition-insensitive typestate
            return check_function(fn, releasers, pointer_only, use_facts=False)
    problems = []

    def on_stmt(st, b, i, stmt):
        facts, freed = st
        # 1. uses of freed paths
        if freed:
            for (p, n) in derefs(stmt, dict(freed)):
                problems.append(("use", p, line(n), flow.witness_lines(*flow.cur), freed_at(freed, p)))
            for c in calls(stmt):
                cn = c.get("callee")
                for ai, a in enumerate(c["args"]):
                    p = ap(a)
                    if p is not None and p in dict(freed):
                        if cn in releasers and releasers[cn] == ai:
                            problems.append(("double", p, line(c), flow.witness_lines(*flow.cur), freed_at(freed, p)))
                        else:
                            problems.append(("pass", p, line(c), flow.witness_lines(*flow.cur), freed_at(freed, p)))
            if stmt["k"] == "ret" and stmt.get("e") is not None:
                p = ap(stmt["e"])
                if p is not None and p in dict(freed):
                    problems.append(("return", p, line(stmt), flow.witness_lines(*flow.cur), freed_at(freed, p)))
        # 2. reassignments clear the state of that path (and of paths below it)
        fd = dict(freed)
        for n in walk(stmt):
            if n["k"] == "asg" and n["op"] == "=":
                p = ap(n["l"])
                if p is not None:
                    for q in list(fd):
                        if q == p or q.startswith(p + "->") or q.startswith(p + "."):
                            del fd[q]
            if n["k"] == "decl":
                for q in list(fd):
                    if q == n["name"] or q.startswith(n["name"] + "->"):
                        del fd[q]
            if n["k"] == "call":
                # `helper (..., &line)`: the callee may store a new value through the address
                for a in n.get("args", ()):
                    a2 = strip_casts(a)
                    if a2 is not None and a2["k"] == "un" and a2.get("op") == "&":
                        p = ap(a2["e"])
                        if p is not None:
                            for q in list(fd):
                                if q == p or q.startswith(p + "->") or q.startswith(p + "."):
                                    del fd[q]
        # 3. new releases
        for c in calls(stmt):
            cn = c.get("callee")
            if cn in releasers and len(c["args"]) > releasers[cn]:
                a = c["args"][releasers[cn]]
                p = ap(a)
                if p is not None and "&" not in p:
                    fd[p] = line(c)
        facts2 = guards.transfer(facts, stmt) if use_facts is None else guards.EMPTY
        return [(facts2, tuple(sorted(fd.items())))]

    def freed_at(freed, p):
        return dict(freed).get(p)

    def on_edge(st, b, to, on):
        if use_facts is False:
            return st
        f2 = guards.edge_assume(st[0], b, on)
        if f2 is None:
            return None
        return (f2, st[1])

    flow = Flow(fn, [(guards.EMPTY, ())], on_stmt, on_edge, max_states=60000)
    flow.run()
    # de-duplicate
    seen = set()
    out = []
    for (k, p, ln, w, at) in problems:
        if (k, p, ln) in seen:
            continue
        seen.add((k, p, ln))
        out.append((k, p, ln, w, at))
    return out
